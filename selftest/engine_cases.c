/* synthetic functions for selftest/engine_cases.py: each has one FALSE claim that the engine must refute and
   one TRUE claim it must prove */
struct S { long x; long y; struct S *next; };
extern long unknown(struct S *p);

/* a field heap first touched on one branch must not leak into the other branch at the join */
long branch_write(struct S *p, int c) {
    if (c) { p->x = 1; }
    return p->x;
}

/* a field heap first read after a call that may change everything is not the function-entry heap */
long read_after_call(struct S *p) {
    unknown(p);
    return p->y;
}

/* backward goto: walks a list to its end */
struct S *last(struct S *p) {
 again:
    if (p->next != 0) { p = p->next; goto again; }
    return p;
}

/* A-STACK: a callee may write anything but not a local whose address it was not given */
extern void fill(long *p);
long private_local(struct S *p) {
    long keep = 5;
    long *q = &keep;          /* (address taken, but never handed to a callee) */
    unknown(p);
    return *q;
}
long handed_local(struct S *p) {
    long out = 6;
    fill(&out);
    unknown(p);
    return out;
}

/* a C global assigned inside a loop is arbitrary at the loop head (not its value at function entry) */
static long counter_g;
long global_in_loop(long n) {
    long i;
    for (i = 0; i < n; i++) {
        counter_g = counter_g + 2;
    }
    return counter_g;
}
