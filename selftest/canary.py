"""Engine/contract canaries: deliberately broken variants of the real function text,
applied to a scratch copy of /repo/src; every one must produce a refuted obligation.
A canary that verifies is a bug in the engine or a contract that is too weak.

usage: python3-vt -m selftest.canary [C02 C03 ...]
"""
import os
import shutil
import sys
import tempfile
import time

VERIF = os.path.dirname(os.path.dirname(os.path.abspath(__file__)))
sys.path.insert(0, VERIF)

from vf import cfront, driver          # noqa: E402

# (property, function(s) to re-verify, file, old text, new text)
C_MUTANTS = [
    ('C02', ['convert_to_object_bitfield'], 'src/c/_cffi_backend.c',
     'value = ((value >> cf->cf_bitshift) + shiftforsign) & valuemask;',
     'value = ((value >> cf->cf_bitshift) + shiftforsign) & (valuemask >> 1);'),
    ('C02', ['convert_to_object_bitfield'], 'src/c/_cffi_backend.c',
     'value = (value >> cf->cf_bitshift) & valuemask;\n\n        if (ct->ct_flags & CT_PRIMITIVE_FITS_LONG)\n            return PyLong_FromLong((long)value);\n        else\n            return PyLong_FromUnsignedLongLong(value);',
     'value = (value >> cf->cf_bitshift) & valuemask;\n\n        if (ct->ct_flags & CT_PRIMITIVE_FITS_LONG)\n            return PyLong_FromLong((long)(int)value);\n        else\n            return PyLong_FromUnsignedLongLong(value);'),
    ('C02', ['convert_from_object_bitfield'], 'src/c/_cffi_backend.c',
     'fmax = (1LL << (cf->cf_bitsize-1)) - 1LL;', 'fmax = (1LL << (cf->cf_bitsize-1));'),
    ('C02', ['convert_from_object_bitfield'], 'src/c/_cffi_backend.c',
     'if (value < fmin || value > fmax) {', 'if (value < fmin || value >= fmax) {'),
    ('C02', ['convert_from_object_bitfield'], 'src/c/_cffi_backend.c',
     'rawfielddata = (rawfielddata & ~rawmask) | (rawvalue & rawmask);',
     'rawfielddata = (rawfielddata & ~rawmask) | rawvalue;'),
    ('C02', ['convert_from_object_bitfield'], 'src/c/_cffi_backend.c',
     'rawmask = ((1ULL << cf->cf_bitsize) - 1ULL) << cf->cf_bitshift;',
     'rawmask = ((1ULL << cf->cf_bitsize) - 1ULL) << (cf->cf_bitshift & 31);'),
    ('C02', ['write_raw_integer_data'], 'src/c/_cffi_backend.c',
     '    _write_raw_data(unsigned int);\n    _write_raw_data(unsigned long);\n    _write_raw_data(unsigned PY_LONG_LONG);\n    Py_FatalError("write_raw_integer_data',
     '    _write_raw_data(unsigned long);\n    _write_raw_data(unsigned PY_LONG_LONG);\n    Py_FatalError("write_raw_integer_data'),
    ('C02', ['read_raw_signed_data'], 'src/c/_cffi_backend.c',
     '    _read_raw_data(signed char);\n    _read_raw_data(short);', '    _read_raw_data(unsigned char);\n    _read_raw_data(short);'),
    ('C02', ['convert_field_from_object'], 'src/c/_cffi_backend.c',
     '    if (cf->cf_bitshift >= 0)\n        return convert_from_object_bitfield(data, cf, value);',
     '    if (cf->cf_bitshift > 0)\n        return convert_from_object_bitfield(data, cf, value);'),
    ('C03', ['convert_from_object'], 'src/c/_cffi_backend.c',
     '            if (value > 1ULL)      /* value != 0 && value != 1 */', '            if (value > 2ULL)'),
    ('C03', ['convert_from_object'], 'src/c/_cffi_backend.c',
     '        write_raw_integer_data(buf, value, ct->ct_size);\n        if (value != read_raw_signed_data(buf, ct->ct_size))\n            goto overflow;',
     '        write_raw_integer_data(buf, value, ct->ct_size);\n        if (value != (PY_LONG_LONG)read_raw_unsigned_data(buf, ct->ct_size))\n            goto overflow;'),
    ('C03', ['_my_PyLong_AsUnsignedLongLong'], 'src/c/_cffi_backend.c',
     '        if (strict) {\n            if (_PyLong_Sign(ob) < 0)', '        if (!strict) {\n            if (_PyLong_Sign(ob) < 0)'),
    ('C03', ['_cffi_to_c_i8', '_cffi_to_c_i16'], 'src/c/_cffi_backend.c',
     '    if ((tmp > (PY_LONG_LONG)((1ULL<<(SIZE-1)) - 1)) ||                 \\',
     '    if ((tmp > (PY_LONG_LONG)((1ULL<<(SIZE-1)))) ||                 \\'),
    ('C03', ['_cffi_to_c_u8', '_cffi_to_c_u32'], 'src/c/_cffi_backend.c',
     '    if (tmp > ~(((unsigned PY_LONG_LONG)-2) << (SIZE-1)))               \\',
     '    if (tmp > ~(((unsigned PY_LONG_LONG)-2) << (SIZE)))               \\'),
    ('C03', ['_cffi_to_c__Bool'], 'src/c/_cffi_backend.c',
     '    else if (tmp == 1)\n        return 1;\n    else if (PyErr_Occurred())', '    else if (tmp >= 1)\n        return 1;\n    else if (PyErr_Occurred())'),
    ('C03', ['convert_from_object_fficallback'], 'src/c/_cffi_backend.c',
     '            write_raw_integer_data(result, value, sizeof(ffi_arg));\n            return 0;',
     '            write_raw_integer_data(result, (unsigned int)value, sizeof(ffi_arg));\n            return 0;'),
    ('C03', ['header:_cffi_to_c_int'], 'src/cffi/_cffi_include.h',
     '     sizeof(type) == 2 ? (((type)-1) > 0 ? (type)_cffi_to_c_u16(o)       \\\n                                         : (type)_cffi_to_c_i16(o)) :    \\',
     '     sizeof(type) == 2 ? (((type)-1) > 0 ? (type)_cffi_to_c_i16(o)       \\\n                                         : (type)_cffi_to_c_u16(o)) :    \\'),
    ('C03', ['header:_cffi_from_c_int'], 'src/cffi/_cffi_include.h',
     '        (sizeof(type) < sizeof(long) ?                                   \\\n            PyLong_FromLong((long)x) :',
     '        (sizeof(type) <= sizeof(long) ?                                   \\\n            PyLong_FromLong((long)x) :'),
    ('C04', ['cast_to_integer_or_char'], 'src/c/_cffi_backend.c',
     '    if (ct->ct_flags & CT_IS_BOOL)\n        value = !!value;\n    cd = _new_casted_primitive(ct);',
     '    if (ct->ct_flags & CT_IS_BOOL)\n        value = value & 1;\n    cd = _new_casted_primitive(ct);'),
    ('C04', ['cast_to_integer_or_char'], 'src/c/_cffi_backend.c',
     '        value = (Py_intptr_t)((CDataObject *)ob)->c_data;\n    }\n    else if (PyUnicode_Check(ob)) {',
     '        value = (int)(Py_intptr_t)((CDataObject *)ob)->c_data;\n    }\n    else if (PyUnicode_Check(ob)) {'),
    ('C04', ['cast_to_integer_or_char'], 'src/c/_cffi_backend.c',
     '        value = _my_PyLong_AsUnsignedLongLong(ob, 0);\n        if (value == (unsigned PY_LONG_LONG)-1 && PyErr_Occurred())\n            return NULL;\n    }\n  got_value:',
     '        value = _my_PyLong_AsUnsignedLongLong(ob, 1);\n        if (value == (unsigned PY_LONG_LONG)-1 && PyErr_Occurred())\n            return NULL;\n    }\n  got_value:'),
    ('C04', ['cdata_int'], 'src/c/_cffi_backend.c',
     '        value = (long)read_raw_signed_data(cd->c_data, cd->c_type->ct_size);\n        return PyLong_FromLong(value);',
     '        value = (long)read_raw_unsigned_data(cd->c_data, cd->c_type->ct_size);\n        return PyLong_FromLong(value);'),
    ('C04', ['_new_casted_primitive'], 'src/c/_cffi_backend.c',
     '    cd->c_data = ((char*)cd) + dataoffset;\n    cd->c_weakreflist = NULL;\n    return cd;',
     '    cd->c_data = ((char*)cd) + dataoffset - 8;\n    cd->c_weakreflist = NULL;\n    return cd;'),
    ('C04', ['do_cast'], 'src/c/_cffi_backend.c',
     '                return new_simple_cdata(cdsrc->c_data, ct);\n            }\n        }\n        if (PyCFunction_Check(ob)) {',
     '                return new_simple_cdata(cdsrc->c_data, cdsrc->c_type);\n            }\n        }\n        if (PyCFunction_Check(ob)) {'),
    ('C23', ['set iteration'], 'src/cffi/recompiler.py',
     '        for decl in sorted(localvars):', '        for decl in localvars:'),
    ('C23', ['_make_c_or_py_source'], 'src/cffi/recompiler.py',
     "            if f1.read(len(output) + 1) != output:", "            if f1.read(len(output)) != output:"),
    ('C23', ['_make_c_or_py_source'], 'src/cffi/recompiler.py',
     "        with open(tmp_file, 'w') as f1:\n            f1.write(output)\n        try:\n            os.rename(tmp_file, target_file)",
     "        with open(target_file, 'w') as f1:\n            f1.write(output)\n        try:\n            os.rename(target_file, target_file)"),
    ('C10', ['build_baseinttype'], 'src/cffi/model.py',
     "            largest_value < (1 << (8*size2-sign))):", "            largest_value <= (1 << (8*size2-sign))):"),
    ('C09', ['_parse_constant'], 'src/cffi/cparser.py',
     "            elif exprnode.op == '%':\n                return left - self._c_div(left, right) * right",
     "            elif exprnode.op == '%':\n                return left % right"),
    ('C09', ['_parse_constant'], 'src/cffi/cparser.py',
     "            elif exprnode.op == '|':\n                return left | right", "            elif exprnode.op == '|':\n                return left ^ right"),
    ('C30', ['_parse_constant'], 'src/cffi/cparser.py',
     "            if exprnode.op in ('<<', '>>') and right < 0:", "            if exprnode.op in ('<<',) and right < 0:"),
    ('C35', ['get_other_libs'], 'src/cffi/pkgconfig.py',
     'not x.startswith("-l")]', 'not x.startswith("-l") and not x.startswith("-W")]'),
    ('C35', ['kwargs'], 'src/cffi/pkgconfig.py',
     '"libraries": get_libraries(all_libs),', '"libraries": get_libraries(all_cflags),'),
    ('C37', ['dl_read_variable'], 'src/c/_cffi_backend.c',
     '    if (dl_check_closed(dlobj) < 0)\n        return NULL;\n\n    dlerror();   /* clear error condition */\n    data = dlsym(dlobj->dl_handle, varname);\n    if (data == NULL) {\n        const char *error = dlerror();\n        if (error != NULL) {',
     '    dlerror();   /* clear error condition */\n    data = dlsym(dlobj->dl_handle, varname);\n    if (data == NULL) {\n        const char *error = dlerror();\n        if (error != NULL) {'),
    ('C37', ['dl_close_lib'], 'src/c/_cffi_backend.c',
     '        dlclose(dlobj->dl_handle);\n        dlobj->dl_handle = NULL;\n    }\n    Py_INCREF(Py_None);',
     '        dlclose(dlobj->dl_handle);\n    }\n    Py_INCREF(Py_None);'),
    ('C06', ['search_standard_typename'], 'src/c/parse_c_type.c',
     '        if (size == 12 && !memcmp(p, "int_fast32", 10)) return _CFFI_PRIM_INT_FAST32;',
     '        if (size == 12 && !memcmp(p, "int_fast32",  9)) return _CFFI_PRIM_INT_FAST32;'),
    ('C06', ['types table'], 'src/c/_cffi_backend.c',
     '       EPTYPE(sz, size_t, CT_PRIMITIVE_UNSIGNED)                \\',
     '       EPTYPE(sz, size_t, CT_PRIMITIVE_SIGNED)                \\'),
    ('C06', ['primitive_name'], 'src/c/realize_c_type.c',
     '        "int_least16_t",\n        "uint_least16_t",', '        "uint_least16_t",\n        "int_least16_t",'),
    ('C18', ['b_unpack'], 'src/c/_cffi_backend.c',
     '        case 6: x = PyLong_FromLong((long)*(unsigned int *)src); break;',
     '        case 6: x = PyLong_FromLong((long)*(int *)src); break;'),
    ('C18', ['b_unpack'], 'src/c/_cffi_backend.c',
     '            if (ctitem->ct_flags & CT_IS_BOOL)           casenum = 11;\n            else if',
     '            if (0)           casenum = 11;\n            else if'),
    ('C22', ['b_set_errno'], 'src/c/_cffi_backend.c',
     '    else if (ival < INT_MIN || ival > INT_MAX) {', '    else if (ival < INT_MIN || ival > UINT_MAX) {'),
    ('C17', ['cdata_richcompare'], 'src/c/_cffi_backend.c',
     '        case Py_LE: res = (v_cdata <= w_cdata); break;', '        case Py_LE: res = (v_cdata <  w_cdata); break;'),
    ('C16', ['_cdata_get_indexed_ptr'], 'src/c/_cffi_backend.c',
     '        if (i >= get_array_length(cd)) {', '        if (i > get_array_length(cd)) {'),
    ('C16', ['_cdata_getslicearg'], 'src/c/_cffi_backend.c',
     '        if (stop > get_array_length(cd)) {', '        if (stop >= get_array_length(cd) + 2) {'),
    ('C25', ['search_sorted'], 'src/c/parse_c_type.c',
     '        else if (diff >= 0)\n            right = middle;', '        else if (diff > 0)\n            right = middle;'),
    ('C15', ['_my_PyUnicode_AsChar16'], 'src/c/wchar_helper_3.h',
     '            *result++ = 0xDC00 | (ordinal & 0x3FF);', '            *result++ = 0xDC00 | (ordinal & 0x1FF);'),
    ('C11', ['cdl_4bytes'], 'src/c/cdlopen.c',
     '    return (ssrc[0] << 24) | (usrc[1] << 16) | (usrc[2] << 8) | usrc[3];',
     '    return (ssrc[0] << 24) | (usrc[1] << 8) | (usrc[2] << 16) | usrc[3];'),   # (usrc[0] << 24 is equivalent under gcc)
    ('C11', ['format_four_bytes'], 'src/cffi/cffi_opcode.py',
     '        (num >> 16) & 0xFF,', '        (num >> 16) & 0x7F,'),
    ('C01', ['field loop'], 'src/c/_cffi_backend.c',
     '                    byteoffset += (bitoffset >> 3);', '                    byteoffset += (bitoffset >> 2);'),
    ('C01', ['field loop'], 'src/c/_cffi_backend.c',
     '                    if (bits_already_occupied + fbitsize > 8 * ftype->ct_size) {',
     '                    if (bits_already_occupied + fbitsize >= 8 * ftype->ct_size) {'),
    ('C01', ['field loop'], 'src/c/_cffi_backend.c',
     '        falign = (pack < falignorg) ? pack : falignorg;', '        falign = falignorg;'),
    ('C01', ['field loop'], 'src/c/_cffi_backend.c',
     '                do_align = PyUnicode_GetLength(fname) > 0;', '                do_align = 1;'),
    ('C01', ['get_alignment'], 'src/c/_cffi_backend.c',
     '        align = offsetof(struct aligncheck_ptr, y);', '        align = 4;'),
    ('C01', ['epilogue'], 'src/c/_cffi_backend.c',
     '    alignedsize = (byteoffsetmax + alignment - 1) & ~(alignment-1);',
     '    alignedsize = (byteoffsetmax + alignment) & ~(alignment-1);'),
    ('C01', ['anonymous member loop'], 'src/c/_cffi_backend.c',
     '                                           byteoffset + cfsrc->cf_offset,',
     '                                           cfsrc->cf_offset,'),
    ('C12', ['_cffi_check_int'], 'src/cffi/_cffi_include.h',
     '    ((got_nonpos) == (expected <= 0) &&                 \\', '    ((got_nonpos) == (expected < 0) &&                 \\'),
    ('C12', ['_generate_cpy_const'], 'src/cffi/recompiler.py',
     "                prnt('    n |= 2;')", "                prnt('    n |= 1;')"),
    ('C12', ['realize_global_int'], 'src/c/realize_c_type.c',
     '    switch (neg) {\n\n    case 0:\n        if (value <= (unsigned long long)LONG_MAX)',
     '    switch (neg & 1) {\n\n    case 0:\n        if (value <= (unsigned long long)LONG_MAX)'),
    ('C12', ['detect_custom_layout'], 'src/c/_cffi_backend.c',
     '        if (sflags & SF_STD_FIELD_POS) {\n            PyErr_Format(FFIError,\n                         "%s: %s%s%s (cdef says',
     '        if (sflags & SF_PACKED) {\n            PyErr_Format(FFIError,\n                         "%s: %s%s%s (cdef says'),
    ('C12', ['b_complete epilogue'], 'src/c/_cffi_backend.c',
     '        if (detect_custom_layout(ct, sflags, alignedsize,\n                                 totalsize, "wrong total size", "", "") < 0)',
     '        if (detect_custom_layout(ct, sflags, totalsize,\n                                 totalsize, "wrong total size", "", "") < 0)'),
    ('C12', ['read_global_var'], 'src/c/cglob.c',
     '    return convert_to_object(data, gs->gs_type);', '    return convert_to_object(gs->gs_data, gs->gs_type);'),
    ('C12', ['field loop, forced offset'], 'src/c/_cffi_backend.c',
     '                byteoffset = foffset;\n            }', '            }'),
    ('C29', ['cffi_closure_alloc'], 'src/c/malloc_closure.h',
     '    item = free_list;\n    free_list = item->next;\n    MALLOC_CLOSURE_UNLOCK();\n    return &item->closure;',
     '    item = free_list;\n    MALLOC_CLOSURE_UNLOCK();\n    return &item->closure;'),
    ('C29', ['cffi_closure_free'], 'src/c/malloc_closure.h',
     '    item->next = free_list;\n    free_list = item;\n    MALLOC_CLOSURE_UNLOCK();',
     '    item->next = NULL;\n    free_list = item;\n    MALLOC_CLOSURE_UNLOCK();'),
    ('C29', ['more_core'], 'src/c/malloc_closure.h',
     '        item->next = free_list;\n        free_list = item;\n        ++item;',
     '        item->next = free_list;\n        free_list = item;'),
    ('C29', ['b_callback'], 'src/c/_cffi_backend.c',
     '    cd->head.c_data = CFFI_CLOSURE_TO_FNPTR(char *, closure_exec);', '    cd->head.c_data = (char *)cd;'),
    ('C29', ['invoke_callback'], 'src/c/_cffi_backend.c',
     '        general_invoke_callback(1, result, (char *)args, userdata);',
     '        general_invoke_callback(1, result, (char *)args, cif);'),
    ('C27', ['new_array_type'], 'src/c/_cffi_backend.c',
     '    unique_key[1] = (void *)length;', '    unique_key[1] = (void *)0;'),
    ('C27', ['get_or_insert_unique_type'], 'src/c/_cffi_backend.c',
     '        Py_DECREF(wr);\n        if (obj != NULL) {\n            return obj;\n        }',
     '        Py_DECREF(wr);'),
    ('C27', ['remove_dead_unique_reference'], 'src/c/_cffi_backend.c',
     '        if (err == 0) {\n            /* The weakref is dead, delete it. */',
     '        if (err >= 0) {\n            /* The weakref is dead, delete it. */'),
    ('C05', ['write_raw_float_data'], 'src/c/_cffi_backend.c',
     'write_raw_float_data(char *target, double source, int size)\n{\n    _write_raw_data(float);',
     'write_raw_float_data(char *target, double source, int size)\n{\n    if (size == 4) { float f = (float)(source * 0.99999999999); memcpy(target, &f, 4); return; }\n    _write_raw_data(float);'),
    ('C05', ['convert_from_object float'], 'src/c/_cffi_backend.c',
     '            lvalue = read_raw_longdouble_data(initdata);\n            write_raw_longdouble_data(data, lvalue);\n            return 0;',
     '            lvalue = (long double)(double)read_raw_longdouble_data(initdata);\n            write_raw_longdouble_data(data, lvalue);\n            return 0;'),
    ('C20', ['allocate_owning_object'], 'src/c/_cffi_backend.c',
     '    if (dont_clear)\n        cd = malloc(size);', '    if (dont_clear || size > 4096)\n        cd = malloc(size);'),
    ('C20', ['add_varsize_length'], 'src/c/_cffi_backend.c',
     '    if (size > *optvarsize)\n        *optvarsize = size;', '    if (size > *optvarsize + 8)\n        *optvarsize = size;'),
    ('C20', ['list loop'], 'src/c/_cffi_backend.c',
     '            while (cf != NULL && (cf->cf_flags & BF_IGNORE_IN_CTOR))\n                cf = cf->cf_next;',
     '            while (cf != NULL && i > 0 && (cf->cf_flags & BF_IGNORE_IN_CTOR))\n                cf = cf->cf_next;'),
    ('C21', ['cdatagcp_finalize'], 'src/c/_cffi_backend.c',
     '    cd->destructor = NULL;\n    cd->origobj = NULL;\n    gcp_finalize(destructor, origobj);',
     '    gcp_finalize(destructor, origobj);\n    cd->destructor = NULL;\n    cd->origobj = NULL;'),
    ('C21', ['cdatagcp_finalize keeps armed'], 'src/c/_cffi_backend.c',
     '    cd->destructor = NULL;\n    cd->origobj = NULL;\n    gcp_finalize(destructor, origobj);',
     '    cd->origobj = NULL;\n    gcp_finalize(destructor, origobj);'),
    ('C21', ['gcp_finalize loses the pending exception'], 'src/c/_cffi_backend.c',
     '        /* Restore the saved exception */\n        PyErr_Restore(error_type, error_value, error_traceback);',
     '        /* Restore the saved exception */\n        if (result != NULL) PyErr_Restore(error_type, error_value, error_traceback);'),
    ('C21', ['b_gcp None calls'], 'src/c/_cffi_backend.c',
     '\tPy_CLEAR(((CDataObject_gcp *)origobj)->destructor);\n\tPy_RETURN_NONE;',
     '\tcdatagcp_finalize((CDataObject_gcp *)origobj);\n\tPy_RETURN_NONE;'),
    ('C21', ['b_gcp None forgets'], 'src/c/_cffi_backend.c',
     '\tPy_CLEAR(((CDataObject_gcp *)origobj)->destructor);\n\tPy_RETURN_NONE;',
     '\tPy_RETURN_NONE;'),
    ('C21', ['cdata_exit frombuf'], 'src/c/_cffi_backend.c',
     '            view = ((CDataObject_frombuf *)cd)->bufferview;\n            PyBuffer_Release(view);\n            break;',
     '            view = ((CDataObject_frombuf *)cd)->bufferview;\n            break;'),
    ('C21', ['cdata_exit gc'], 'src/c/_cffi_backend.c',
     '            /* call the destructor immediately */\n            cdatagcp_finalize((CDataObject_gcp *)cd);\n            break;',
     '            /* call the destructor immediately */\n            break;'),
    ('C21', ['allocate_with_allocator free'], 'src/c/_cffi_backend.c',
     '        cd = allocate_gcp_object(cd, ct, allocator->ca_free);',
     '        cd = allocate_gcp_object(cd, ct, allocator->ca_alloc);'),
    ('C21', ['b_from_handle'], 'src/c/_cffi_backend.c',
     '    x = orgcd->structobj;\n    Py_INCREF(x);\n    return x;',
     '    x = (PyObject *)orgcd;\n    Py_INCREF(x);\n    return x;'),
    ('C21', ['newp_handle'], 'src/c/_cffi_backend.c',
     '    Py_INCREF(x);\n    cd->structobj = x;',
     '    Py_INCREF(x);\n    cd->structobj = (PyObject *)ct_voidp;'),
    ('C21', ['newp_handle address'], 'src/c/_cffi_backend.c',
     '    cd->head.c_data = (char *)cd;\n    cd->head.c_weakreflist = NULL;\n    Py_INCREF(x);', '    cd->head.c_data = (char *)x;\n    cd->head.c_weakreflist = NULL;\n    Py_INCREF(x);'),
    ('C21', ['direct_from_buffer leak'], 'src/c/_cffi_backend.c',
     ' error2:\n    PyBuffer_Release(view);\n error1:', ' error2:\n error1:'),
    ('C21', ['cdatagcp_dealloc double'], 'src/c/_cffi_backend.c',
     '    cdata_dealloc((CDataObject *)cd);\n\n    gcp_finalize(destructor, origobj);',
     '    cdata_dealloc((CDataObject *)cd);\n\n    gcp_finalize(destructor, origobj);\n    gcp_finalize(destructor, origobj);'),
    ('C21', ['owned subscript'], 'src/c/_cffi_backend.c',
     '        PyObject *res = ((CDataObject_own_structptr *)cd)->structobj;\n        Py_INCREF(res);\n        return res;',
     '        return convert_to_object(c, cd->c_type->ct_itemdescr);'),
    ('C21', ['a fourth writer of destructor'], 'src/c/_cffi_backend.c',
     'static int cdatagcp_traverse(CDataObject_gcp *cd, visitproc visit, void *arg)\n{',
     'static int cdatagcp_traverse(CDataObject_gcp *cd, visitproc visit, void *arg)\n{\n    if (arg == (void *)cd) cd->destructor = cd->origobj;'),
    ('C14', ['arg slot'], 'src/c/_cffi_backend.c',
     '            a_src = args + i * 8;\n            if (a_ct->ct_flags & (CT_IS_LONGDOUBLE | CT_STRUCT | CT_UNION))',
     '            a_src = args + i * 8;\n            if (a_ct->ct_flags & (CT_IS_LONGDOUBLE | CT_STRUCT))'),
    ('C14', ['arg type'], 'src/c/_cffi_backend.c',
     '        CTypeDescrObject *a_ct = SIGNATURE(2 + i);', '        CTypeDescrObject *a_ct = SIGNATURE(2 + (i ? i - 1 : 0));'),
    ('C14', ['arg order'], 'src/c/_cffi_backend.c',
     '        PyTuple_SET_ITEM(py_args, i, a);', '        PyTuple_SET_ITEM(py_args, n - 1 - i, a);'),
    ('C14', ['result type'], 'src/c/_cffi_backend.c',
     '    if (convert_from_object_fficallback(result, SIGNATURE(1), py_res,\n                                        decode_args_from_libffi) < 0) {',
     '    if (convert_from_object_fficallback(result, SIGNATURE(1), py_res,\n                                        1) < 0) {'),
    ('C14', ['exception escapes'], 'src/c/_cffi_backend.c',
     '        if (res1 != NULL) {\n            if (res1 != Py_None)\n                convert_from_object_fficallback(result, SIGNATURE(1), res1,\n                                                decode_args_from_libffi);\n            Py_DECREF(res1);\n        }\n        if (!PyErr_Occurred()) {',
     '        if (res1 != NULL) {\n            if (res1 != Py_None)\n                convert_from_object_fficallback(result, SIGNATURE(1), res1,\n                                                decode_args_from_libffi);\n            Py_DECREF(res1);\n        }\n        if (res1 != NULL) {'),
    ('C14', ['error value skipped'], 'src/c/_cffi_backend.c',
     ' error:\n    if (SIGNATURE(1)->ct_size > 0) {\n        py_rawerr = PyTuple_GET_ITEM(cb_args, 2);',
     ' error:\n    if (SIGNATURE(1)->ct_size > 8) {\n        py_rawerr = PyTuple_GET_ITEM(cb_args, 2);'),
    ('C14', ['error bytes of the wrong member'], 'src/c/_cffi_backend.c',
     '        py_rawerr = PyTuple_GET_ITEM(cb_args, 2);\n        memcpy(result, PyBytes_AS_STRING(py_rawerr),\n                       PyBytes_GET_SIZE(py_rawerr));',
     '        py_rawerr = PyTuple_GET_ITEM(cb_args, 2);\n        memcpy(result, PyBytes_AS_STRING(py_rawerr),\n                       PyBytes_GET_SIZE(py_rawerr) - 1);'),
    ('C14', ['onerror result ignored when None check inverted'], 'src/c/_cffi_backend.c',
     '            if (res1 != Py_None)\n                convert_from_object_fficallback(result, SIGNATURE(1), res1,',
     '            if (res1 == Py_None)\n                convert_from_object_fficallback(result, SIGNATURE(1), res1,'),
    ('C14', ['info tuple order'], 'src/c/_cffi_backend.c',
     '    infotuple = Py_BuildValue("OOOO", ct, ob, py_rawerr, onerror_ob);',
     '    infotuple = Py_BuildValue("OOOO", ct, ob, onerror_ob, py_rawerr);'),
    ('C14', ['error bytes not cleared'], 'src/c/_cffi_backend.c',
     '    memset(PyBytes_AS_STRING(py_rawerr), 0, size);\n    if (error_ob != Py_None) {',
     '    if (error_ob != Py_None) {'),
    ('C14', ['error bytes too small'], 'src/c/_cffi_backend.c',
     '    if (size < (Py_ssize_t)sizeof(ffi_arg))\n        size = sizeof(ffi_arg);\n    py_rawerr = PyBytes_FromStringAndSize(NULL, size);',
     '    py_rawerr = PyBytes_FromStringAndSize(NULL, size);'),
    ('C14', ['generated slot offset'], 'src/cffi/recompiler.py',
     "prnt('  *(%s)(p + %d) = %s;' % (type.get_c_name('*'), i*8, arg))", "prnt('  *(%s)(p + %d) = %s;' % (type.get_c_name('*'), i*4, arg))"),
    ('C14', ['generated by-address set'], 'src/cffi/recompiler.py',
     "                    tp.name == 'long double')", "                    tp.name in ('long double', 'double'))"),
    ('C34', ['external kind test'], 'src/c/ffi_obj.c',
     '        if ((s1->flags & (_CFFI_F_EXTERNAL | _CFFI_F_UNION))\n                == (s->flags & _CFFI_F_UNION)) {',
     '        if ((s1->flags & _CFFI_F_UNION)\n                == (s->flags & _CFFI_F_UNION)) {'),
    ('C34', ['wrong entry realized'], 'src/c/ffi_obj.c',
     '            return _realize_c_struct_or_union(&ffi1->types_builder, sindex);',
     '            return _realize_c_struct_or_union(&ffi1->types_builder, 0);'),
    ('C34', ['realized by the wrong builder'], 'src/c/ffi_obj.c',
     '            return _realize_c_struct_or_union(&ffi1->types_builder, sindex);',
     '            return _realize_c_struct_or_union(&((FFIObject *)PyTuple_GET_ITEM(included_ffis, 0))->types_builder, sindex);'),
    ('C34', ['python: kinds'], 'src/cffi/cparser.py',
     "            if kind in ('struct', 'union', 'enum', 'anonymous', 'typedef'):\n                self._declare(name, tp, included=True, quals=quals)",
     "            if kind in ('struct', 'union', 'anonymous', 'typedef'):\n                self._declare(name, tp, included=True, quals=quals)"),
    ('C34', ['python: quals dropped'], 'src/cffi/cparser.py',
     "                self._declare(name, tp, included=True, quals=quals)", "                self._declare(name, tp, included=True)"),
    ('C34', ['python: silent replace'], 'src/cffi/cparser.py',
     "            if not self._options.get('override'):\n                raise FFIError(\n                    \"multiple declarations of %s (for interactive usage, \"",
     "            if not self._options.get('override') and not included:\n                raise FFIError(\n                    \"multiple declarations of %s (for interactive usage, \""),
    ('C34', ['python: constants'], 'src/cffi/cparser.py',
     "        for k, v in other._int_constants.items():\n            self._add_constants(k, v)",
     "        for k, v in other._int_constants.items():\n            self._int_constants.setdefault(k, v)"),
    ('C34', ['python: not marked included'], 'src/cffi/cparser.py',
     "        if included:\n            self._included_declarations.add(obj)", "        if included and quals:\n            self._included_declarations.add(obj)"),
    ('C03', ['export table'], 'src/c/_cffi_backend.c',
     '    _cffi_to_c_i32,\n    _cffi_to_c_u32,', '    _cffi_to_c_u32,\n    _cffi_to_c_i32,'),
]


def scratch_repo():
    d = tempfile.mkdtemp(prefix='cffi-canary-')
    for item in ('src', 'setup.py', 'setup_base.py', 'pyproject.toml', 'README.md', 'LICENSE', 'MANIFEST.in'):
        sp = os.path.join(cfront.REPO, item)
        if os.path.isdir(sp):
            shutil.copytree(sp, os.path.join(d, item), ignore=shutil.ignore_patterns('*.so', '__pycache__', 'build'))
        elif os.path.exists(sp):
            shutil.copy(sp, d)
    return d


def run_one(m):
    """end to end: the registered check command, pointed at a mutated scratch copy of the repository,
    must exit 1 with a VIOLATION line (and never crash)"""
    import subprocess
    pid, funcs, rel, old, new = m
    d = scratch_repo()
    out = tempfile.mkdtemp(prefix='cffi-canary-out-')
    try:
        p = os.path.join(d, rel)
        s = open(p).read()
        if s.count(old) != 1:
            return (pid, funcs, 'STALE', 'mutation site not found exactly once (%d)' % s.count(old))
        open(p, 'w').write(s.replace(old, new))
        env = dict(os.environ, VERIF_REPO=d, VERIF_OUT=out)
        r = subprocess.run([os.path.join(VERIF, 'check'), pid, '--tier', 'quick'], capture_output=True, text=True,
                           env=env, timeout=3600)
        vio = [l for l in r.stdout.split('\n') if l.startswith('VIOLATION')]
        if r.returncode == 1 and vio:
            replayed = sum(1 for l in vio if 'no-failing-input-found' not in l)
            return (pid, funcs, 'KILLED', '%d violation lines, %d replayed on the real build; first: %s'
                    % (len(vio), replayed, vio[0][:230]))
        if r.returncode == 0:
            return (pid, funcs, 'SURVIVED', r.stdout.strip().split('\n')[-1][:200])
        return (pid, funcs, 'ERROR rc=%d' % r.returncode, (r.stdout + r.stderr).strip()[-300:])
    finally:
        shutil.rmtree(d, True)
        shutil.rmtree(out, True)


def run(props=None, jobs=3):
    from concurrent.futures import ThreadPoolExecutor
    ms = [m for m in C_MUTANTS if not props or m[0] in props]
    with ThreadPoolExecutor(jobs) as ex:
        return list(ex.map(run_one, ms))


if __name__ == '__main__':
    t = time.time()
    res = run(set(sys.argv[1:]) or None)
    bad = 0
    for r in res:
        print("%-5s %-40s %-9s %s" % (r[0], ','.join(r[1])[:40], r[2], r[3]))
        if r[2] != 'KILLED':
            bad += 1
    print("canaries: %d, not killed: %d, %.0fs" % (len(res), bad, time.time() - t))
    sys.exit(1 if bad else 0)
