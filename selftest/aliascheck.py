"""Canary for the read-over-write resolution of stack locals in vf/cexec.py (load_raw / store_raw /
_outside_frame): on randomly generated histories of stores -- into locals at constant offsets, into a local array
at a symbolic index, through a pointer into a region the precondition names, through an unconstrained pointer that
MAY point into the frame, and ite-merged branches of these -- every resolved read must be provably equal, under
the frame hypotheses and the precondition, to the plain select through the unresolved store chain.  A resolution
that skipped a store it must not skip makes the equality refutable and the canary fail.

usage: python3-vt -m selftest.aliascheck [seed] [rounds]
"""
import itertools
import os
import random
import sys

import z3

VERIF = os.path.dirname(os.path.dirname(os.path.abspath(__file__)))
sys.path.insert(0, VERIF)

from vf import cexec          # noqa: E402
from vf.cexec import BV, B64, B8, State, Exec   # noqa: E402


class T:
    def __init__(self, size):
        self.size = size


def plain_load(arr, addr, n):
    bs = [z3.Select(arr, addr + BV(k, 64)) if k else z3.Select(arr, addr) for k in range(n)]
    return z3.Concat(*reversed(bs)) if n > 1 else bs[0]


def plain_store(arr, addr, val, n):
    for k in range(n):
        arr = z3.Store(arr, addr + BV(k, 64) if k else addr, z3.Extract(8 * k + 7, 8 * k, val))
    return arr


def one_round(rnd):
    ex = object.__new__(Exec)
    ex.tu = ex.reg = None
    ex._fresh = itertools.count()
    ex.stack_syms, ex._alias_cache, ex._outside_stores = [], {}, {}
    ex.alias_stats = {'proved': 0, 'open': 0}
    ex.declared_regions, ex.fresh_regions, ex.literal_hyps, ex._glob_syms = [], [], [], []
    locs = [ex.new_stack('a', T(8)), ex.new_stack('b', T(8)), ex.new_stack('msg', T(32))]
    sizes = [8, 8, 32]
    p, q, i, n = z3.BitVecs('p q i n', 64)
    ctx = cexec.Ctx(ex, {}, State())
    ex.collecting_regions = True
    pre = [ctx.valid(p, n * 8), z3.And(i >= 0, i < n, n < BV(1 << 20, 64))]
    ex.collecting_regions = False
    ex.pre_pc = list(pre)
    st, shadow = State(), None
    st.raw = shadow = z3.Array('RAW0', B64, B8)
    checked = 0

    def rand_store(st, shadow):
        kind = rnd.choice(['loc', 'loc', 'region', 'region_c', 'wild', 'locsym'])
        nb = rnd.choice([1, 4, 8])
        val = z3.BitVec('v%d' % next(ex._fresh), 8 * nb)
        if kind == 'loc':
            k = rnd.randrange(3)
            addr = locs[k] + BV(rnd.randrange(0, sizes[k] - nb + 1), 64)
        elif kind == 'region':
            addr = p + i * 8
        elif kind == 'region_c':
            addr = p + BV(rnd.randrange(0, 4) * 8, 64)        # not provably inside (n may be small): must stay
        elif kind == 'wild':
            addr = q + BV(rnd.randrange(0, 16), 64)
        else:
            addr = locs[2] + (i & 15)
        ex.store_raw(st, addr, val, nb)
        return plain_store(shadow, addr, val, nb)

    for step in range(rnd.randrange(3, 9)):
        if rnd.random() < 0.2:
            # branch and merge
            c = z3.Bool('c%d' % next(ex._fresh))
            s1, s2 = st.copy(), st.copy()
            sh1 = rand_store(s1, shadow)
            sh2 = rand_store(s2, shadow) if rnd.random() < 0.7 else shadow
            st.raw = z3.If(c, s1.raw, s2.raw)
            shadow = z3.If(c, sh1, sh2)
        else:
            shadow = rand_store(st, shadow)
    hyps = ex.finish_hyps() + pre
    bad = []
    for _ in range(6):
        nb = rnd.choice([1, 4, 8])
        if rnd.random() < 0.7:
            k = rnd.randrange(3)
            addr = locs[k] + BV(rnd.randrange(0, sizes[k] - nb + 1), 64)
        else:
            addr = rnd.choice([p + i * 8, q, p + BV(8, 64)])
        got = ex.load_raw(st, addr, nb)
        want = plain_load(shadow, addr, nb)
        s = z3.Solver()
        s.set('timeout', 20000)
        for h in hyps:
            s.add(h)
        s.add(got != want)
        r = s.check()
        if r == z3.unknown:
            # z3's default tactic gives up on some store chains with a symbolic index: ask the portfolio (z3-new, cvc5)
            from vf import smt
            res = smt.discharge([smt.Ob('aliascheck', hyps, got == want)], timeout_s=240)
            r = {'discharged': z3.unsat, 'refuted': z3.sat}.get(res[0][1], z3.unknown)
        checked += 1
        if r != z3.unsat:
            bad.append((str(addr), str(r)))
    return checked, bad, ex.alias_stats


def main():
    seed = int(sys.argv[1]) if len(sys.argv) > 1 else 0
    rounds = int(sys.argv[2]) if len(sys.argv) > 2 else 40
    rnd = random.Random(seed)
    total, proved, opened = 0, 0, 0
    for r in range(rounds):
        n, bad, stats = one_round(rnd)
        total += n
        proved += stats['proved']
        opened += stats['open']
        if bad:
            print("FAIL round %d: resolved read differs from the plain select: %s" % (r, bad[:3]))
            return 1
    print("ok: %d resolved reads equal the plain select (%d alias lemmas proved, %d left open and not used)"
          % (total, proved, opened))
    if proved == 0 or opened == 0:
        print("FAIL: the canary did not exercise both outcomes of the alias lemma")
        return 1
    return 0


if __name__ == '__main__':
    sys.exit(main())
