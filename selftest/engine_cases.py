"""Engine canaries on synthetic C (selftest/engine_cases.c): soundness regressions of vf/cexec.py.
Every FALSE claim must be refuted and every TRUE claim discharged; exit 1 otherwise.

  branch_write     a heap first written on one branch of an `if` (found in round 3: the join used to take that
                   branch's heap for both paths, so `return p->x` "was" 1 on the path that never wrote it)
  read_after_call  a heap first read after a havocking call is arbitrary, not the entry heap
  private_local    a callee that may write everything does not reach a local whose address it was not handed
                   (A-STACK), but does reach one whose address it got
  global_in_loop   a C global assigned in a loop is arbitrary at the loop head (found in round 3 by the clause
                   covers: it used to keep its function-entry value there, so more_core's invariant was proved
                   against a head state in which the free list was still empty)
  last             a cycle made of a backward goto needs a label invariant; without re-establishing it the
                   obligation fails
usage: python3-vt -m selftest.engine_cases
"""
import os
import sys

import z3

VERIF = os.path.dirname(os.path.dirname(os.path.abspath(__file__)))
sys.path.insert(0, VERIF)
from vf import cfront, smt                                        # noqa: E402
from vf.cexec import Exec, Registry, Contract, Frame, LoopSpec    # noqa: E402


def main():
    tu = cfront.load_tu(os.path.join(VERIF, 'selftest', 'engine_cases.c'))
    R = Registry()
    fx = lambda c, st, p, f: c.field(st, p, 'struct S', f)

    class unknown(Contract):
        name = 'unknown'
        trusted = True

        def frame(self, c):
            return Frame(all_raw=True, all_fields=True, err=True)

    class branch_write(Contract):
        name = 'branch_write'

        def pre(self, c):
            return [('v', c.valid(c['p'], 24))]

        def frame(self, c):
            return Frame(fields=[('struct S', 'x')])

        def post(self, c):
            return [('FALSE: always 1', c.result == 1),
                    ('TRUE: 1 or the old value', c.result == z3.If(c['c'] != 0, z3.BitVecVal(1, 64), fx(c, c.old, c['p'], 'x')))]

    class read_after_call(Contract):
        name = 'read_after_call'

        def pre(self, c):
            return [('v', c.valid(c['p'], 24))]

        def frame(self, c):
            return None

        def post(self, c):
            return [('FALSE: the value of y at entry', c.result == fx(c, c.old, c['p'], 'y')),
                    ('TRUE: the value of y at exit', c.result == fx(c, c.new, c['p'], 'y'))]

    class fill(Contract):
        name = 'fill'
        trusted = True

        def frame(self, c):
            return Frame(raw=[(c['p'], 8)])

    class private_local(Contract):
        name = 'private_local'

        def pre(self, c):
            return [('v', c.valid(c['p'], 24))]

        def frame(self, c):
            return None

        def post(self, c):
            return [('TRUE: keep is still 5 after the call', c.result == 5)]

    class handed_local(Contract):
        name = 'handed_local'

        def pre(self, c):
            return [('v', c.valid(c['p'], 24))]

        def frame(self, c):
            return None

        def post(self, c):
            return [('FALSE: out is still 6', c.result == 6)]

    reach = z3.Function('reach', z3.BitVecSort(64), z3.BoolSort())

    class last(Contract):
        name = 'last'

        def pre(self, c):
            t = z3.BitVec('t', 64)
            nxt = fx(c, c.old, t, 'next')
            return [('v', reach(c['p'])),
                    ('closure', z3.ForAll([t], z3.Implies(reach(t), z3.And(c.valid(t, 24), z3.Or(nxt == 0, reach(nxt)))),
                                          patterns=[reach(t)]))]

        labels = {'again': LoopSpec(invariant=lambda c, st: [('reachable', reach(c.local(st, 'p')))])}

        def post(self, c):
            return [('TRUE: a node without successor', z3.And(reach(c.result), fx(c, c.old, c.result, 'next') == 0)),
                    ('FALSE: the argument itself', c.result == c['p'])]

    class global_in_loop(Contract):
        name = 'global_in_loop'

        def pre(self, c):
            return [('n', z3.And(c['n'] >= 0, c['n'] < 1000)), ('g', c.global_value(c.old, 'counter_g', 64) == 0)]

        def frame(self, c):
            return Frame(ghost=['counter_g'])

        loops = {0: LoopSpec(invariant=lambda c, st: [('bounds', z3.And(c.local(st, 'i') >= 0, c.local(st, 'i') <= c['n'])),
                                                      ('even', c.global_value(st, 'counter_g', 64) == 2 * c.local(st, 'i'))])}

        def post(self, c):
            return [('FALSE: the global is still 0', z3.Implies(c['n'] > 0, c.result == 0)),
                    ('TRUE: twice n', c.result == 2 * c['n'])]

    bad = 0
    for K in (unknown, global_in_loop, fill, branch_write, read_after_call, last, private_local, handed_local):
        R.add(K)
    for K in (branch_write, read_after_call, last, private_local, handed_local, global_in_loop):
        ex = Exec(tu, R, K.name, R.contracts[K.name])
        obs = [o for o in ex.run() if o.kind == 'ensures']
        for ob, verdict, info in smt.discharge(obs, timeout_s=30):
            want = 'refuted' if '[FALSE' in ob.name else 'discharged'
            ok = verdict == want
            bad += not ok
            print("%-4s %s -> %s" % ('ok' if ok else 'BAD', ob.name, verdict))
    print("engine cases: %s" % ('all as expected' if not bad else '%d unexpected verdict(s)' % bad))
    return 1 if bad else 0


if __name__ == '__main__':
    sys.exit(main())
