"""Throwaway feasibility probe: clang JSON AST -> z3 for two real functions.
Handles only what these functions need.  Not framework code."""
import json, subprocess, sys, time, re
import z3

PYINC = subprocess.run(["/venv/bin/python","-c","import sysconfig;print(sysconfig.get_paths()['include']);print(sysconfig.get_config_var('CFLAGS'))"],capture_output=True,text=True).stdout.split("\n")
def load(names):
    out = {}
    for nm in names:
        cmd = ["clang","-fsyntax-only"] + PYINC[1].split() + ["-DFFI_BUILDING=1","-DUSE__THREAD","-DHAVE_SYNC_SYNCHRONIZE","-I"+PYINC[0],
               "-Xclang","-ast-dump=json","-Xclang","-ast-dump-filter="+nm,"/repo/src/c/_cffi_backend.c"]
        txt = subprocess.run(cmd,capture_output=True,text=True).stdout
        dec = json.JSONDecoder(); i=0
        while i < len(txt):
            while i < len(txt) and txt[i].isspace(): i+=1
            if i>=len(txt): break
            obj, j = dec.raw_decode(txt, i); i=j
            if obj.get('kind')=='FunctionDecl' and obj.get('name')==nm and any(c.get('kind')=='CompoundStmt' for c in obj.get('inner',[])):
                out[nm]=obj
    return out

INT = {'char':(8,True),'signed char':(8,True),'unsigned char':(8,False),'short':(16,True),'unsigned short':(16,False),
       'int':(32,True),'unsigned int':(32,False),'long':(64,True),'unsigned long':(64,False),'long long':(64,True),
       'unsigned long long':(64,False),'Py_ssize_t':(64,True),'size_t':(64,False),'_Bool':(8,False)}
def ty(n):
    t = n['type']; q = t.get('desugaredQualType', t['qualType']).replace('const ','').strip()
    if q.endswith('*') or '(*)' in q: return ('ptr',64,False,q)
    if q in INT: return ('int',)+INT[q]+(q,)
    q2 = t['qualType']
    if q2 in INT: return ('int',)+INT[q2]+(q2,)
    raise Exception("type? %r"%t)

class Ob:  # obligation
    def __init__(s,name,guard,goal): s.name,s.guard,s.goal=name,guard,goal

class Exec:
    def __init__(self, fns, fields):
        self.fns=fns; self.fields=fields; self.obs=[]; self.raw=z3.Array('raw',z3.BitVecSort(64),z3.BitVecSort(8))
        self.heap={}   # (field)->Array
    def field(self, name, width):
        if name not in self.heap: self.heap[name]=z3.Array('H_'+name, z3.BitVecSort(64), z3.BitVecSort(width))
        return self.heap[name]
    def cast(self, v, frm, to):
        if to[0]=='ptr' or frm[0]=='ptr':
            fw=frm[1]; tw=to[1]
        fw, fs = frm[1], frm[2]; tw = to[1]
        if tw==fw: return v
        if tw<fw: return z3.Extract(tw-1,0,v)
        return z3.SignExt(tw-fw,v) if fs else z3.ZeroExt(tw-fw,v)
    def load_raw(self, addr, nbytes):
        bs=[z3.Select(self.raw, addr+z3.BitVecVal(k,64)) for k in range(nbytes)]
        return z3.Concat(*reversed(bs)) if nbytes>1 else bs[0]
    def ev(self, n, env, guard):
        k=n['kind']
        if k in ('ParenExpr','ConstantExpr'): return self.ev(n['inner'][0],env,guard)
        if k=='IntegerLiteral':
            t=ty(n); return z3.BitVecVal(int(n['value']),t[1])
        if k=='CharacterLiteral':
            t=ty(n); return z3.BitVecVal(int(n['value']),t[1])
        if k=='DeclRefExpr':
            return env[n['referencedDecl']['name']]
        if k=='UnaryExprOrTypeTraitExpr':   # sizeof(type)
            q=n['argType']['qualType']; return z3.BitVecVal(INT[q][0]//8 if q in INT else 8, 64)
        if k in ('ImplicitCastExpr','CStyleCastExpr'):
            ck=n['castKind']; sub=n['inner'][0]
            if ck in ('LValueToRValue','NoOp','BitCast','FunctionToPointerDecay','ArrayToPointerDecay'):
                return self.ev(sub,env,guard)
            if ck in ('IntegralCast','IntegralToPointer','PointerToIntegral'):
                return self.cast(self.ev(sub,env,guard), ty(sub), ty(n))
            raise Exception('cast '+ck)
        if k=='MemberExpr':
            base=self.ev(n['inner'][0],env,guard); t=ty(n)
            return z3.Select(self.field(n['name'],t[1]), base)
        if k=='ArraySubscriptExpr':
            base=self.ev(n['inner'][0],env,guard); idx=self.ev(n['inner'][1],env,guard)
            it=ty(n['inner'][1]); idx64=self.cast(idx,it,('int',64,True,''))
            t=ty(n); return self.load_raw(base+idx64*(t[1]//8), t[1]//8)
        if k=='UnaryOperator':
            a=self.ev(n['inner'][0],env,guard); op=n['opcode']
            if op=='-': return -a
            if op=='~': return ~a
            if op=='!': return z3.If(a==0, z3.BitVecVal(1,32), z3.BitVecVal(0,32))
            raise Exception('unop '+op)
        if k=='BinaryOperator':
            op=n['opcode']; L,R=n['inner']
            if op=='=':
                v=self.ev(R,env,guard)
                assert L['kind']=='DeclRefExpr'; env[L['referencedDecl']['name']]=v; return v
            a=self.ev(L,env,guard); b=self.ev(R,env,guard); t=ty(n); lt=ty(L)
            sg = lt[2]
            if op in ('<<','>>'):
                w=lt[1]; rt=ty(R); b2=self.cast(b,rt,('int',w,rt[2],''))
                # UB obligation: 0 <= count < width (count evaluated in its own type)
                cnt_ok = z3.And(b >= 0, b < z3.BitVecVal(w, rt[1])) if rt[2] else z3.ULT(b, z3.BitVecVal(w, rt[1]))
                self.obs.append(Ob("L%s:shift-count-in-range"%n['range']['begin'].get('line','?'), guard, cnt_ok))
                if op=='<<': return a << b2
                return (a >> b2) if sg else z3.LShR(a,b2)
            if op=='+': return a+b
            if op=='-': return a-b
            if op=='*': return a*b
            if op=='&': return a&b
            if op=='|': return a|b
            if op=='^': return a^b
            cmpop={'==':lambda:a==b,'!=':lambda:a!=b,'<':lambda:(a<b) if sg else z3.ULT(a,b),'<=':lambda:(a<=b) if sg else z3.ULE(a,b),
                   '>':lambda:(a>b) if sg else z3.UGT(a,b),'>=':lambda:(a>=b) if sg else z3.UGE(a,b)}
            if op in cmpop: return z3.If(cmpop[op](), z3.BitVecVal(1,32), z3.BitVecVal(0,32))
            raise Exception('binop '+op)
        if k=='CallExpr':
            callee=n['inner'][0]
            while callee['kind'] in ('ImplicitCastExpr','ParenExpr'): callee=callee['inner'][0]
            name=callee['referencedDecl']['name']; args=[self.ev(a,env,guard) for a in n['inner'][1:]]
            if name in ('read_raw_signed_data','read_raw_unsigned_data'):
                # built-in contract (would be proved separately from its own body): LE load of `size` bytes, sign/zero extended
                tgt,size=args; signed = name=='read_raw_signed_data'
                res=z3.BitVecVal(0,64)
                for nb in (8,4,2,1):
                    v=self.load_raw(tgt,nb); v64=self.cast(v,('int',nb*8,signed,''),('int',64,signed,''))
                    res=z3.If(size==nb, v64, res)
                self.obs.append(Ob("call:%s:requires size in {1,2,4,8}"%name, guard, z3.Or(*[size==x for x in (1,2,4,8)])))
                return res
            if name in ('PyLong_FromLong','PyLong_FromLongLong','PyLong_FromUnsignedLongLong'):
                self.result_val = (name, args[0]); return z3.BitVec('pyobj',64)
            raise Exception('call '+name)
        raise Exception('expr kind '+k)
    def truth(self,v): return v!=0

def run_cdl4(fns):
    f=fns['cdl_4bytes']; ex=Exec(fns,{})
    src=z3.BitVec('src',64); env={'src':src}
    body=[c for c in f['inner'] if c['kind']=='CompoundStmt'][0]
    ret=None
    for st in body['inner']:
        if st['kind']=='DeclStmt':
            for d in st['inner']:
                env[d['name']]=ex.ev(d['inner'][0],env,z3.BoolVal(True))
        elif st['kind']=='ReturnStmt':
            ret=ex.ev(st['inner'][0],env,z3.BoolVal(True))
    # spec: signed big-endian 4 bytes
    b=[z3.Select(ex.raw, src+k) for k in range(4)]
    spec=z3.SignExt(32, z3.Concat(b[0],b[1],b[2],b[3]))
    return ex, [Ob("cdl_4bytes:ensures result == sbe32(src[0..4))", z3.BoolVal(True), ret==spec)]

def run_bitfield(fns):
    f=fns['convert_to_object_bitfield']; ex=Exec(fns,{})
    data=z3.BitVec('data',64); cf=z3.BitVec('cf',64); env={'data':data,'cf':cf}
    body=[c for c in f['inner'] if c['kind']=='CompoundStmt'][0]
    results=[]
    def block(stmts, env, guard):
        for st in stmts:
            k=st['kind']
            if k=='DeclStmt':
                for d in st['inner']:
                    if d.get('inner'): env[d['name']]=ex.ev(d['inner'][-1],env,guard)
                    else: env[d['name']]=z3.BitVec('uninit_'+d['name'], ty(d)[1])
            elif k=='IfStmt':
                c=ex.truth(ex.ev(st['inner'][0],env,guard))
                e1=dict(env); block(st['inner'][1]['inner'] if st['inner'][1]['kind']=='CompoundStmt' else [st['inner'][1]], e1, z3.And(guard,c))
                if len(st['inner'])>2:
                    e2=dict(env); block(st['inner'][2]['inner'] if st['inner'][2]['kind']=='CompoundStmt' else [st['inner'][2]], e2, z3.And(guard,z3.Not(c)))
            elif k=='ReturnStmt':
                ex.ev(st['inner'][0],env,guard); results.append((guard, ex.result_val))
            else:
                ex.ev(st,env,guard)
    block(body['inner'], env, z3.BoolVal(True))
    # contract
    ct=z3.Select(ex.field('cf_type',64), cf); size=z3.Select(ex.field('ct_size',64), ct); flags=z3.Select(ex.field('ct_flags',32), ct)
    bs=z3.Select(ex.field('cf_bitsize',16), cf); sh=z3.Select(ex.field('cf_bitshift',16), cf)
    bs64=z3.SignExt(48,bs); sh64=z3.SignExt(48,sh)
    pre=z3.And(z3.Or(*[size==x for x in (1,2,4,8)]), bs64>=1, sh64>=0, sh64+bs64<=8*size,
               z3.Or(flags & 1 != 0, flags & 2 != 0), z3.Not(z3.And(flags&1!=0, flags&2!=0)))
    unit = ex.load_raw(data,8)   # little endian 8 bytes; only low `size` bytes matter
    unitm = z3.If(size==8, unit, unit & ((z3.BitVecVal(1,64) << (8*size)) - 1))
    ones=z3.BitVecVal(2**64-1,64)
    mask = z3.LShR(ones, z3.BitVecVal(64,64)-bs64)      # well-defined for 1..64
    rawf = z3.LShR(unitm, sh64) & mask
    sext = z3.If(z3.Extract(0,0,z3.LShR(rawf, bs64-1))==1, rawf | ~mask, rawf)
    obs=[]
    for g,(ctor,val) in results:
        signed = (flags & 1) != 0
        spec = z3.If(signed, sext, rawf)
        obs.append(Ob("convert_to_object_bitfield:ensures value == spec_read (%s)"%ctor, g, val==spec if val.size()==64 else z3.SignExt(0,val)==spec))
    return ex, obs, pre

def discharge(title, obs, pre=z3.BoolVal(True)):
    for o in obs:
        s=z3.Solver(); s.set('timeout',60000); s.add(pre, o.guard, z3.Not(o.goal))
        t=time.time(); r=s.check(); dt=time.time()-t
        line="%-28s %-70s %s %.2fs"%(title,o.name,{'unsat':'DISCHARGED','sat':'REFUTED','unknown':'UNDECIDED'}[str(r)],dt)
        if r==z3.sat:
            m=s.model(); line+="   model: "+", ".join("%s=%s"%(d.name(),m[d]) for d in m.decls() if d.name() in ('src','data','cf'))
            interesting=[(str(d),m[d]) for d in m.decls() if d.name().startswith('H_')]
            line+=" "+str(interesting)[:300]
        print(line)

t0=time.time(); fns=load(['cdl_4bytes','convert_to_object_bitfield']); print("AST load %.1fs"%(time.time()-t0))
ex,obs=run_cdl4(fns); discharge('cdl_4bytes', ex.obs+obs)
ex,obs,pre=run_bitfield(fns); discharge('convert_to_object_bitfield', ex.obs+obs, pre)
