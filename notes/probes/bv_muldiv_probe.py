import z3, time
def probe(W, to=120000):
    off, isz, n = z3.BitVecs('off isz n', W)
    size = off + isz*n
    ok = z3.And(size >= 0, ((size - off) / isz) == n)
    pre = z3.And(off >= 0, isz > 0, n >= 0)
    X = lambda x: z3.SignExt(W, x)
    goal = z3.Implies(z3.And(pre, ok), X(size) == X(off) + X(isz)*X(n))
    s = z3.SolverFor('QF_BV'); s.set('timeout', to); s.add(z3.Not(goal))
    t=time.time(); r = s.check(); return r, round(time.time()-t,2)
for W in ():
    print('A', W, probe(W), flush=True)
print('A', 48, probe(48, 300000), flush=True)
print('A', 64, probe(64, 600000), flush=True)
