import cffi, sys, traceback
def t(label, f):
    try:
        print(label, '->', f())
    except BaseException as e:
        print(label, 'EXC', type(e).__name__, str(e)[:100])
ffi = cffi.FFI()
ffi.cdef("struct s { long long x:64; unsigned long long u:64; int a:1; unsigned b:32; int c:32;};")
p = ffi.new("struct s *")
def w(field, v):
    setattr(p, field, v); return getattr(p, field)
t("x:64 = 5", lambda: w('x', 5))
t("u:64 = 5", lambda: w('u', 5))
t("c:32 = -7", lambda: w('c', -7))
t("b:32 = 2**32-1", lambda: w('b', 2**32-1))
t("a:1 = 1", lambda: w('a', 1))
# wide char terminator
ffi2 = cffi.FFI(); ffi2.cdef("struct w { wchar_t a[8]; char16_t b[8]; char c[8]; };")
q = ffi2.new("struct w *")
q.a = 'wxyz'; q.a = 'ab'; t("wchar a", lambda: ffi2.string(q.a))
q.b = 'wxyz'; q.b = 'ab'; t("char16 b", lambda: ffi2.string(q.b))
q.c = b'wxyz'; q.c = b'ab'; t("char c", lambda: ffi2.string(q.c))
# lone surrogates
t("lone pair c16", lambda: ffi2.string(ffi2.new("char16_t[]", '𐀀')) == '𐀀')
t("lone pair c32", lambda: ffi2.string(ffi2.new("char32_t[]", '𐀀')) == '𐀀')
# constants
def arrlen(expr):
    f = cffi.FFI(); f.cdef("typedef int T[%s];" % expr); return f.sizeof("T")//4
t(r"['\n']", lambda: arrlen(r"'\n'"))
t(r"['\0'+1]", lambda: arrlen(r"'\0'+1"))
t("[5/0]", lambda: arrlen("5/0"))
t("[1<<-1]", lambda: arrlen("1<<-1"))
t("[7%0+1]", lambda: arrlen("7%0+1"))
def defv(s):
    f = cffi.FFI(); f.cdef("#define FOO %s" % s); return f.dlopen(None).FOO
t("#define 08", lambda: defv("08"))
t("#define abc", lambda: defv("abc"))
t("#define -0x80000000", lambda: defv("-0x80000000"))
def enumv(s):
    f = cffi.FFI(); f.cdef("enum e { A = %s };" % s); return f.dlopen(None).A, f.sizeof("enum e")
t("enum 0u-1", lambda: enumv("0u - 1"))
t("enum 5u / -1", lambda: enumv("5u / -1"))
t("enum -0x80000000", lambda: enumv("-0x80000000"))
t("enum -7/2", lambda: enumv("-7/2"))
t("enum -7%3", lambda: enumv("-7%3"))
