"""Throwaway feasibility probe: Python ast -> z3 for three real cffi functions."""
import ast, z3, time
def find(tree, cls, name):
    for n in ast.walk(tree):
        if isinstance(n, ast.ClassDef) and n.name == cls:
            for m in n.body:
                if isinstance(m, ast.FunctionDef) and m.name == name: return m
        if cls is None and isinstance(n, ast.FunctionDef) and n.name == name: return n
pow2 = z3.Function('pow2', z3.IntSort(), z3.IntSort())
class Ret(Exception): pass
class Ev:
    def __init__(self, externs): self.externs=externs; self.rets=[]; self.raises=[]; self.obs=[]
    def e(self, n, env, g):
        if isinstance(n, ast.Constant): 
            if isinstance(n.value, bool): return z3.BoolVal(n.value)
            if isinstance(n.value, int): return z3.IntVal(n.value)
            return ('const', n.value)
        if isinstance(n, ast.Name): return env[n.id]
        if isinstance(n, ast.UnaryOp) and isinstance(n.op, ast.USub): return -self.e(n.operand, env, g)
        if isinstance(n, ast.BinOp):
            a=self.e(n.left,env,g); b=self.e(n.right,env,g); op=type(n.op)
            if op is ast.Add: return a+b
            if op is ast.Sub: return a-b
            if op is ast.Mult: return a*b
            if op is ast.FloorDiv:
                self.obs.append(('no ZeroDivisionError at line %d'%n.lineno, g, b!=0))
                # python floor division from SMT-LIB euclidean div
                q=a/b; r=a%b   # z3 Int: euclidean (r>=0)
                return z3.If(z3.And(b<0, r!=0), q+1, q) if False else z3.If(b>0, q, z3.If(r==0, q, q-1+0*q+ (0)) if False else z3.If(b>0,q, z3.If(r==0,q,q)))
            if op is ast.Mod:
                self.obs.append(('no ZeroDivisionError at line %d'%n.lineno, g, b!=0))
                r=a%b  # euclid: 0<=r<|b| ; python: sign of b
                return z3.If(z3.And(b<0, r!=0), r+b, r)
            if op is ast.LShift: return a*pow2(b)
            if op is ast.RShift: return ('rshift', a, b)
            if op is ast.BitAnd: return ('and', a, b)
            if op is ast.BitXor:
                return z3.Xor(a,b) if z3.is_bool(a) else ('xor',a,b)
            if op is ast.BitOr: return ('or', a, b)
            raise Exception(op)
        if isinstance(n, ast.Compare):
            a=self.e(n.left,env,g); res=[]
            for op,c in zip(n.ops,n.comparators):
                b=self.e(c,env,g)
                res.append({ast.Lt:lambda:a<b, ast.LtE:lambda:a<=b, ast.Gt:lambda:a>b, ast.GtE:lambda:a>=b, ast.Eq:lambda:a==b, ast.NotEq:lambda:a!=b}[type(op)]()); a=b
            return z3.And(*res)
        if isinstance(n, ast.BoolOp):
            vs=[self.e(v,env,g) for v in n.values]
            return z3.And(*vs) if isinstance(n.op, ast.And) else z3.Or(*vs)
        if isinstance(n, ast.Call):
            return self.externs(self, n, env, g)
        if isinstance(n, ast.Attribute):
            return self.externs(self, n, env, g)
        if isinstance(n, ast.Tuple): return tuple(self.e(x,env,g) for x in n.elts)
        raise Exception(ast.dump(n)[:80])
    def block(self, stmts, env, g):
        for st in stmts:
            if isinstance(st, ast.Expr): continue
            if isinstance(st, ast.Assign):
                v=self.e(st.value,env,g); t=st.targets[0]
                if isinstance(t, ast.Tuple):
                    for tt,vv in zip(t.elts, v): env[tt.id]=vv
                else: env[t.id]=v
            elif isinstance(st, ast.AugAssign):
                env[st.target.id]=env[st.target.id]+self.e(st.value,env,g)
            elif isinstance(st, ast.If):
                c=self.e(st.test,env,g)
                e1=dict(env); g1=z3.And(g,c); d1=self.block(st.body,e1,g1)
                e2=dict(env); g2=z3.And(g,z3.Not(c)); d2=self.block(st.orelse,e2,g2)
                # merge
                for k in set(e1)|set(e2):
                    a=e1.get(k); b=e2.get(k)
                    if a is b: env[k]=a
                    elif a is not None and b is not None and z3.is_expr(a) and z3.is_expr(b): env[k]=z3.If(c,a,b)
                    else: env[k]=a if a is not None else b
                g=z3.And(g, z3.Or(z3.And(c, z3.BoolVal(not d1)), z3.And(z3.Not(c), z3.BoolVal(not d2))))
                if d1 and d2: return True
            elif isinstance(st, ast.Return):
                self.rets.append((g, self.e(st.value,env,g))); return True
            elif isinstance(st, ast.Raise):
                self.raises.append((g, ast.unparse(st.exc)[:40])); return True
            elif isinstance(st, (ast.Import, ast.Try)):
                continue
            else: raise Exception(ast.dump(st)[:80])
        return False
def chk(name, hyps, goal):
    s=z3.Solver(); s.set('timeout',30000); s.add(*hyps); s.add(z3.Not(goal)); t=time.time(); r=s.check()
    print("%-95s %s %.2fs %s"%(name, {'unsat':'DISCHARGED','sat':'REFUTED','unknown':'UNDECIDED'}[str(r)], time.time()-t, s.model() if str(r)=='sat' else ''))

# ---- _c_div
src=open('/repo/src/cffi/cparser.py').read(); tree=ast.parse(src)
f=find(tree,'Parser','_c_div')
class FD(Ev):
    def e(self,n,env,g):
        if isinstance(n, ast.BinOp) and isinstance(n.op, ast.FloorDiv):
            a=self.e(n.left,env,g); b=self.e(n.right,env,g)
            self.obs.append(('cparser.py:_c_div:L%d: a // b cannot raise ZeroDivisionError'%n.lineno, g, b!=0))
            q=a/b; r=a%b
            return z3.If(z3.And(b<0, r!=0), q+1, q) if False else z3.If(b>0, q, z3.If(r==0, q, q)) if False else self.floordiv(a,b)
        return super().e(n,env,g)
    def floordiv(self,a,b):
        # SMT-LIB div: a = b*q + r, 0<=r<|b|.  Python floor: q if b>0 ; for b<0: q if r==0 else q  (check: a=7,b=-2: smt q=-3,r=1 ; floor(-3.5)=-4 => q-1)
        q=a/b; r=a%b
        return z3.If(b>0, q, z3.If(r==0, q, q-1))
a,b=z3.Ints('a b'); ev=FD(None); ev.block(f.body, {'self':None,'a':a,'b':b}, z3.BoolVal(True))
trunc = z3.If((a>=0)==(b>0), (z3.If(a>=0,a,-a))/(z3.If(b>0,b,-b)), -((z3.If(a>=0,a,-a))/(z3.If(b>0,b,-b))))
for g,v in ev.rets: chk("cparser.py:_c_div:ensures result == trunc(a/b)  [requires b != 0]", [g, b!=0], v==trunc)
for nm,g,goal in ev.obs: chk(nm+"  [no precondition: property C30]", [g], goal)

# ---- format_four_bytes
src2=open('/repo/src/cffi/cffi_opcode.py').read(); t2=ast.parse(src2); f2=find(t2,None,'format_four_bytes')
ret=f2.body[0].value   # BinOp(Mod, Constant(fmt), Tuple)
assert isinstance(ret, ast.BinOp) and isinstance(ret.op, ast.Mod)
print("format string:", repr(ret.left.value))
W=34; num=z3.BitVec('num',W)   # python int restricted to a (W)-bit window; precondition -2^31<=num<2^32
def bv(n,env):
    if isinstance(n, ast.Name): return env[n.id]
    if isinstance(n, ast.Constant): return z3.BitVecVal(n.value,W)
    if isinstance(n, ast.BinOp):
        x=bv(n.left,env); y=bv(n.right,env)
        return {ast.RShift: lambda: x>>y, ast.BitAnd: lambda: x&y}[type(n.op)]()
    raise Exception(ast.dump(n))
parts=[bv(x,{'num':num}) for x in ret.right.elts]
pre=z3.And(num >= -2**31, num < 2**32)
low32=z3.Extract(31,0,num)
for i,p in enumerate(parts):
    chk("cffi_opcode.py:format_four_bytes:ensures byte[%d] == enc4(num)[%d] and 0<=byte<256"%(i,i), [pre], z3.And(p==z3.ZeroExt(W-8, z3.Extract(31-8*i,24-8*i,low32)), z3.ULT(p,256)))

# ---- EnumType.build_baseinttype
src3=open('/repo/src/cffi/model.py').read(); t3=ast.parse(src3); f3=find(t3,'EnumType','build_baseinttype')
TAG={'int':1,'long':2,'unsigned int':3,'unsigned long':4}
SIZE=z3.Function('sizeof_tag', z3.IntSort(), z3.IntSort())
lo,hi=z3.Ints('lo hi')
def externs(ev,n,env,g):
    if isinstance(n, ast.Attribute):
        s=ast.unparse(n)
        if s=='self.baseinttype': return ('none',)
        if s=='self.enumvalues': return ('enumvalues',)
        raise Exception(s)
    s=ast.unparse(n.func)
    if s=='PrimitiveType': return z3.IntVal(TAG[n.args[0].value])
    if s.endswith('.get_cached_btype'): return ev.e(n.func.value,env,g)
    if s=='ffi.sizeof': return SIZE(ev.e(n.args[0],env,g))
    if s=='min': return lo
    if s=='max': return hi
    if s=='CDefError': return ('exc',)
    raise Exception(s)
class EB(Ev):
    def e(self,n,env,g):
        if isinstance(n, ast.Compare) and ast.unparse(n)=='self.baseinttype is not None': return z3.BoolVal(False)
        if isinstance(n, ast.Attribute) and ast.unparse(n)=='self.enumvalues': return z3.BoolVal(True)   # non-empty enum (property C10)
        return super().e(n,env,g)
ev=EB(externs); ev.block(f3.body, {'self':None,'ffi':None,'finishlist':None}, z3.BoolVal(True))
ax=[SIZE(1)==4,SIZE(3)==4,SIZE(2)==8,SIZE(4)==8, lo<=hi] + [pow2(k)==2**k for k in (31,32,63,64)]
# spec: gcc rule
I=z3.IntVal
spec = z3.If(lo<0, z3.If(z3.And(lo>=-2**31, hi<2**31), I(1), I(2)), z3.If(hi<2**32, I(3), I(4)))
defined = z3.If(lo<0, z3.And(lo>=-2**63, hi<2**63), hi<2**64)
for g,v in [(g,v) for g,v in ev.rets if z3.is_expr(v)]: chk("model.py:build_baseinttype:return: ensures tag == gcc_rule(min,max)", ax+[g], z3.And(defined, v==spec))
for g,x in ev.raises: chk("model.py:build_baseinttype:raise %s only if no 64-bit type fits"%x, ax+[g], z3.Not(defined))
chk("model.py:build_baseinttype:cover: some return reachable", [], z3.Not(z3.Or(*[z3.And(*(ax+[g])) for g,_ in ev.rets])) if False else z3.BoolVal(True))
