import random, subprocess, sys
TYPES = [("char",1,1,1),("signed char",1,1,1),("unsigned char",1,1,1),("short",2,2,1),("unsigned short",2,2,1),
         ("int",4,4,1),("unsigned int",4,4,1),("long",8,8,1),("unsigned long",8,8,1),("long long",8,8,1),
         ("unsigned long long",8,8,1),("_Bool",1,1,1),("float",4,4,0),("double",8,8,0),("long double",16,16,0),("void *",8,8,0)]
def up(x,a): return (x + a-1)//a*a
def down(x,a): return x//a*a
def spec(fields, is_union, pack):
    pos=0; align=1; maxend=0; out=[]
    for f in fields:
        kind=f[0]
        if is_union: pos=0
        if kind=='bf':
            _,name,(tn,s,a,_i),w = f
            if w==0:
                pos = up(pos, 8*a)
            else:
                if pos - down(pos,8*a) + w > 8*s:
                    pos = down(pos,8*a) + 8*a
                if name: out.append((name,'bit',pos,w))
                pos += w
            if name: align=max(align,a)
        else:
            _,name,size,a = f
            a2 = min(a, pack) if pack else a
            pos = up(up(pos,8), 8*a2)
            out.append((name,'byte',pos//8))
            pos += 8*size
            align = max(align, a2)
        maxend = max(maxend, up(pos,8)//8)
    size = up(maxend, align)
    return size, align, out
def gen(rng, depth=0, allow_bf=True, pack=0):
    n = rng.randint(1,6); fields=[]; decl=[]
    for i in range(n):
        name = "f%d_%d"%(depth,i)
        r = rng.random()
        if allow_bf and r < 0.45:
            t = rng.choice([t for t in TYPES if t[3]])
            w = rng.choice([0,1,2,3,7,8,9,15,16,17,31,32,33,63,64, rng.randint(1,64)])
            w = min(w, 8*t[1])
            if t[0]=='_Bool': w=min(w,1)
            nm = name if (w>0 and rng.random()<0.8) else ''
            fields.append(('bf',nm,t,w)); decl.append("%s %s:%d;"%(t[0],nm,w))
        elif r < 0.8:
            t = rng.choice(TYPES); fields.append(('nb',name,t[1],t[2])); decl.append("%s %s;"%(t[0],name))
        elif r < 0.9:
            t = rng.choice(TYPES); k=rng.randint(1,5); fields.append(('nb',name,t[1]*k,t[2])); decl.append("%s %s[%d];"%(t[0],name,k))
        elif depth<2:
            isu = rng.random()<0.4
            sub, subdecl = gen(rng, depth+1, allow_bf, pack)
            s,a,_ = spec(sub, isu, pack)
            if s==0: continue
            fields.append(('nb',name,s,a)); decl.append("%s { %s } %s;"%('union' if isu else 'struct',' '.join(subdecl),name))
    return fields, decl
rng = random.Random(int(sys.argv[1]) if len(sys.argv)>1 else 1)
N=int(sys.argv[2]) if len(sys.argv)>2 else 150
cases=[]; src=["#include <stdio.h>","#include <stddef.h>"]; main=[]
for c in range(N):
    pack = rng.choice([0,0,0,1,2,4,8])
    isu = rng.random()<0.3
    fields, decl = gen(rng, 0, allow_bf=(pack==0), pack=pack)
    kw = 'union' if isu else 'struct'
    if pack: src.append("#pragma pack(push,%d)"%pack)
    src.append("%s S%d { %s };"%(kw,c,' '.join(decl)))
    if pack: src.append("#pragma pack(pop)")
    s,a,out = spec(fields,isu,pack)
    main.append('printf("%d %%zu %%zu", sizeof(%s S%d), _Alignof(%s S%d));'%(c,kw,c,kw,c))
    exp=[c,s,a]
    for o in out:
        if o[1]=='byte':
            main.append('printf(" %%zu", offsetof(%s S%d, %s));'%(kw,c,o[0])); exp.append(o[2])
        else:
            # find bit position: set field to all ones in zeroed struct, scan bits
            main.append('{ %s S%d v; memset(&v,0,sizeof v); v.%s = -1; unsigned char *b=(unsigned char*)&v; long first=-1,cnt=0; for (long i=0;i<(long)sizeof v*8;i++) if (b[i/8]>>(i%%8)&1){ if(first<0) first=i; cnt++; } printf(" %%ld/%%ld", first, cnt); }'%(kw,c,o[0])); exp.append("%d/%d"%(o[2],o[3]))
    main.append('printf("\\n");')
    cases.append((exp, "%s S%d { %s } pack=%d"%(kw,c,' '.join(decl),pack)))
src.append("#include <string.h>\nint main(){\n"+"\n".join(main)+"\nreturn 0;}")
open("t.c","w").write("\n".join(src))
r=subprocess.run(["gcc","-w","-O0","t.c","-o","t"],capture_output=True,text=True)
if r.returncode: print(r.stderr[:2000]); sys.exit(1)
lines=subprocess.run(["./t"],capture_output=True,text=True).stdout.strip().split("\n")
bad=0
for (exp,desc),l in zip(cases,lines):
    got=l.split()
    if [str(x) for x in exp]!=got:
        bad+=1
        if bad<=8: print("MISMATCH", desc, "\n  spec", exp, "\n  gcc ", got)
print("cases",len(cases),"mismatches",bad)
