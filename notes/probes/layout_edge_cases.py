import cffi, subprocess, os
cases = {
 "e0": "struct e0 { };",
 "e1": "struct e1 { int :0; };",
 "e2": "struct e2 { int a[]; };",
 "e3": "struct e3 { char c; int :0; char d; };",
 "e4": "struct e4 { char c; long long :0; char d; short x:9; short y:9; };",
 "e5": "union e5 { char c; int b:3; long long :0; };",
 "e6": "struct e6 { char a; _Bool b:1; unsigned char c:7; int d:17; long long e:40; };",
 "e7": "struct e7 { int a:3; int :0; };",
 "e8": "struct e8 { char a; int :3; };",
 "e9": "struct e9 { char a[3]; short :5; char b; };",
 "e10": "struct e10 { int x; struct { char p; short q; }; char y; double z[]; };",
 "e11": "struct e11 { char a; unsigned long long b:64; char c; long long d:63; long long e:1; };",
}
for k, decl in cases.items():
    c = "#include <stdio.h>\n#include <stddef.h>\n%s\nint main(){printf(\"%%zu %%zu\\n\", sizeof(struct_or_union %s), _Alignof(struct_or_union %s));}" % (decl, k, k)
    kind = decl.split()[0]
    c = c.replace("struct_or_union", kind)
    open("t.c","w").write(c)
    r = subprocess.run(["gcc","-w","t.c","-o","t"],capture_output=True,text=True)
    g = subprocess.run(["./t"],capture_output=True,text=True).stdout.strip() if r.returncode==0 else "GCCERR"
    try:
        f = cffi.FFI(); f.cdef(decl); me = "%d %d" % (f.sizeof("%s %s"%(kind,k)), f.alignof("%s %s"%(kind,k)))
    except Exception as e:
        me = "EXC %s %s" % (type(e).__name__, str(e)[:60])
    print(k, "gcc:", g, "cffi:", me, "" if g==me else "   <<<<<< MISMATCH")
