import z3, time
S = z3.DeclareSort('Str')
lt = z3.Function('lt', S, S, z3.BoolSort())
T = z3.Function('T', z3.IntSort(), S)
key = z3.Const('key', S)
n, left, right, mid, i, j = z3.Ints('n left right mid i j')
a,b,c = z3.Consts('a b c', S)
ax = [z3.ForAll([a,b,c], z3.Implies(z3.And(lt(a,b), lt(b,c)), lt(a,c))),
      z3.ForAll([a], z3.Not(lt(a,a))),
      z3.ForAll([a,b], z3.Or(lt(a,b), a==b, lt(b,a))),
      z3.ForAll([i,j], z3.Implies(z3.And(0<=i, i<j, j<n), lt(T(i),T(j))))]
inv = lambda l,r: z3.And(0<=l, l<=r, r<=n,
      z3.ForAll([i], z3.Implies(z3.And(0<=i, i<l), lt(T(i), key))),
      z3.ForAll([i], z3.Implies(z3.And(r<=i, i<n), lt(key, T(i)))))
# cmp outcome: 3 cases at mid
pre = z3.And(inv(left,right), left<right, mid == (left+right)/2)
def chk(name, hyp, goal):
    s = z3.Solver(); s.set('timeout', 30000); s.add(ax); s.add(hyp); s.add(z3.Not(goal))
    t=time.time(); print(name, s.check(), round(time.time()-t,2))
chk('less->left=mid+1', z3.And(pre, lt(T(mid), key)), inv(mid+1, right))
chk('greater->right=mid', z3.And(pre, lt(key, T(mid))), inv(left, mid))
chk('equal->found', z3.And(pre, T(mid)==key), z3.And(0<=mid, mid<n, T(mid)==key))
chk('exit->notfound', z3.And(inv(left,right), left>=right), z3.ForAll([i], z3.Implies(z3.And(0<=i,i<n), T(i)!=key)))
chk('uniq', z3.And(pre, T(mid)==key, 0<=j, j<n, T(j)==key), j==mid)
