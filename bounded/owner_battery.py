"""C21 replay battery: random operation histories over ffi.gc wrappers, new_allocator allocations, from_buffer views
and handles, with garbage collections in between, against a reference model of the counts (bounded: sampled)."""
import gc
import random
import sys
import weakref

import cffi

ffi = cffi.FFI()
ffi.cdef("struct s21 { int a; long b; };")
rnd = random.Random(21)
bad = []


class Tracker(object):
    def __init__(self):
        self.calls = {}

    def destructor(self, key):
        def d(obj, key=key):
            self.calls[key] = self.calls.get(key, 0) + 1
        return d


def history_gc(seed):
    """ffi.gc wrappers: destructor exactly once unless removed; release idempotent; nothing after gc(p, None)"""
    r = random.Random(seed)
    tr = Tracker()
    base = ffi.new("int[4]")
    wrappers = {}          # key -> [wrapper or None, armed, removed]
    expected = {}
    n = 0
    for step in range(60):
        op = r.choice(['new', 'new', 'release', 'release', 'remove', 'drop', 'collect', 'with', 'alias'])
        live = [k for k, w in wrappers.items() if w[0] is not None]
        if op == 'new' or not live:
            k = n
            n += 1
            wrappers[k] = [ffi.gc(base, tr.destructor(k)), True, False]
            expected[k] = 0
            continue
        k = r.choice(live)
        w = wrappers[k]
        if op == 'release':
            ffi.release(w[0])
            if w[1]:
                expected[k] += 1
                w[1] = False
        elif op == 'with':
            with w[0]:
                pass
            if w[1]:
                expected[k] += 1
                w[1] = False
        elif op == 'remove':
            ffi.gc(w[0], None)
            w[1] = False
            w[2] = True
        elif op == 'alias':
            other = ffi.cast("int *", w[0])      # a plain alias does not own anything
            del other
        elif op == 'drop':
            w[0] = None
            gc.collect()
            if w[1]:
                expected[k] += 1
                w[1] = False
        else:
            gc.collect()
        for kk in expected:
            if tr.calls.get(kk, 0) != expected[kk]:
                bad.append("gc history seed %d step %d (%s): wrapper #%d destructor ran %d times, expected %d"
                           % (seed, step, op, kk, tr.calls.get(kk, 0), expected[kk]))
                return
    for kk, w in wrappers.items():
        w[0] = None
    wrappers.clear()
    gc.collect()
    for kk in expected:
        pass
    return


def final_counts(seed):
    """every wrapper dropped at the end: exactly one call each unless removed before any release"""
    r = random.Random(seed)
    calls = {}
    base = ffi.new("char[8]")
    ws = []
    for k in range(30):
        def d(obj, k=k):
            calls[k] = calls.get(k, 0) + 1
        ws.append(ffi.gc(base, d))
    removed, released = set(), set()
    for k in range(30):
        for _ in range(r.randrange(4)):
            op = r.choice(['release', 'remove', 'enter'])
            if op == 'release':
                ffi.release(ws[k])
                if k not in removed:
                    released.add(k)
            elif op == 'remove':
                ffi.gc(ws[k], None)
                if k not in released:
                    removed.add(k)
            else:
                with ws[k]:
                    pass
                if k not in removed:
                    released.add(k)
    # a reference cycle through the destructor's closure
    cyc = []
    cw = ffi.gc(base, lambda obj, cyc=cyc: calls.__setitem__('cyc', calls.get('cyc', 0) + 1))
    cyc.append(cw)
    del cw, cyc
    del ws
    gc.collect()
    gc.collect()
    for k in range(30):
        want = 0 if k in removed else 1
        if calls.get(k, 0) != want:
            bad.append("final counts seed %d: wrapper #%d destructor ran %d times, expected %d" % (seed, k, calls.get(k, 0), want))
    if calls.get('cyc', 0) != 1:
        bad.append("final counts seed %d: wrapper in a reference cycle: destructor ran %d times" % (seed, calls.get('cyc', 0)))


def allocators(seed):
    r = random.Random(seed)
    freed = {}
    alive = {}

    def alloc(size):
        p = ffi.new("char[]", size + 8)
        alive[int(ffi.cast("intptr_t", p))] = p
        return p

    def free(p):
        a = int(ffi.cast("intptr_t", p))
        freed[a] = freed.get(a, 0) + 1

    new = ffi.new_allocator(alloc, free)
    objs = []
    for k in range(40):
        kind = r.choice(["int *", "struct s21 *", "int[5]", "char[]"])
        o = new(kind, 3) if kind == "char[]" else new(kind)
        objs.append(o)
    addrs = set(alive)
    for k, o in enumerate(objs):
        c = r.randrange(4)
        if c == 0:
            ffi.release(o)
            ffi.release(o)
        elif c == 1:
            with o:
                pass
        elif c == 2 and ffi.typeof(o).kind == 'pointer' and ffi.typeof(o).item.kind == 'struct':
            objs[k] = o[0]              # p[0] keeps the memory alive
    del o
    objs = None
    gc.collect()
    for a in addrs:
        if freed.get(a, 0) != 1:
            bad.append("allocator seed %d: free() ran %d times for one allocation" % (seed, freed.get(a, 0)))
            break


def from_buffer():
    ba = bytearray(b"0123456789")
    c = ffi.from_buffer(ba)
    try:
        ba.extend(b"x" * 100000)
        bad.append("from_buffer: the source bytearray could be resized while exported")
    except BufferError:
        pass
    c2 = ffi.from_buffer("char[]", ba)
    ffi.release(c)
    ffi.release(c)                      # idempotent
    try:
        ba.append(1)
        bad.append("from_buffer: a second live view did not keep the source locked")
    except BufferError:
        pass
    del c2
    gc.collect()
    try:
        ba.append(1)
    except BufferError:
        bad.append("from_buffer: the source stays locked after every view is released/collected")
    # keeps its source alive

    class B(bytearray):
        pass
    src = B(b"abcdef")
    wr = weakref.ref(src)
    c = ffi.from_buffer(src)
    del src
    gc.collect()
    if wr() is None or bytes(ffi.buffer(c)) != b"abcdef":
        bad.append("from_buffer: the source was collected while the cdata is alive")
    del c
    gc.collect()
    if wr() is not None:
        bad.append("from_buffer: the source is still alive after the cdata is gone")


def owned_struct():
    p = ffi.new("struct s21 *", [5, 7])
    s = p[0]
    del p
    gc.collect()
    junk = [ffi.new("struct s21 *") for _ in range(200)]
    if (s.a, s.b) != (5, 7):
        bad.append("ffi.new('struct *'): memory not valid while p[0] is alive")
    del junk


def handles(seed):
    r = random.Random(seed)
    objs = [object() for _ in range(300)]
    hs = [ffi.new_handle(o) for o in objs]
    addrs = {}
    for k, h in enumerate(hs):
        a = int(ffi.cast("intptr_t", h))
        if a in addrs:
            bad.append("handles: live handles #%d and #%d share an address" % (addrs[a], k))
        addrs[a] = k
    for k in r.sample(range(300), 300):
        h2 = ffi.cast("void *", ffi.cast("intptr_t", hs[k]))
        if ffi.from_handle(h2) is not objs[k] or ffi.from_handle(ffi.cast("char *", hs[k])) is not objs[k]:
            bad.append("handles: from_handle(new_handle(x)) is not x (#%d)" % k)
            break
    # drop half, create more: still distinct and bound
    for k in range(0, 300, 2):
        hs[k] = None
    gc.collect()
    more = [(ffi.new_handle(o), o) for o in (object() for _ in range(300))]
    seen = {int(ffi.cast("intptr_t", h)) for h in hs if h is not None}
    for h, o in more:
        a = int(ffi.cast("intptr_t", h))
        if a in seen:
            bad.append("handles: a new handle shares the address of a live one")
            break
        seen.add(a)
        if ffi.from_handle(h) is not o:
            bad.append("handles: from_handle on a new handle gives another object")
            break


def reentrant_release():
    """a destructor that releases its own wrapper again (an idempotent close()): still exactly one call"""
    base = ffi.new("int[2]")
    for how in ("release", "with", "drop"):
        calls = []
        box = {}

        def destructor(obj):
            calls.append(1)
            if len(calls) < 5 and box.get('q') is not None:
                ffi.release(box['q'])
        q = ffi.gc(base, destructor)
        box['q'] = q
        keep = (destructor, base)
        if how == "release":
            ffi.release(q)
        elif how == "with":
            with q:
                pass
        else:
            box['q'] = None
            del q
            gc.collect()
        if len(calls) != 1:
            bad.append("re-entrant release (%s): the destructor ran %d times" % (how, len(calls)))
        box.clear()
        del keep


reentrant_release()
for seed in range(40):
    history_gc(seed)
    final_counts(seed)
    if bad:
        break
for seed in range(10):
    allocators(seed)
from_buffer()
owned_struct()
handles(1)
if bad:
    print("FAIL %d: %s" % (len(bad), " ;; ".join(bad[:3])))
    sys.exit(1)
print("ok")
