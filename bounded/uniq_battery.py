"""C27 replay battery: non-aggregate ctypes are canonical across FFI objects, spellings, generated type strings and
garbage collections; a type rebuilt after its ctype was freed is unique again."""
import gc
import random
import sys
import weakref

import cffi

bad = []
rnd = random.Random(27)
BASE = ["int", "unsigned long", "char", "double", "short", "void", "long double", "_Bool", "float _Complex", "size_t"]


def spellings(t, depth):
    out = [t]
    if depth:
        out.append(t + " *")
        if t != "void":
            out.append("%s[%d]" % (t, rnd.randrange(1, 6)))
            out.append(t + "[]")
    return out


def build(ffi, s):
    return ffi.typeof(s)


for trial in range(60):
    ffis = [cffi.FFI() for _ in range(3)]
    t = rnd.choice(BASE)
    for d in range(rnd.randrange(1, 4)):
        t = rnd.choice(spellings(t, 1)) if "[" not in t else t
    variants = [t, "  " + t.replace(" *", "*") + " ", t.replace("unsigned long", "long unsigned int").replace("size_t", "size_t")]
    objs = []
    for f in ffis:
        for v in variants:
            try:
                objs.append(build(f, v))
            except Exception as e:
                bad.append("typeof(%r) raised %s" % (v, e))
    if any(o is not objs[0] for o in objs):
        bad.append("%r: %d different objects for the same C type across FFI objects/spellings" % (t, len(set(map(id, objs)))))
    # same pointee / item type and length -> same object; different length -> different object
    if "[" not in t and t != "void":
        a1, a2, a3 = ffis[0].typeof(t + "[4]"), ffis[1].typeof(t + "[4]"), ffis[2].typeof(t + "[5]")
        if a1 is not a2 or a1 is a3:
            bad.append("%r arrays: [4] is [4]: %r, [4] is [5]: %r" % (t, a1 is a2, a1 is a3))
    # function types: same result, arguments, ellipsis
    f1 = ffis[0].typeof("int(*)(%s *, int)" % ("char" if t == "void" else t.split("[")[0]))
    f2 = ffis[1].typeof("int(*)(%s *, int)" % ("char" if t == "void" else t.split("[")[0]))
    f3 = ffis[2].typeof("int(*)(%s *, int, ...)" % ("char" if t == "void" else t.split("[")[0]))
    if f1 is not f2 or f1 is f3:
        bad.append("function types: same is same: %r, with ellipsis is same: %r" % (f1 is f2, f1 is f3))
# rebuilt after being freed: unique again
for trial in range(200):
    f = cffi.FFI()
    spec = "%s[%d]" % (rnd.choice(["short", "unsigned char", "double"]), 100000 + trial)
    x = f.typeof(spec)
    r = weakref.ref(x)
    del x
    gc.collect()
    if r() is not None:
        continue                      # kept alive by a cache somewhere: nothing to test
    y1 = f.typeof(spec)
    y2 = cffi.FFI().typeof(spec)
    if y1 is not y2:
        bad.append("%s rebuilt after its ctype was freed: two different objects" % spec)
if bad:
    print("FAIL %d: %s" % (len(bad), " ;; ".join(bad[:3])))
    sys.exit(1)
print("ok")
