"""C05 replay battery against the real cffi build: stores and casts of Python floats into float / double / complex
types compared with struct.pack (IEEE-754 round-to-nearest), NaN and infinities, long double copies bit for bit."""
import math
import random
import struct
import sys

import cffi

ffi = cffi.FFI()
bad = []
rnd = random.Random(5)
SPECIAL = [0.0, -0.0, 1.0, -1.0, 0.1, 1e-45, 1.4e-45, 7e-46, 3.4028234663852886e38, 3.4028235677973366e38,
           3.402823669209385e38, 1e39, -1e39, float('inf'), float('-inf'), float('nan'), 1.0000000596046448,
           1.00000005960464477539, 16777217.0, 5e-324, 2.2250738585072014e-308, 1.7976931348623157e308]
values = SPECIAL + [rnd.uniform(-1e6, 1e6) for _ in range(200)] + \
    [struct.unpack('d', struct.pack('Q', rnd.getrandbits(64)))[0] for _ in range(300)]


def same(a, b):
    return (a != a and b != b) or (a == b and math.copysign(1, a) == math.copysign(1, b))


def as_f32(x):
    try:
        return struct.unpack('f', struct.pack('f', x))[0]
    except OverflowError:               # struct refuses what C rounds to infinity
        return math.copysign(float('inf'), x)


for x in values:
    want32 = as_f32(x)
    p = ffi.new("float *", x)
    if not same(p[0], want32):
        bad.append("ffi.new('float *', %r)[0] = %r, C (float)x = %r" % (x, p[0], want32))
    if not same(float(ffi.cast("float", x)), want32):
        bad.append("ffi.cast('float', %r) = %r, C (float)x = %r" % (x, float(ffi.cast("float", x)), want32))
    q = ffi.new("double *", x)
    if not same(q[0], x) or (x == x and bytes(ffi.buffer(q)) != struct.pack('d', x)):
        bad.append("ffi.new('double *', %r)[0] = %r" % (x, q[0]))
    a = ffi.new("float[3]")
    a[1] = x
    if not same(a[1], want32) or a[0] != 0.0 or a[2] != 0.0:
        bad.append("float array item store of %r: %r" % (x, list(a)))
for _ in range(200):
    z = complex(rnd.choice(values), rnd.choice(values))
    c1 = ffi.new("float _Complex *", z)
    got = c1[0]
    if not (same(got.real, as_f32(z.real)) and same(got.imag, as_f32(z.imag))):
        bad.append("float _Complex store of %r reads %r" % (z, got))
    raw = bytes(ffi.buffer(c1))
    if z.real == z.real and z.imag == z.imag and raw != struct.pack('ff', as_f32(z.real), as_f32(z.imag)):
        bad.append("float _Complex store of %r: bytes %r (real part first expected)" % (z, raw))
    c2 = ffi.new("double _Complex *", z)
    if not (same(c2[0].real, z.real) and same(c2[0].imag, z.imag)):
        bad.append("double _Complex store of %r reads %r" % (z, c2[0]))
# long double: a value read from memory and stored again, or copied via cast / new, keeps all its bytes
for _ in range(200):
    src = ffi.new("long double *")
    pattern = bytes(rnd.getrandbits(8) for _ in range(10))
    # a valid x87 pattern: explicit integer bit consistent with the exponent
    m = bytearray(pattern)
    exp = (m[9] & 0x7f) << 8 | m[8]
    if exp == 0:
        m[7] &= 0x7f
    else:
        m[7] |= 0x80
    ffi.buffer(src)[0:10] = bytes(m)
    v = src[0]
    dst = ffi.new("long double *")
    dst[0] = v
    dst2 = ffi.new("long double *", v)
    dst3 = ffi.new("long double *", ffi.cast("long double", v))
    for nm, d in (("assignment", dst), ("ffi.new(init)", dst2), ("ffi.cast", dst3)):
        if bytes(ffi.buffer(d))[:10] != bytes(m):
            bad.append("long double %s copy: %r became %r" % (nm, bytes(m).hex(), bytes(ffi.buffer(d))[:10].hex()))
if bad:
    print("FAIL %d floating-point stores differ from C; first: %s" % (len(bad), " ;; ".join(bad[:3])))
    sys.exit(1)
print("ok")
