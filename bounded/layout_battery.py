"""C01 replay battery: the real cffi (built from the tree under test) against gcc on struct/union declarations of
the property's class -- every ordered pair/triple from a small palette plus seeded random aggregates (nested and
anonymous members, unions with bit-fields, packed=True / pack=N without bit-fields, flexible arrays).
Compares sizeof, alignof, offsetof of every ordinary member and the exact bits of every named bit-field.
Prints FAIL ... and exits 1 on the first differences; aggregates whose GNU size is 0 are skipped (recorded finding).
"""
import itertools
import os
import random
import subprocess
import sys
import tempfile

import cffi

SEED = int(os.environ.get('VERIF_SEED', '1') or 1)
N_RANDOM = int(os.environ.get('LAYOUT_RANDOM', '250'))

INT_TYPES = ["char", "signed char", "unsigned char", "short", "unsigned short", "int", "unsigned int", "long",
             "unsigned long", "long long", "unsigned long long", "_Bool"]
SIZES = {"char": 1, "signed char": 1, "unsigned char": 1, "short": 2, "unsigned short": 2, "int": 4,
         "unsigned int": 4, "long": 8, "unsigned long": 8, "long long": 8, "unsigned long long": 8, "_Bool": 1}
OTHER = ["float", "double", "long double", "void *", "char[3]", "short[2]", "int(*)(int)"]


def decl_of(t, name):
    if t.endswith(']'):
        base, dim = t[:-1].split('[')
        return "%s %s[%s];" % (base, name, dim)
    if '(*)' in t:
        return t.replace('(*)', '(*%s)' % name) + ";"
    return "%s %s;" % (t, name)


class Gen:
    def __init__(self, rng):
        self.rng = rng
        self.k = 0

    def member(self, depth, allow_bf):
        rng = self.rng
        self.k += 1
        name = "m%d" % self.k
        r = rng.random()
        if allow_bf and r < 0.45:
            t = rng.choice(INT_TYPES)
            w = rng.choice([0, 1, 2, 3, 7, 8, 9, 15, 16, 17, 31, 32, 33, 63, 64, rng.randint(1, 64)])
            w = min(w, 8 * SIZES[t])
            if t == '_Bool':
                w = min(w, 1)
            named = w > 0 and rng.random() < 0.8
            if t in ('char',):          # plain char bit-fields: signedness is implementation-defined; class says explicit
                t = 'signed char'
            return ("%s %s:%d;" % (t, name if named else '', w), [('bit', name)] if named else [])
        if r < 0.8:
            t = rng.choice(INT_TYPES + OTHER)
            return (decl_of(t, name), [('byte', name)])
        if depth < 2:
            kw = rng.choice(['struct', 'struct', 'union'])
            anon = rng.random() < 0.4
            body, members = self.body(depth + 1, allow_bf, rng.randint(1, 4))
            if anon:
                return ("%s { %s };" % (kw, body), members)
            return ("%s { %s } %s;" % (kw, body, name), [('byte', name)])
        return (decl_of("int", name), [('byte', name)])

    def body(self, depth, allow_bf, n):
        parts, members = [], []
        for _ in range(n):
            d, m = self.member(depth, allow_bf)
            parts.append(d)
            members += m
        return ' '.join(parts), members


def cases():
    out = []
    # directed: every ordered pair of palette entries, as struct and as union
    pal = ["char a%d;", "short a%d;", "int a%d;", "long a%d;", "int a%d:3;", "int a%d:17;", "unsigned char a%d:5;",
           "long long a%d:40;", "short a%d:9;", "int :0;", "char :0;", "int :5;", "_Bool a%d:1;", "long a%d:64;",
           "unsigned int a%d:32;", "long double a%d;", "char a%d[3];", "struct { char x%d; int y%d:7; } a%d;",
           "union { short u%d; char v%d:3; };"]
    for kw in ('struct', 'union'):
        for combo in itertools.product(range(len(pal)), repeat=2):
            parts, members = [], []
            for pos, idx in enumerate(combo):
                txt = pal[idx]
                cnt = txt.count('%d')
                nm = pos + 1
                parts.append(txt % ((nm,) * cnt) if cnt else txt)
                if 'a%d' in txt:
                    members.append(('bit' if ':' in txt.split('a%d')[1][:3] else 'byte', 'a%d' % nm))
                if 'u%d' in txt:
                    members += [('byte', 'u%d' % nm), ('bit', 'v%d' % nm)]
            out.append((kw, ' '.join(parts), members, 0))
    # three members with bit-fields straddling units
    tri = ["char a%d;", "int a%d:3;", "int a%d:30;", "short a%d:9;", "long a%d:33;", "int :0;", "unsigned char a%d:7;"]
    for combo in itertools.product(range(len(tri)), repeat=3):
        parts, members = [], []
        for pos, idx in enumerate(combo):
            txt = tri[idx]
            parts.append(txt % (pos + 1) if '%d' in txt else txt)
            if '%d' in txt:
                members.append(('bit' if ':' in txt else 'byte', 'a%d' % (pos + 1)))
        out.append(('struct', ' '.join(parts), members, 0))
    # flexible array last
    for first in ("char c;", "int i; char c;", "long l; short s;", "char c:3;"):
        for ft in ("char", "int", "long", "short"):
            out.append(('struct', "%s %s tail[];" % (first, ft), [('byte', 'tail')] +
                        [('byte', x.split()[-1].rstrip(';')) for x in first.split(';') if x.strip() and ':' not in x], 0))
    # random
    rng = random.Random(SEED * 7919 + 1)
    for _ in range(N_RANDOM):
        pack = rng.choice([0, 0, 0, 0, 1, 2, 4, 8, 16])
        g = Gen(rng)
        body, members = g.body(0, allow_bf=(pack == 0), n=rng.randint(1, 6))
        out.append((rng.choice(['struct', 'struct', 'union']), body, members, pack))
    return out


def gcc_facts(cs):
    src = ["#include <stdio.h>", "#include <stddef.h>", "#include <string.h>"]
    main = []
    for k, (kw, body, members, pack) in enumerate(cs):
        if pack:
            src.append("#pragma pack(push,%d)" % pack)
        src.append("%s S%d { %s };" % (kw, k, body))
        if pack:
            src.append("#pragma pack(pop)")
        main.append('printf("%d %%zu %%zu", sizeof(%s S%d), _Alignof(%s S%d));' % (k, kw, k, kw, k))
        for kind, nm in members:
            if kind == 'byte':
                main.append('printf(" %%zu", offsetof(%s S%d, %s));' % (kw, k, nm))
            else:
                main.append('{ %s S%d v; memset(&v,0,sizeof v); v.%s = -1; unsigned char *b=(unsigned char*)&v; '
                            'long first=-1,cnt=0; for (long i=0;i<(long)sizeof v*8;i++) if (b[i/8]>>(i%%8)&1)'
                            '{ if(first<0) first=i; cnt++; } printf(" %%ld/%%ld", first, cnt); }' % (kw, k, nm))
        main.append('printf("\\n");')
    src.append("int main(void){\n" + "\n".join(main) + "\nreturn 0;}")
    d = tempfile.mkdtemp(prefix='layoutbat-')
    with open(os.path.join(d, 't.c'), 'w') as f:
        f.write("\n".join(src))
    r = subprocess.run(["gcc", "-w", "-O0", "t.c", "-o", "t"], cwd=d, capture_output=True, text=True)
    if r.returncode:
        print("battery error: gcc rejected the generated declarations:\n" + r.stderr[:1500])
        sys.exit(3)
    lines = subprocess.run([os.path.join(d, "t")], capture_output=True, text=True).stdout.strip().split("\n")
    import shutil
    shutil.rmtree(d, True)
    return [l.split()[1:] for l in lines]


def cffi_facts(kw, k, body, members, pack):
    ffi = cffi.FFI()
    kwds = {}
    if pack == 1:
        kwds['packed'] = True
    elif pack:
        kwds['pack'] = pack
    ffi.cdef("%s S%d { %s };" % (kw, k, body), **kwds)
    tn = "%s S%d" % (kw, k)
    res = [str(ffi.sizeof(tn)), str(ffi.alignof(tn))]
    flds = dict(ffi.typeof(tn).fields)
    for kind, nm in members:
        if kind == 'byte':
            res.append(str(ffi.offsetof(tn, nm)))
        else:
            f = flds[nm]
            res.append("%d/%d" % (8 * f.offset + f.bitshift, f.bitsize))
    return res


def main():
    cs = cases()
    want = gcc_facts(cs)
    bad, skipped = [], 0
    for k, ((kw, body, members, pack), w) in enumerate(zip(cs, want)):
        if w[0] == '0':
            skipped += 1          # GNU size 0: cffi says 1 by design (recorded finding C01-empty-aggregate)
            continue
        try:
            got = cffi_facts(kw, k, body, members, pack)
        except Exception as e:
            got = ["rejected: %s: %s" % (e.__class__.__name__, str(e)[:80])]
        if got != w:
            bad.append("%s { %s } pack=%d: cffi %s, gcc %s" % (kw, body, pack, ' '.join(got), ' '.join(w)))
    if bad:
        print("FAIL %d of %d declarations are laid out differently from gcc; first: %s" % (len(bad), len(cs), " ;; ".join(bad[:3])))
        sys.exit(1)
    print("ok %d declarations agree with gcc (%d with GNU size 0 skipped)" % (len(cs) - skipped, skipped))


if __name__ == '__main__':
    main()
