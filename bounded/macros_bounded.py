"""Bounded stand-in (NOT a proof): Parser._process_macros / _add_integer_constant on every '#define X <value>'
with <value> a string of length <= N over a small alphabet that contains every character class the literal
regex distinguishes.  Any exception other than cffi's own error classes is a C30 violation.
usage: /venv/bin/python macros_bounded.py N  -> prints JSON {cases, bad: [...]}"""
import itertools, json, sys, warnings
warnings.simplefilter('ignore')
import cffi
from cffi import cparser
from cffi.error import CDefError, FFIError

N = int(sys.argv[1]) if len(sys.argv) > 1 else 4
ALPHA = ['-', '0', '1', '8', 'a', 'f', 'x', 'X', 'b', 'o', 'u', 'L', '.', ' ']
cases, bad = 0, []
for n in range(1, N + 1):
    for t in itertools.product(ALPHA, repeat=n):
        v = ''.join(t)
        cases += 1
        p = cparser.Parser()
        try:
            p._process_macros({'X': v})
        except (CDefError, FFIError, NotImplementedError):
            pass
        except Exception as e:
            if len(bad) < 20:
                bad.append([v, e.__class__.__name__])
            else:
                bad.append(None)
print(json.dumps({'cases': cases, 'violations': len(bad), 'first': [b for b in bad if b][:8], 'alphabet': ''.join(ALPHA),
                  'max_len': N}))
