"""C14 replay battery: C code (through libffi and a compiled API-mode helper) calls ffi.callback() and extern "Python"
functions of many signatures; arguments must arrive exactly, results must come back exactly, and a raising / wrongly
typed Python function must give the declared error value (or onerror's) without any exception reaching the caller."""
import os
import shutil
import sys
import tempfile
import importlib.util

import cffi

bad = []
ffi = cffi.FFI()
ffi.cdef("struct s14 { int a; long long b; };")

# ---- ABI mode: call the callback through its C address (libffi both ways)
CASES = [
    ("signed char(signed char, signed char)", [(-128, 127), (5, -6)], lambda x, y: (x - y) % 256 - 256 if ((x - y) % 256) > 127 else (x - y) % 256),
    ("unsigned short(unsigned short)", [(65535,), (0,), (77,)], lambda x: (x * 3) % 65536),
    ("int(int, int, int)", [(2**31 - 1, -2**31, 0), (1, 2, 3)], lambda x, y, z: max(min(x + y + z, 2**31 - 1), -2**31)),
    ("long long(long long, unsigned long long)", [(-2**63, 2**64 - 1), (5, 6)], lambda x, y: x if y > 2**63 else -y),
    ("double(float, double)", [(1.5, -2.25), (0.0, 1e300)], lambda x, y: x * 2 + y),
    ("_Bool(_Bool, int)", [(True, 0), (False, 5)], lambda x, y: bool(x) != bool(y)),
]
for sig, argsets, fn in CASES:
    seen = []

    def pyfn(*a, fn=fn, seen=seen):
        seen.append(a)
        return fn(*a)
    cb = ffi.callback(sig, pyfn)
    f = ffi.cast(ffi.typeof(cb), ffi.cast("intptr_t", cb))
    for args in argsets:
        del seen[:]
        got = f(*args)
        want = fn(*args)
        if seen != [tuple(args)]:
            bad.append("%s: Python saw %r, C passed %r" % (sig, seen, args))
        if got != want:
            bad.append("%s%r: C received %r, Python returned %r" % (sig, args, got, want))

# struct by value
seen = []


def sfn(s, k):
    seen.append((s.a, s.b, k))
    return s.a + k


cb = ffi.callback("long(struct s14, int)", sfn)
f = ffi.cast(ffi.typeof(cb), ffi.cast("intptr_t", cb))
sv = ffi.new("struct s14 *", [7, -2**40])
if f(sv[0], 3) != 10 or seen != [(7, -2**40, 3)]:
    bad.append("struct by value: %r" % (seen,))

# errors are contained
import io
import contextlib
err = io.StringIO()
with contextlib.redirect_stderr(err):
    for sig, error, want in (("int(int)", 42, 42), ("int(int)", None, 0), ("short(int)", -3, -3), ("double(int)", 2.5, 2.5),
                             ("unsigned char(int)", 200, 200)):
        def boom(x):
            raise ValueError("boom")
        cb = ffi.callback(sig, boom, error=error) if error is not None else ffi.callback(sig, boom)
        f = ffi.cast(ffi.typeof(cb), ffi.cast("intptr_t", cb))
        try:
            got = f(1)
        except BaseException as e:
            bad.append("%s: exception %r escaped into the caller" % (sig, e))
            continue
        if got != want:
            bad.append("%s with error=%r: the C caller received %r" % (sig, error, got))

        def wrong(x):
            return "not a number"
        cb = ffi.callback(sig, wrong, error=error) if error is not None else ffi.callback(sig, wrong)
        f = ffi.cast(ffi.typeof(cb), ffi.cast("intptr_t", cb))
        got = f(1)
        if got != want:
            bad.append("%s returning a str with error=%r: the C caller received %r" % (sig, error, got))
    # onerror
    calls = []

    def onerr(exc, val, tb):
        calls.append(exc)
        return 77
    cb = ffi.callback("int(int)", lambda x: 1 // 0, error=5, onerror=onerr)
    f = ffi.cast("int(*)(int)", ffi.cast("intptr_t", cb))
    if f(1) != 77 or calls != [ZeroDivisionError]:
        bad.append("onerror: result %r, calls %r" % (f(1), calls))
    calls2 = []
    cb = ffi.callback("int(int)", lambda x: 1 // 0, error=5, onerror=lambda e, v, t: calls2.append(e))
    f = ffi.cast("int(*)(int)", ffi.cast("intptr_t", cb))
    if f(1) != 5 or calls2 != [ZeroDivisionError]:
        bad.append("onerror returning None: the declared error value must stay (got %r)" % f(1))

# ---- API mode: extern "Python" called from compiled C
d = tempfile.mkdtemp(prefix="c14-")
try:
    fb = cffi.FFI()
    fb.cdef("""
        struct p14 { short x; double y; };
        struct small14 { int a, b; };
        union tiny14 { int i; unsigned char ch[4]; };
        extern "Python" long long ep_mix(signed char, unsigned short, int, long long, float, double, void *, struct p14);
        extern "Python" int ep_fail(int);
        extern "Python" int ep_small(int, struct small14, union tiny14, int);
        long long call_mix(signed char, unsigned short, int, long long, float, double, void *, struct p14);
        int call_fail(int);
        int call_small(int, int, int, int, int);
    """)
    fb.set_source("_c14_mod", """
        struct p14 { short x; double y; };
        struct small14 { int a, b; };
        union tiny14 { int i; unsigned char ch[4]; };
        static long long ep_mix(signed char, unsigned short, int, long long, float, double, void *, struct p14);
        static int ep_fail(int);
        static int ep_small(int, struct small14, union tiny14, int);
        int call_small(int k, int a, int b, int u, int z)
        { struct small14 s; union tiny14 t; s.a = a; s.b = b; t.i = u; return ep_small(k, s, t, z); }
        long long call_mix(signed char a, unsigned short b, int c, long long d, float e, double f, void *g, struct p14 h)
        { return ep_mix(a, b, c, d, e, f, g, h); }
        int call_fail(int v) { return ep_fail(v) + 1000; }
    """)
    path = fb.compile(tmpdir=d, verbose=False)
    spec = importlib.util.spec_from_file_location("_c14_mod", path)
    mod = importlib.util.module_from_spec(spec)
    spec.loader.exec_module(mod)
    f2, l2 = mod.ffi, mod.lib
    got = []

    @f2.def_extern()
    def ep_mix(a, b, c, dd, e, f, g, h):
        got.append((a, b, c, dd, e, f, g, h.x, h.y))
        return dd - 1

    @f2.def_extern(error=-9)
    def ep_fail(v):
        raise KeyError(v)
    small_seen = []

    @f2.def_extern()
    def ep_small(k, s, t, z):
        small_seen.append((k, s.a, s.b, t.i, z))
        return 1
    buf = f2.new("char[4]")
    pv = f2.cast("void *", buf)
    st = f2.new("struct p14 *", [-5, 2.5])
    with contextlib.redirect_stderr(err):
        r = l2.call_mix(-7, 65000, -2**31, 2**62, 1.25, -3.5e200, pv, st[0])
        r2 = l2.call_fail(3)
    if r != 2**62 - 1 or got != [(-7, 65000, -2**31, 2**62, 1.25, -3.5e200, pv, -5, 2.5)]:
        bad.append("extern Python: Python saw %r, result %r" % (got, r))
    l2.call_small(7, 201, -202, 0x01020304, 8)
    if small_seen != [(7, 201, -202, 0x01020304, 8)]:
        bad.append("extern Python with small struct/union arguments by value: Python saw %r" % (small_seen,))
    if r2 != 1000 - 9:
        bad.append("extern Python raising: the C caller received %r, expected the declared error value -9" % (r2 - 1000))
finally:
    shutil.rmtree(d, ignore_errors=True)

if bad:
    print("FAIL %d: %s" % (len(bad), " ;; ".join(bad[:3])))
    sys.exit(1)
print("ok")
