"""C34 replay battery: in-line and compiled FFIs that include others."""
import importlib.util
import os
import shutil
import sys
import tempfile
import warnings

import cffi

warnings.simplefilter("ignore")
bad = []
# ---- in-line
base = cffi.FFI()
base.cdef("typedef int myint_t; struct pt { int x; myint_t y; }; union u2 { int a; char b; }; enum color { RED, GREEN=5 };\n"
          "#define LIMIT 42\n typedef struct { short s; } anon_t; int func(int);")
mid = cffi.FFI()
mid.include(base)
mid.cdef("struct line { struct pt a, b; };")
top = cffi.FFI()
top.include(mid)
for name in ("myint_t", "struct pt", "union u2", "enum color", "anon_t", "struct pt *", "struct pt[3]"):
    if top.typeof(name) is not base.typeof(name) or mid.typeof(name) is not base.typeof(name):
        bad.append("in-line: %r is not the same ctype through include" % name)
if top.typeof("struct line") is not mid.typeof("struct line"):
    bad.append("in-line: struct line differs")
if top.sizeof("struct line") != 2 * base.sizeof("struct pt") or top.offsetof("struct pt", "y") != base.offsetof("struct pt", "y"):
    bad.append("in-line: layouts differ")
lib_top = top.dlopen(None)
if lib_top.LIMIT != 42 or lib_top.GREEN != 5:
    bad.append("in-line: integer constants are not visible")
try:
    bad_ffi = cffi.FFI()
    bad_ffi.cdef("struct pt { long other; };")
    bad_ffi.include(base)
    bad.append("in-line: a conflicting struct declaration was silently replaced")
except cffi.FFIError:
    pass
# ---- compiled
d = tempfile.mkdtemp(prefix="c34-")
try:
    sys.path.insert(0, d)
    b = cffi.FFI()
    b.cdef("typedef int myint_t; struct pt { int x; myint_t y; }; struct opq; enum color { RED, GREEN=5 };\n"
           "#define LIMIT 42\n int twice(int); extern int gvar; static const int KONST;")
    b.set_source("_c34_base", "typedef int myint_t; struct pt { int x; myint_t y; }; struct opq { int hidden; }; "
                 "enum color { RED, GREEN=5 };\n#define LIMIT 42\n int twice(int v) { return 2 * v; } int gvar = 9;\n"
                 "#define KONST 77\n")
    b.compile(tmpdir=d, verbose=False)
    t = cffi.FFI()
    t.include(b)
    t.cdef("struct line { struct pt a, b; }; int use(struct pt *);")
    t.set_source("_c34_top", "typedef int myint_t; enum color { RED, GREEN=5 }; struct pt { int x; myint_t y; }; struct line { struct pt a, b; }; "
                 "int use(struct pt *p) { return p->x + p->y; }")
    t.compile(tmpdir=d, verbose=False)
    import _c34_base
    import _c34_top
    fb, ft = _c34_base.ffi, _c34_top.ffi
    for name in ("myint_t", "struct pt", "struct opq", "struct pt *"):      # (enums: known finding C34-enum-not-shared)
        if ft.typeof(name) is not fb.typeof(name):
            bad.append("compiled: %r is not the same ctype through include" % name)
    if ft.sizeof("struct pt") != fb.sizeof("struct pt") or [f for f, _ in ft.typeof("struct pt").fields] != ['x', 'y']:
        bad.append("compiled: struct pt layout differs")
    if ft.integer_const("LIMIT") != 42 or ft.integer_const("GREEN") != 5:
        bad.append("compiled: integer constants are not visible through the including ffi")
    lt = _c34_top.lib
    if lt.twice(21) != 42 or lt.gvar != 9 or lt.KONST != 77 or lt.LIMIT != 42 or lt.GREEN != 5:
        bad.append("compiled: functions / globals / constants of the included module are not reachable through the including lib")
    p = fb.new("struct pt *", [3, 4])
    if lt.use(p) != 7:
        bad.append("compiled: a struct made by the included ffi is not accepted by the including lib")
    # a chain of includes: top2 -> top -> base; names of base asked through top2 FIRST (nothing cached in between)
    t2 = cffi.FFI()
    t2.include(t)
    t2.cdef("int third(void);")
    t2.set_source("_c34_top2", "typedef int myint_t; enum color { RED, GREEN=5 }; struct pt { int x; myint_t y; }; struct line { struct pt a, b; }; "
                  "int third(void) { return 3; }")
    t2.compile(tmpdir=d, verbose=False)
    import _c34_top2
    l2 = _c34_top2.lib
    for nm, want in (("LIMIT", 42), ("KONST", 77), ("gvar", 9)):
        try:
            got = getattr(l2, nm)
        except AttributeError as e:
            got = "AttributeError"
        if got != want:
            bad.append("compiled, two levels of include: lib.%s gives %r, expected %r" % (nm, got, want))
    try:
        if l2.twice(4) != 8 or l2.use(p) != 7:
            bad.append("compiled, two levels of include: functions give wrong results")
    except AttributeError as e:
        bad.append("compiled, two levels of include: %s" % e)
    if _c34_top2.ffi.typeof("struct pt") is not fb.typeof("struct pt"):
        bad.append("compiled, two levels of include: struct pt is not shared")
finally:
    sys.path.remove(d)
    shutil.rmtree(d, ignore_errors=True)
if bad:
    print("FAIL %d: %s" % (len(bad), " ;; ".join(bad[:3])))
    sys.exit(1)
print("ok")
