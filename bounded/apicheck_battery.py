"""C12 replay battery: a module whose C source disagrees with (or agrees with, or completes) its cdef; every checked
disagreement must raise ffi.error when the item is used, '...' items adopt the compiler's numbers silently."""
import sys, os, importlib
import cffi
ffi = cffi.FFI()
ffi.cdef("""
#define N 5
#define M 7
#define OK 3
#define NEGOK -4
#define ANY ...
struct chk { int a; short b; };
struct chk_size { int a; };
struct fsize { int a; short s; int z; };
union ufsize { int i; short s; };
struct flex { int a; ...; };
enum e { EA = 5, EB };
enum open_e { OA, OB, ... };
""")
ffi.set_source("_c12_demo", """
#define N 0
#define M 8
#define OK 3
#define NEGOK -4
#define ANY 99
struct chk { int a; int pad; short b; };
struct chk_size { int a; int extra; };
struct fsize { int a; int s; int z; };
union ufsize { int i; int s; };
struct flex { long before; int a; char after[3]; };
enum e { EA = 6, EB };
enum open_e { OB = 10, OA = 20, OC };
""")
ffi.compile(tmpdir=os.getcwd(), verbose=False)
sys.path.insert(0, os.getcwd())
m = importlib.import_module("_c12_demo")
lib, f = m.lib, m.ffi
bad = []


def raises(what, fn):
    try:
        v = fn()
    except f.error:
        return
    except Exception as e:
        bad.append("%s raised %s instead of ffi.error" % (what, e.__class__.__name__))
        return
    bad.append("%s gives %r without any error although the cdef disagrees with the C source" % (what, v))


raises("lib.N (cdef 5, C 0)", lambda: lib.N)
raises("lib.M (cdef 7, C 8)", lambda: lib.M)
raises('ffi.typeof("int[M]") (cdef 7, C 8)', lambda: f.typeof("int[M]"))
raises('ffi.typeof("int[N]") (cdef 5, C 0)', lambda: f.typeof("int[N]"))
# (lib.EA, cdef 5 / C 6, is the recorded finding C12-enum-unchecked: replayed by findings/C12_enum_unchecked.py)
raises("struct chk (field b: cdef offset 4, C offset 8)", lambda: f.offsetof("struct chk", "b"))
raises("struct chk_size (cdef size 4, C size 8)", lambda: f.sizeof("struct chk_size"))
raises("struct fsize (field s: cdef 2 bytes, C 4 bytes)", lambda: f.new("struct fsize *"))
raises("union ufsize (member s: cdef 2 bytes, C 4 bytes; same total size)", lambda: f.new("union ufsize *"))
if (lib.OK, lib.NEGOK, lib.ANY) != (3, -4, 99):
    bad.append("agreeing constants: %r" % ((lib.OK, lib.NEGOK, lib.ANY),))
if (lib.OA, lib.OB) != (20, 10):
    bad.append("enum declared with '...': OA, OB = %r (compiler: 20, 10)" % ((lib.OA, lib.OB),))
if (f.sizeof("struct flex"), f.offsetof("struct flex", "a")) != (16, 8):
    bad.append("struct flex declared with '...': sizeof %d, offsetof a %d (compiler: 16, 8)"
               % (f.sizeof("struct flex"), f.offsetof("struct flex", "a")))
if str(f.typeof("int[OK]")) != "<ctype 'int[3]'>":
    bad.append('ffi.typeof("int[OK]") = %s' % f.typeof("int[OK]"))
if bad:
    print("FAIL %d: %s" % (len(bad), " ;; ".join(bad[:4])))
    sys.exit(1)
print("ok")
