"""C20 replay battery against the real cffi build: ffi.new(T, init) vs ffi.new(T) followed by assignment, zero-filling,
flexible-array sizing and sizeof(p[0]).  Prints FAIL ... and exits 1 on a difference."""
import sys
import cffi

ffi = cffi.FFI()
ffi.cdef("""
struct pt { int x; short y; char tag[3]; };
struct bf { int a:3; unsigned b:7; char c; };
union uu { int i; double d; char s[5]; };
struct fl { int n; short a[]; };
struct fl8 { char k; long long v[]; };
struct tail_s { int n; int y[]; };
union body_u { struct tail_s t; int raw; };
struct msg_s { int tag; union body_u body; };
struct outer_s { char c; struct tail_s t; };
""")
bad = []


def raw(p, n=None):
    return bytes(ffi.buffer(p)) if n is None else bytes(ffi.buffer(p, n))


def dirty():
    # leave non-zero garbage in freed blocks so that missing zero-filling shows
    junk = [ffi.new("char[]", b"\xff" * n) for n in (8, 16, 24, 32, 48, 64, 100, 200, 1000)]
    del junk


# 1. zero filling
for T in ("int *", "long long *", "char *", "struct pt *", "struct bf *", "union uu *", "int[7]", "struct pt[3]",
          "char[33]", "double *", "void **"):
    for _ in range(20):
        dirty()
        p = ffi.new(T)
        b = raw(p)
        if any(b):
            bad.append("ffi.new(%r) is not zero-filled: %r" % (T, b))
            break
for n in (0, 1, 5, 64, 1000):
    dirty()
    p = ffi.new("short[]", n)
    if len(raw(p)) != 2 * n or any(raw(p)):
        bad.append("ffi.new('short[]', %d): %d bytes %r" % (n, len(raw(p)), raw(p)[:20]))

# 2. initializer == assignment
CASES = [("int *", 5), ("int *", -7), ("long long *", 2 ** 40), ("unsigned char *", 200), ("double *", 1.5),
         ("char *", b"x"), ("struct pt *", [1, 2, b"ab"]), ("struct pt *", {"y": 3}), ("struct pt *", [9]),
         ("struct bf *", [1, 100, b"z"]), ("struct bf *", {"b": 5}), ("union uu *", [77]), ("union uu *", {"s": b"hey"}),
         ("union uu *", {"d": 2.5})]
for T, init in CASES:
    dirty()
    p = ffi.new(T, init)
    q = ffi.new(T)
    q[0] = init
    if raw(p) != raw(q):
        bad.append("ffi.new(%r, %r) leaves %r, new + assignment leaves %r" % (T, init, raw(p), raw(q)))
ARR = [("int[5]", [1, 2]), ("int[]", [4, 5, 6]), ("short[4]", (7,)), ("char[6]", b"abc"), ("char[]", b"hello"),
       ("struct pt[2]", [[1, 2, b"q"]]), ("struct pt[]", [{"x": 1}, {"y": 2}])]
for T, init in ARR:
    dirty()
    p = ffi.new(T, init)
    n = len(p)
    q = ffi.new(T if "[]" not in T else T.replace("[]", "[%d]" % n))
    for i, v in enumerate(init if not isinstance(init, bytes) else [bytes([ch]) for ch in init]):
        q[i] = v
    if raw(p) != raw(q):
        bad.append("ffi.new(%r, %r) leaves %r, new + item assignments leave %r" % (T, init, raw(p), raw(q)))

# 3. flexible arrays: allocation sized for the initializer, reported by sizeof(p[0]), zero where nothing is written
OFF = ffi.offsetof("struct fl", "a")
for k in (0, 1, 2, 3, 7, 50):
    dirty()
    p = ffi.new("struct fl *", [k, list(range(1, k + 1))])
    want = max(ffi.sizeof("struct fl"), OFF + 2 * k)
    if ffi.sizeof(p[0]) != want or len(raw(p)) != want:
        bad.append("struct fl with %d items: sizeof(p[0]) = %d, buffer %d bytes, needed %d" % (k, ffi.sizeof(p[0]), len(raw(p)), want))
    if [p.a[i] for i in range(k)] != list(range(1, k + 1)):
        bad.append("struct fl with %d items: items read back %r" % (k, [p.a[i] for i in range(k)]))
    dirty()
    p = ffi.new("struct fl *", {"a": k})
    if ffi.sizeof(p[0]) != want or any(raw(p)):
        bad.append("struct fl with a length of %d: sizeof(p[0]) = %d (want %d), bytes %r" % (k, ffi.sizeof(p[0]), want, raw(p)[:30]))
OFF8 = ffi.offsetof("struct fl8", "v")
for k in (0, 1, 4):
    p = ffi.new("struct fl8 *", [b"c", [10 ** 12] * k])
    want = max(ffi.sizeof("struct fl8"), OFF8 + 8 * k)
    if ffi.sizeof(p[0]) != want:
        bad.append("struct fl8 with %d items: sizeof(p[0]) = %d, want %d" % (k, ffi.sizeof(p[0]), want))
# nested: the flexible array sits in a struct inside a union inside a struct
INT = ffi.sizeof("int")
for k in (1, 3, 9):
    u = ffi.new("union body_u *", [[7, k]])
    if ffi.sizeof(u[0]) != max(ffi.sizeof("union body_u"), ffi.offsetof("struct tail_s", "y") + k * INT):
        bad.append("union body_u with t.y of length %d: sizeof = %d" % (k, ffi.sizeof(u[0])))
    m = ffi.new("struct msg_s *", [1, [[7, k]]])
    want = ffi.offsetof("struct msg_s", "body") + ffi.offsetof("struct tail_s", "y") + k * INT
    if ffi.sizeof(m[0]) != max(ffi.sizeof("struct msg_s"), want):
        bad.append("struct msg_s with body.t.y of length %d: sizeof(m[0]) = %d, want %d" % (k, ffi.sizeof(m[0]), max(ffi.sizeof("struct msg_s"), want)))
    o = ffi.new("struct outer_s *", [b"c", [5, list(range(k))]])
    want = ffi.offsetof("struct outer_s", "t") + ffi.offsetof("struct tail_s", "y") + k * INT
    if ffi.sizeof(o[0]) != max(ffi.sizeof("struct outer_s"), want) or [o.t.y[i] for i in range(k)] != list(range(k)):
        bad.append("struct outer_s with t.y of %d items: sizeof(o[0]) = %d, want %d" % (k, ffi.sizeof(o[0]), want))
if bad:
    print("FAIL %d differences; first: %s" % (len(bad), " ;; ".join(bad[:3])))
    sys.exit(1)
print("ok")
