"""C29 replay battery: thousands of live callbacks have pairwise distinct addresses and each invokes its own Python
function with its own signature; dropped closures are reused without ever aliasing a live one."""
import gc
import random
import sys

import cffi

ffi = cffi.FFI()
rnd = random.Random(29)
bad = []
live = {}           # id -> (callback cdata, expected result)


def make(k):
    if k % 3 == 0:
        cb = ffi.callback("int(int)", lambda x, k=k: x + k)
        return cb, ("int(*)(int)", lambda f: f(1000) == 1000 + k)
    if k % 3 == 1:
        cb = ffi.callback("long long(long long, long long)", lambda x, y, k=k: x * y + k)
        return cb, ("long long(*)(long long, long long)", lambda f: f(7, 9) == 63 + k)
    cb = ffi.callback("double(double)", lambda x, k=k: x + 0.5 * k)
    return cb, ("double(*)(double)", lambda f: f(1.0) == 1.0 + 0.5 * k)


def check_all(tag):
    addrs = {}
    for k, (cb, (sig, test)) in live.items():
        a = int(ffi.cast("intptr_t", cb))
        if a in addrs:
            bad.append("%s: live callbacks #%d and #%d share the address 0x%x" % (tag, addrs[a], k, a))
        addrs[a] = k
        f = ffi.cast(sig, cb)          # call through the C address, via libffi
        try:
            ok = test(f) and test(cb)
        except Exception as e:
            ok = False
        if not ok:
            bad.append("%s: callback #%d does not invoke its own function" % (tag, k))
    return len(addrs)


n = 0
for round_ in range(6):
    for _ in range(1500):
        live[n] = make(n)
        n += 1
    check_all("round %d after creating" % round_)
    for k in rnd.sample(sorted(live), len(live) // 2):
        del live[k]
    gc.collect()
    check_all("round %d after dropping half" % round_)
    if bad:
        break
# a callback created WHILE another one is being destroyed (from a __del__ reached through the dying callback's
# function): it may get the closure being released, and must still be bound to its own function afterwards
class Trigger(object):
    def __init__(self, out):
        self.out = out

    def __del__(self):
        k = len(self.out)
        self.out.append(ffi.callback("long(long)", lambda x, k=k: x + 7000 + k))


made = []
for j in range(5):
    t = Trigger(made)
    cb = ffi.callback("int(int)", lambda x, t=t: x)
    del t
    del cb
gc.collect()
for k, cb in enumerate(made):
    f = ffi.cast("long(*)(long)", cb)
    if f(1) != 1 + 7000 + k or cb(2) != 2 + 7000 + k:
        bad.append("callback #%d created during the destruction of another one does not invoke its own function" % k)
if len(made) != 5:
    bad.append("expected 5 callbacks created from __del__, got %d" % len(made))
if bad:
    print("FAIL %d: %s" % (len(bad), " ;; ".join(bad[:3])))
    sys.exit(1)
print("ok %d callbacks created, %d alive at the end" % (n, len(live)))
