"""Contracts for ffi.cast to integer types and int() of the result (C04)."""
import z3

from .base import (R, BV, B64, Contract, Frame, Ctx, int_w, int_m, is_long, has_flag, sx, zx, wv, exc, py_type,
                   bool_objects, kind_flags_exclusive, TPFLAGS_BYTES, TPFLAGS_UNICODE, pyint_axiom)
from .ints import (flag, ctype_fields, ctype_wf, is_int_ctype, byte_reader, size_ok, CT_PRIMITIVE_SIGNED,
                   CT_PRIMITIVE_UNSIGNED, CT_PRIMITIVE_CHAR, CT_PRIMITIVE_FITS_LONG, CT_IS_BOOL, CT_POINTER,
                   CT_FUNCTIONPTR, CT_ARRAY, CT_PRIMITIVE_FLOAT)
from specs import ints as S

R.inline |= {'_convert_to_char'}

CDATA_TYPES = ['CData_Type', 'CDataOwning_Type', 'CDataOwningGC_Type', 'CDataFromBuf_Type', 'CDataGCP_Type']
DATAOFFSET = 48         # offsetof(CDataObject_casted_primitive, alignment): checked by an obligation below


def is_cdata(c, st, o):
    t = py_type(c, st, o)
    return z3.Or(*[t == c.ex.global_addr(n) for n in CDATA_TYPES])


def is_cfunction(c, st, o):
    pcf = c.ex.global_addr('PyCFunction_Type')
    sub = R.ghost('is_subtype', B64, B64, z3.BoolSort())
    t = py_type(c, st, o)
    return z3.Or(t == pcf, sub(t, pcf))


def cdata_fields(c, st, cd):
    return c.field(st, cd, 'CDataObject', 'c_type'), c.field(st, cd, 'CDataObject', 'c_data')


def pointer_like(c, st, ct):
    fl = c.field(st, ct, 'CTypeDescrObject', 'ct_flags')
    return z3.Or(flag(fl, CT_POINTER), flag(fl, CT_FUNCTIONPTR), flag(fl, CT_ARRAY))


def low_bytes(v64, size):
    return z3.If(size == 8, v64, v64 & ((BV(1, 64) << (8 * size)) - 1))


@R.add
class _new_casted_primitive(Contract):
    """a fresh CData object whose data area of ct_size bytes follows the header"""
    name = '_new_casted_primitive'

    def pre(self, c):
        size, flags = ctype_fields(c, c.old, c['ct'])
        return [('ct-valid', c.valid(c['ct'], 104)), ('size-sane', z3.And(size >= 0, size <= 64))]

    def frame(self, c):
        return Frame()

    def allocates(self, c):
        size, flags = ctype_fields(c, c.old, c['ct'])
        return [(c.result, BV(DATAOFFSET, 64) + size)]

    def post(self, c):
        r = c.result
        ctype, cdata = cdata_fields(c, c.new, r)
        return [('fresh-cdata-object', z3.And(r != 0, py_type(c, c.new, r) == c.ex.global_addr('CData_Type'))),
                ('c_type-is-ct', ctype == c['ct']),
                ('c_data-follows-the-header', cdata == r + BV(DATAOFFSET, 64)),
                ('error-indicator-untouched', c.new.err == c.old.err)]


@R.add
class new_simple_cdata(Contract):
    name = 'new_simple_cdata'

    def pre(self, c):
        return [('ct-valid', c.valid(c['ct'], 104))]

    def allocates(self, c):
        return [(c.result, BV(40, 64))]

    def post(self, c):
        r = c.result
        ctype, cdata = cdata_fields(c, c.new, r)
        return [('fresh-cdata-object', z3.And(r != 0, py_type(c, c.new, r) == c.ex.global_addr('CData_Type'))),
                ('c_type-is-ct', ctype == c['ct']), ('c_data-is-the-address-given', cdata == c['data']),
                ('error-indicator-untouched', c.new.err == c.old.err)]


@R.add
class try_extract_directfnptr(Contract):
    """trusted (lib_obj.c, not verified here): returns NULL unless x is a C function object built by a cffi lib"""
    name = 'try_extract_directfnptr'
    trusted = True

    def frame(self, c):
        return Frame(err=True, all_fields=True)

    def post(self, c):
        pcf = c.ex.global_addr('PyCFunction_Type')
        sub = R.ghost('is_subtype', B64, B64, z3.BoolSort())
        t = py_type(c, c.old, c['x'])
        return [('not a builtin function object: NULL, no error',
                 z3.Implies(z3.Not(z3.Or(t == pcf, sub(t, pcf))), z3.And(c.result == 0, c.new.err == c.old.err)))]


@R.add
class _my_PyObject_AsBool(Contract):
    name = '_my_PyObject_AsBool'

    def pre(self, c):
        return [('ob-valid', c.valid(c['ob'], 16))]

    def scope(self, c):
        return [('python-int', is_long(c, c.old, c['ob']))]

    def frame(self, c):
        return Frame(err=True, havoc_if=z3.Not(is_long(c, c.old, c['ob'])))

    def witness(self, c):
        return {'v_sat80': int_w(c['ob'])}

    def post(self, c):
        return [('int: 1 iff non-zero, error indicator untouched',
                 z3.Implies(is_long(c, c.old, c['ob']),
                            z3.And(c.result == z3.If(int_w(c['ob']) != wv(0), BV(1, 32), BV(0, 32)),
                                   c.new.err == c.old.err)))]


class _Cast(Contract):
    """cast_to_integer_or_char, proved for integer target types (incl. _Bool) and sources that are
    Python ints (incl. bool), 1-byte bytes objects, or pointer/array/function cdata."""
    name = 'cast_to_integer_or_char'

    def src(self, c):
        ob = c['ob']
        st = c.old
        sct, sdata = cdata_fields(c, st, ob)
        is_ptr = z3.And(is_cdata(c, st, ob), pointer_like(c, st, sct))
        is_int = is_long(c, st, ob)
        is_b1 = z3.And(has_flag(c, st, ob, TPFLAGS_BYTES), c.field(st, ob, 'PyVarObject', 'ob_size') == 1)
        return is_ptr, is_int, is_b1, sdata

    def pre(self, c):
        size, flags = ctype_fields(c, c.old, c['ct'])
        sct, sdata = cdata_fields(c, c.old, c['ob'])
        return [('ctype-wf', ctype_wf(c, c.old, c['ct'])), ('ob-valid', c.valid(c['ob'], 48)),
                ('no-pending-exception', c.old.err == 0),
                ('source-type-flags-exclusive', kind_flags_exclusive(c, c.old, c['ob'])),
                ('cdata-source-has-a-valid-ctype', z3.Implies(is_cdata(c, c.old, c['ob']), c.valid(sct, 104))),
                ('builtin-types-are-not-cdata-types',
                 z3.Implies(z3.Or(is_long(c, c.old, c['ob']), has_flag(c, c.old, c['ob'], TPFLAGS_BYTES),
                                  has_flag(c, c.old, c['ob'], TPFLAGS_UNICODE)),
                            z3.Not(is_cdata(c, c.old, c['ob'])))),
                ('ints-bytes-cdata-are-not-builtin-function-objects',
                 z3.Implies(z3.Or(is_long(c, c.old, c['ob']), has_flag(c, c.old, c['ob'], TPFLAGS_BYTES),
                                  is_cdata(c, c.old, c['ob'])), z3.Not(is_cfunction(c, c.old, c['ob'])))),
                ('bool-objects', bool_objects(c.ex, c.old))]

    def in_scope(self, c):
        is_ptr, is_int, is_b1, sdata = self.src(c)
        return z3.And(is_int_ctype(c, c.old, c['ct']), z3.Or(is_ptr, is_int, is_b1))

    def scope(self, c):
        return [('integer-target-and-supported-source', self.in_scope(c))]

    def frame(self, c):
        return Frame(err=True, havoc_if=z3.Not(self.in_scope(c)))

    def allocates(self, c):
        size, flags = ctype_fields(c, c.old, c['ct'])
        return [(c.result, BV(DATAOFFSET, 64) + size)]

    def witness(self, c):
        size, flags = ctype_fields(c, c.old, c['ct'])
        is_ptr, is_int, is_b1, sdata = self.src(c)
        return {'size': size, 'flags': flags, 'v_sat80': int_w(c['ob']), 'v_mod64': int_m(c['ob']),
                'src_kind': z3.If(is_ptr, BV(2, 8), z3.If(is_int, BV(0, 8), BV(1, 8))), 'src_addr': sdata,
                'src_byte': z3.Select(c.old.raw, c['ob'] + 32)}

    def expected64(self, c):
        """the 64-bit value whose low ct_size bytes are stored: x mod 2^64 (x != 0 for _Bool)"""
        size, flags = ctype_fields(c, c.old, c['ct'])
        is_ptr, is_int, is_b1, sdata = self.src(c)
        byte0 = z3.ZeroExt(56, z3.Select(c.old.raw, c['ob'] + 32))          # ob_sval[0] of a bytes object
        x = z3.If(is_ptr, sdata, z3.If(is_int, int_m(c['ob']), byte0))
        nonzero = z3.If(is_ptr, sdata != 0, z3.If(is_int, int_w(c['ob']) != wv(0), byte0 != 0))
        return z3.If(flag(flags, CT_IS_BOOL), z3.If(nonzero, BV(1, 64), BV(0, 64)), x)

    def post(self, c):
        size, flags = ctype_fields(c, c.old, c['ct'])
        sc = self.in_scope(c)
        r = c.result
        ctype, cdata = cdata_fields(c, c.new, r)
        stored = S.le_unit(byte_reader(c.new), cdata, size)
        return [
            ('succeeds', z3.Implies(sc, z3.And(r != 0, c.new.err == 0))),
            ('result-has-the-target-type', z3.Implies(sc, ctype == c['ct'])),
            ('stored-value-is-x-mod-2^(8*size) (0/1 for _Bool)',
             z3.Implies(sc, stored == low_bytes(self.expected64(c), size))),
        ]


R.add(_Cast)


class _DoCast(_Cast):
    """do_cast: (A) integer targets dispatch to cast_to_integer_or_char; (B) pointer/array/function-pointer
    targets with a pointer-like cdata source alias the source address"""
    name = 'do_cast'

    def ptr_scope(self, c):
        size, flags = ctype_fields(c, c.old, c['ct'])
        is_ptr, is_int, is_b1, sdata = self.src(c)
        return z3.And(pointer_like(c, c.old, c['ct']), size >= 0, is_ptr)

    def int_scope(self, c):
        return _Cast.in_scope(self, c)

    def in_scope(self, c):
        return z3.Or(self.int_scope(c), self.ptr_scope(c))

    def allocates(self, c):
        size, flags = ctype_fields(c, c.old, c['ct'])
        return [(c.result, z3.If(self.ptr_scope(c), BV(40, 64), BV(DATAOFFSET, 64) + size))]

    def post(self, c):
        size, flags = ctype_fields(c, c.old, c['ct'])
        r = c.result
        ctype, cdata = cdata_fields(c, c.new, r)
        is_ptr, is_int, is_b1, sdata = self.src(c)
        stored = S.le_unit(byte_reader(c.new), cdata, size)
        a, b = self.int_scope(c), self.ptr_scope(c)
        return [
            ('succeeds', z3.Implies(z3.Or(a, b), z3.And(r != 0, c.new.err == 0))),
            ('result-has-the-target-type', z3.Implies(z3.Or(a, b), ctype == c['ct'])),
            ('integer target: stored value is x mod 2^(8*size) (0/1 for _Bool)',
             z3.Implies(a, stored == low_bytes(self.expected64(c), size))),
            ('pointer target: same address as the source', z3.Implies(b, cdata == sdata)),
        ]


R.add(_DoCast)


class _CdataInt(Contract):
    """int(cdata) for integer ctypes: the stored value read with the type's signedness"""
    name = 'cdata_int'

    def pre(self, c):
        ct, data = cdata_fields(c, c.old, c['cd'])
        size, flags = ctype_fields(c, c.old, ct)
        return [('cd-valid', c.valid(c['cd'], 40)), ('ctype-wf', ctype_wf(c, c.old, ct)),
                ('data-valid', z3.Implies(is_int_ctype(c, c.old, ct), c.valid(data, size))),
                ('bool-objects', bool_objects(c.ex, c.old)), ('no-pending-exception', c.old.err == 0)]

    def in_scope(self, c):
        ct, data = cdata_fields(c, c.old, c['cd'])
        size, flags = ctype_fields(c, c.old, ct)
        return z3.And(is_int_ctype(c, c.old, ct),
                      z3.Implies(flag(flags, CT_IS_BOOL), z3.ULE(S.le_unit(byte_reader(c.old), data, size), 1)))

    def scope(self, c):
        return [('integer-ctype (a _Bool holds 0 or 1)', self.in_scope(c))]

    def frame(self, c):
        return Frame(err=True, havoc_if=z3.Not(self.in_scope(c)))

    def witness(self, c):
        ct, data = cdata_fields(c, c.old, c['cd'])
        size, flags = ctype_fields(c, c.old, ct)
        return {'size': size, 'flags': flags, 'unit': S.le_unit(byte_reader(c.old), data, size)}

    def post(self, c):
        ct, data = cdata_fields(c, c.old, c['cd'])
        size, flags = ctype_fields(c, c.old, ct)
        unit = S.le_unit(byte_reader(c.old), data, size)
        val = z3.If(flag(flags, CT_PRIMITIVE_SIGNED), S.wide(S.signed_of_unit(unit, size), True), S.wide(unit, False))
        r = c.result
        return [('int object holding the stored value',
                 z3.Implies(self.in_scope(c), z3.And(r != 0, is_long(c, c.new, r), S.wide(int_w(r), True) == val,
                                                     c.new.err == 0)))]


R.add(_CdataInt)
