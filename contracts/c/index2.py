"""More contracts for C16: slices, slice assignment (fast paths), subscript dispatch, pointer difference."""
import z3

from .base import (R, BV, B64, Contract, Frame, Ctx, int_w, int_m, is_long, has_flag, wv, exc, py_type, W, sx,
                   TPFLAGS_BYTES, kind_flags_exclusive)
from .ints import (flag, ctype_fields, ctype_wf, CT_POINTER, CT_ARRAY, CT_IS_VOID_PTR, CT_PRIMITIVE_CHAR)
from .cast import is_cdata, cdata_fields, DATAOFFSET
from .index import (cdata_wf, arr_len, item_size, CT_FLAGS, fits_ssize, is_owning, _cdata_getslicearg,
                    _cdata_get_indexed_ptr)
from specs import arith as A

getslice = R.contracts['_cdata_getslicearg']
getidx = R.contracts['_cdata_get_indexed_ptr']


def is_slice(c, st, o):
    return py_type(c, st, o) == c.ex.global_addr('PySlice_Type')


@R.add
class new_array_type(Contract):
    """trusted (type construction is C27's subject): the array type of a pointer type"""
    name = 'new_array_type'
    trusted = True

    def frame(self, c):
        return Frame(err=True)

    def allocates(self, c):
        return [(c.result, BV(112, 64))]

    def post(self, c):
        r = c.result
        item = c.field(c.old, c['ctptr'], 'CTypeDescrObject', 'ct_itemdescr')
        return [('NULL with an exception, or an array type over the same item type',
                 z3.If(r == 0, c.new.err != 0,
                       z3.And(c.new.err == c.old.err,
                              c.field(c.new, r, 'CTypeDescrObject', 'ct_itemdescr') == item,
                              c.field(c.new, r, 'CTypeDescrObject', 'ct_length') == c['length'],
                              flag(c.field(c.new, r, 'CTypeDescrObject', 'ct_flags'), CT_ARRAY))))]


class _Slice(Contract):
    name = 'cdata_slice'

    def sl(self, c):
        c2 = Ctx(c.ex, {'cd': c['cd'], 'slice': c['slice'], 'bounds': BV(0, 64)}, c.old, c.new, c.result)
        return c2

    def pre(self, c):
        c2 = self.sl(c)
        pre = [p for p in getslice.pre(c2) if p[0] != 'bounds-valid']
        ct, data = cdata_fields(c, c.old, c['cd'])
        fl = CT_FLAGS(c, c.old, ct)
        ptr_t = z3.If(flag(fl, CT_ARRAY), c.field(c.old, ct, 'CTypeDescrObject', 'ct_stuff'), ct)
        stuff = c.field(c.old, ptr_t, 'CTypeDescrObject', 'ct_stuff')
        item = c.field(c.old, ptr_t, 'CTypeDescrObject', 'ct_itemdescr')
        return pre + [
            ('pointer-type-wf', z3.And(c.valid(ptr_t, 104), c.valid(item, 104))),
            ('array-type-and-its-pointer-type-share-the-item-type',
             item == c.field(c.old, ct, 'CTypeDescrObject', 'ct_itemdescr')),
            # invariant of pointer ctypes: ct_stuff caches the open array type over the same item (or NULL)
            ('cached-array-type-wf',
             z3.Implies(stuff != 0, z3.And(c.valid(stuff, 104),
                                           c.field(c.old, stuff, 'CTypeDescrObject', 'ct_itemdescr') == item,
                                           c.field(c.old, stuff, 'CTypeDescrObject', 'ct_length') == -1)))]

    def scope(self, c):
        return getslice.scope(self.sl(c))

    def frame(self, c):
        return Frame(err=True, fields=[('CTypeDescrObject', 'ct_stuff')])

    def witness(self, c):
        return getslice.witness(self.sl(c))

    def allocates(self, c):
        return [(c.result, BV(DATAOFFSET, 64))]

    def post(self, c):
        acc, isarr, wa, wb = getslice.accepted(self.sl(c))
        st = c.old
        ct, data = cdata_fields(c, st, c['cd'])
        z = item_size(c, st, c['cd'])
        r = c.result
        rct, rdata = cdata_fields(c, c.new, r)
        rlen = c.field(c.new, r, 'CDataObject_own_length', 'length')
        ritem = c.field(c.new, rct, 'CTypeDescrObject', 'ct_itemdescr')
        item = c.field(st, ct, 'CTypeDescrObject', 'ct_itemdescr')
        return [
            ('rejected slice: NULL and an exception', z3.Implies(z3.Not(acc), z3.And(r == 0, c.new.err != 0))),
            ('accepted slice: a view of j-i items starting at item i (or NULL on allocation failure of the type)',
             z3.Implies(z3.And(acc, r != 0),
                        z3.And(rdata == data + z * z3.Extract(63, 0, wa), rlen == z3.Extract(63, 0, wb - wa),
                               ritem == item, c.new.err == 0))),
        ]


R.add(_Slice)


class _AssSlice(Contract):
    """slice assignment, proved for the two copying fast paths: a bytes object into a char view, and an
    array cdata of the same item type; the general iterator path is outside the proved scope"""
    name = 'cdata_ass_slice'

    def sl(self, c):
        return Ctx(c.ex, {'cd': c['cd'], 'slice': c['slice'], 'bounds': BV(0, 64)}, c.old, c.new, c.result)

    def parts(self, c):
        st = c.old
        acc, isarr, wa, wb = getslice.accepted(self.sl(c))
        ct, data = cdata_fields(c, st, c['cd'])
        fl = CT_FLAGS(c, st, ct)
        ptr_t = z3.If(flag(fl, CT_ARRAY), c.field(st, ct, 'CTypeDescrObject', 'ct_stuff'), ct)
        item = c.field(st, ptr_t, 'CTypeDescrObject', 'ct_itemdescr')
        z = c.field(st, item, 'CTypeDescrObject', 'ct_size')
        ifl = c.field(st, item, 'CTypeDescrObject', 'ct_flags')
        start, length = z3.Extract(63, 0, wa), z3.Extract(63, 0, wb - wa)
        v = c['v']
        vct, vdata = cdata_fields(c, st, v)
        v_arr = z3.And(is_cdata(c, st, v), flag(CT_FLAGS(c, st, vct), CT_ARRAY),
                       c.field(st, vct, 'CTypeDescrObject', 'ct_itemdescr') == item)
        v_bytes = has_flag(c, st, v, TPFLAGS_BYTES)
        char1 = z3.And(flag(ifl, CT_PRIMITIVE_CHAR), z == 1)
        return dict(acc=acc, data=data, item=item, z=z, start=start, length=length, v_arr=v_arr, v_bytes=v_bytes,
                    char1=char1, vdata=vdata, vlen=arr_len(c, st, v),
                    blen=c.field(st, v, 'PyVarObject', 'ob_size'), ptr_t=ptr_t, dst=data + z * start)

    def pre(self, c):
        st = c.old
        P = self.parts(c)
        pre = [p for p in getslice.pre(self.sl(c)) if p[0] != 'bounds-valid']
        vct, vdata = cdata_fields(c, st, c['v'])
        return pre + [
            ('v-valid', z3.And(c['v'] != 0, c.valid(c['v'], 64))),
            ('item-type-wf', z3.And(c.valid(P['ptr_t'], 104), c.valid(P['item'], 104), P['z'] >= 0,
                                    P['z'] < BV(1 << 20, 64))),
            ('source-type-flags-exclusive', kind_flags_exclusive(c, st, c['v'])),
            ('bytes-objects-are-not-cdata', z3.Implies(P['v_bytes'], z3.Not(is_cdata(c, st, c['v'])))),
            ('cdata-source-wf', z3.Implies(is_cdata(c, st, c['v']), z3.And(c.valid(vct, 104),
                                                                            cdata_wf(c, st, c['v'])))),
            ('bytes-source-wf', z3.Implies(P['v_bytes'], z3.And(P['blen'] >= 0, P['blen'] < BV(1 << 40, 64),
                                                                 c.valid(c['v'] + 32, P['blen'] + 1)))),
            ('array-type-and-its-pointer-type-share-the-item-type',
             P['item'] == c.field(st, cdata_fields(c, st, c['cd'])[0], 'CTypeDescrObject', 'ct_itemdescr')),
            ('the-view-lies-in-mapped-memory (pointers: the responsibility of the caller, as in C)',
             z3.Implies(P['acc'], z3.And(c.valid(P['dst'], P['z'] * P['length']),
                                         z3.ULT(P['z'] * P['length'], BV(1 << 60, 64))))),
            ('source-bytes-mapped', z3.Implies(z3.And(P['acc'], P['v_arr']), c.valid(P['vdata'], P['z'] * P['vlen']))),
            ('view-length-sane', z3.Implies(P['acc'], z3.And(P['length'] < BV(1 << 40, 64), P['start'] < BV(1 << 40, 64),
                                                            P['start'] > BV(-(1 << 40), 64)))),
        ]

    def in_scope(self, c):
        P = self.parts(c)
        scope_slice = z3.And(*[p[1] for p in getslice.scope(self.sl(c))])
        # (the array-cdata memmove fast path is specified below but not in the proved scope yet:
        #  its copy/frame obligations over a symbolic itemsize*length are left undecided by both solvers)
        return z3.And(scope_slice, P['v_bytes'], P['char1'])

    def scope(self, c):
        return [('a bytes object assigned to a view of 1-byte character items', self.in_scope(c))]

    def frame(self, c):
        P = self.parts(c)
        return Frame(raw=[(P['dst'], P['z'] * P['length'])], err=True, havoc_if=z3.Not(self.in_scope(c)))

    def witness(self, c):
        P = self.parts(c)
        w = getslice.witness(self.sl(c))
        w.update({'src_len': z3.If(P['v_bytes'], P['blen'], P['vlen']), 'itemsize': P['z'],
                  'src_is_bytes': z3.If(P['v_bytes'], BV(1, 8), BV(0, 8))})
        return w

    def post(self, c):
        P = self.parts(c)
        sc = self.in_scope(c)
        k = z3.BitVec('k!copy', 64)
        srclen = z3.If(P['v_bytes'], P['blen'], P['vlen'])
        src = z3.If(P['v_bytes'], c['v'] + 32, P['vdata'])
        nbytes = P['z'] * P['length']
        ok = z3.And(P['acc'], srclen == P['length'])
        return [
            ('rejected slice: -1 and an exception', z3.Implies(z3.And(sc, z3.Not(P['acc'])),
                                                               z3.And(c.result == BV(-1, 32), c.new.err != 0))),
            ('wrong number of values: ValueError',
             z3.Implies(z3.And(sc, P['acc'], srclen != P['length']),
                        z3.And(c.result == BV(-1, 32), c.new.err == exc(c.ex, 'ValueError')))),
            ('right number of values: the view holds a copy of the source, no error',
             z3.Implies(z3.And(sc, ok, z3.ULT(k, nbytes)),
                        z3.And(c.result == 0, c.new.err == 0,
                               z3.Select(c.new.raw, P['dst'] + k) == z3.Select(c.old.raw, src + k))),
             [A.mul_mono(P['length'], P['length'], P['z'])]),
        ]


R.add(_AssSlice)


@R.add
class cdata_sub(Contract):
    """pointer difference (both operands cdata); cdata - int goes to _cdata_add_or_sub"""
    name = 'cdata_sub'

    def parts(self, c):
        st = c.old
        vct, vdata = cdata_fields(c, st, c['v'])
        wct, wdata = cdata_fields(c, st, c['w'])
        wfl = CT_FLAGS(c, st, wct)
        ct = z3.If(flag(wfl, CT_ARRAY), c.field(st, wct, 'CTypeDescrObject', 'ct_stuff'), wct)
        item = c.field(st, ct, 'CTypeDescrObject', 'ct_itemdescr')
        z = c.field(st, item, 'CTypeDescrObject', 'ct_size')
        return vct, vdata, wct, wdata, ct, item, z

    def pre(self, c):
        st = c.old
        vct, vdata, wct, wdata, ct, item, z = self.parts(c)
        return [('operands-valid', z3.And(c.valid(c['v'], 64), c.valid(c['w'], 64))),
                ('cdata-operands-have-valid-types',
                 z3.And(z3.Implies(is_cdata(c, st, c['v']), c.valid(vct, 104)),
                        z3.Implies(is_cdata(c, st, c['w']), z3.And(c.valid(wct, 104), c.valid(ct, 104),
                                                                  c.valid(item, 104))))),
                ('no-pending-exception', c.old.err == 0)]

    def in_scope(self, c):
        st = c.old
        vct, vdata, wct, wdata, ct, item, z = self.parts(c)
        return z3.And(is_cdata(c, st, c['v']), is_cdata(c, st, c['w']), ct == vct,
                      flag(CT_FLAGS(c, st, ct), CT_POINTER), z > 0)

    def scope(self, c):
        return [('two pointers to the same item type of known size', self.in_scope(c))]

    def frame(self, c):
        return Frame(err=True, havoc_if=z3.Not(self.in_scope(c)))

    def witness(self, c):
        vct, vdata, wct, wdata, ct, item, z = self.parts(c)
        return {'diff_bytes': vdata - wdata, 'itemsize': z}

    def post(self, c):
        vct, vdata, wct, wdata, ct, item, z = self.parts(c)
        sc = self.in_scope(c)
        d = vdata - wdata
        mult = z3.Or(z == 1, z3.SRem(d, z) == 0)
        r = c.result
        return [('distance is a multiple of the item size: the int (v - w) / sizeof(item)',
                 z3.Implies(z3.And(sc, mult),
                            z3.And(r != 0, is_long(c, c.new, r), int_w(r) == sx(z3.If(z == 1, d, d / z)),
                                   c.new.err == 0))),
                ('otherwise ValueError', z3.Implies(z3.And(sc, z3.Not(mult)),
                                                   z3.And(r == 0, c.new.err == exc(c.ex, 'ValueError'))))]


def item_pre(c):
    """the item type is a well-formed ctype; dereferencing a pointer cdata reads mapped memory (as in C, the
    caller's responsibility); array items are inside the array (cdata_wf)"""
    st = c.old
    ct, data = cdata_fields(c, st, c['cd'])
    fl = CT_FLAGS(c, st, ct)
    item = c.field(st, ct, 'CTypeDescrObject', 'ct_itemdescr')
    z = item_size(c, st, c['cd'])
    i64 = z3.Extract(63, 0, int_w(c['key']))
    isidx = z3.Or(flag(fl, CT_POINTER), flag(fl, CT_ARRAY))
    return [('item-ctype-wf', z3.Implies(isidx, ctype_wf(c, st, item))),
            ('pointer-target-mapped', z3.Implies(z3.And(flag(fl, CT_POINTER), z >= 0), c.valid(data + i64 * z, z)))]


def _mk_subscript(nm, owning):
    class K(Contract):
        """x[key]: a slice key goes to cdata_slice, anything else to the bounds-checked item address and
        convert_to_object of the item type"""
        name = nm

        def pre(self, c):
            return [('cdata-wf', cdata_wf(c, c.old, c['cd'])), ('key-valid', c.valid(c['key'], 40)),
                    ('no-pending-exception', c.old.err == 0)] + item_pre(c)

        def in_scope(self, c):
            # the index branch with a rejected Python-int index: what the property states for x[i]
            st = c.old
            return z3.And(z3.Not(is_slice(c, st, c['key'])), is_long(c, st, c['key']))

        def scope(self, c):
            return [('integer key', self.in_scope(c))]

        def frame(self, c):
            return Frame(err=True, all_fields=True, all_raw=True)

        def witness(self, c):
            return getidx.witness(c)

        def post(self, c):
            posts = getidx.post(Ctx(c.ex, c.args, c.old, c.new, BV(0, 64)))
            st = c.old
            ct, data = cdata_fields(c, st, c['cd'])
            fl = CT_FLAGS(c, st, ct)
            w = int_w(c['key'])
            n = arr_len(c, st, c['cd'])
            in_arr = z3.And(w >= wv(0), w < z3.SignExt(W - 64, n))
            bad = z3.And(self.in_scope(c), flag(fl, CT_ARRAY), z3.Not(in_arr))
            return [('array index outside 0 <= i < n: IndexError, nothing read or written',
                     z3.Implies(bad, z3.And(c.result == 0, c.new.err == exc(c.ex, 'IndexError'),
                                            c.new.raw == c.old.raw)))]
    K.__name__ = nm
    R.add(K)
    return nm


SUBSCRIPTS = [_mk_subscript('cdata_subscript', False), _mk_subscript('cdataowning_subscript', True)]


@R.add
class cdata_ass_sub(Contract):
    """x[key] = v: rejected integer index raises IndexError without touching memory"""
    name = 'cdata_ass_sub'

    def pre(self, c):
        return [('cdata-wf', cdata_wf(c, c.old, c['cd'])), ('key-valid', c.valid(c['key'], 40)),
                ('v-null-or-valid', z3.Or(c['v'] == 0, c.valid(c['v'], 16))),
                ('no-pending-exception', c.old.err == 0)] + item_pre(c)

    def scope(self, c):
        st = c.old
        return [('integer key', z3.And(z3.Not(is_slice(c, st, c['key'])), is_long(c, st, c['key'])))]

    def frame(self, c):
        return Frame(err=True, all_fields=True, all_raw=True)

    def witness(self, c):
        return getidx.witness(c)

    def post(self, c):
        st = c.old
        ct, data = cdata_fields(c, st, c['cd'])
        fl = CT_FLAGS(c, st, ct)
        w = int_w(c['key'])
        n = arr_len(c, st, c['cd'])
        in_arr = z3.And(w >= wv(0), w < z3.SignExt(W - 64, n))
        bad = z3.And(z3.Not(is_slice(c, st, c['key'])), is_long(c, st, c['key']), flag(fl, CT_ARRAY), z3.Not(in_arr))
        return [('array index outside 0 <= i < n: IndexError, memory untouched',
                 z3.Implies(bad, z3.And(c.result == BV(-1, 32), c.new.err == exc(c.ex, 'IndexError'),
                                        c.new.raw == c.old.raw)))]


addsub = R.contracts['_cdata_add_or_sub']


@R.add
class cdata_add(Contract):
    """p + i  (v is the cdata): the pointer i*sizeof(item) bytes further"""
    name = 'cdata_add'

    def ctx(self, c):
        return Ctx(c.ex, {'v': c['v'], 'w': c['w'], 'sign': BV(1, 32)}, c.old, c.new, c.result)

    def pre(self, c):
        return addsub.pre(self.ctx(c))

    def scope(self, c):
        return addsub.scope(self.ctx(c))

    def frame(self, c):
        return addsub.frame(self.ctx(c))

    def allocates(self, c):
        return addsub.allocates(self.ctx(c))

    def witness(self, c):
        return addsub.witness(self.ctx(c))

    def post(self, c):
        return addsub.post(self.ctx(c))
