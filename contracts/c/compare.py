"""Contracts for cdata comparison and hashing (C17)."""
import z3

from .base import (R, BV, B64, Contract, Frame, LoopSpec, Ctx, int_w, is_long, wv, exc, sx, py_type, b2i,
                   bool_objects, pyint_axiom)
from .ints import (flag, ctype_fields, ctype_wf, is_int_ctype, byte_reader, CT_PRIMITIVE_SIGNED, CT_IS_BOOL,
                   CT_PRIMITIVE_FLOAT, CT_PRIMITIVE_CHAR, CT_PRIMITIVE_COMPLEX, CT_PRIMITIVE_UNSIGNED)
from .cast import is_cdata, cdata_fields
from specs import ints as S
from vf.cfront import line_of
from vf.cexec import CaseOf, NotSupported

CT_PRIMITIVE_ANY = 0x001 | 0x002 | 0x004 | 0x008 | 0x400
hash_of_int = z3.Function('hash_of_int', z3.BitVecSort(80), B64)       # Python's hash of an int value (T-API)
hash_of_ptr = z3.Function('hash_of_pointer', B64, B64)


def OPS(x, y, signed=False):
    lt = (x < y) if signed else z3.ULT(x, y)
    le = (x <= y) if signed else z3.ULE(x, y)
    return {0: lt, 1: le, 2: x == y, 3: x != y, 4: z3.Not(le), 5: z3.Not(lt)}


def FOPS(x, y):
    """IEEE-754 comparisons, as Python's float comparisons are"""
    return {0: z3.fpLT(x, y), 1: z3.fpLEQ(x, y), 2: z3.fpEQ(x, y), 3: z3.Not(z3.fpEQ(x, y)), 4: z3.fpGT(x, y), 5: z3.fpGEQ(x, y)}


def is_pyfloat(c, st, o):
    return py_type(c, st, o) == c.ex.global_addr('PyFloat_Type')


@R.model('PyObject_RichCompare', "for two int objects (incl. bool): Py_True / Py_False according to the comparison of "
                                 "their values; for two float objects: according to the IEEE-754 comparison of their "
                                 "values; for other objects: arbitrary code (havoc), any result")
def _richcompare(ex, st, args, n):
    from .ints import float_val
    a, b, op = args
    c = Ctx(ex, {}, st)
    both = z3.And(is_long(c, st, a), is_long(c, st, b))
    bothf = z3.And(is_pyfloat(c, st, a), is_pyfloat(c, st, b))
    st.assume(pyint_axiom(a))
    x, y = int_w(a), int_w(b)
    t, f = ex.global_addr('_Py_TrueStruct'), ex.global_addr('_Py_FalseStruct')
    table = OPS(x, y, signed=True)
    ftable = FOPS(float_val(a), float_val(b))
    res = ex.fresh('richcmp_other', B64)
    for k in range(5, -1, -1):
        res = z3.If(z3.And(both, op == k), z3.If(table[k], t, f), z3.If(z3.And(bothf, op == k), z3.If(ftable[k], t, f), res))
    from .base import _havoc_unless
    _havoc_unless(ex, st, z3.Or(both, bothf), 'PyObject_RichCompare')
    return res


@R.model('PyObject_Hash', "for an int object: Python's hash of its value (a function of the value); others: arbitrary")
def _hash(ex, st, args, n):
    o = args[0]
    c = Ctx(ex, {}, st)
    other = ex.fresh('hash_other', B64)
    return z3.If(is_long(c, st, o), hash_of_int(int_w(o)), other)


R.models['_Py_HashPointer'] = lambda ex, st, args, n: hash_of_ptr(args[0])
R.assumed['_Py_HashPointer'] = "a function of the address"
R.models['Py_HashPointer'] = R.models['_Py_HashPointer']


def is_ptr_like(c, st, o):
    ct, data = cdata_fields(c, st, o)
    fl = c.field(st, ct, 'CTypeDescrObject', 'ct_flags')
    return (fl & BV(CT_PRIMITIVE_ANY, 32)) == 0


def int_value(c, st, cd):
    """the Python value an integer cdata converts to (WIDE)"""
    ct, data = cdata_fields(c, st, cd)
    size, flags = ctype_fields(c, st, ct)
    unit = S.le_unit(byte_reader(st), data, size)
    return z3.If(flag(flags, CT_PRIMITIVE_SIGNED), z3.SignExt(16, S.signed_of_unit(unit, size)), z3.ZeroExt(16, unit))


def int_cdata(c, st, o):
    """o is a cdata of integer type (not _Bool) with valid data"""
    ct, data = cdata_fields(c, st, o)
    size, flags = ctype_fields(c, st, ct)
    return z3.And(is_cdata(c, st, o), is_int_ctype(c, st, ct), z3.Not(flag(flags, CT_IS_BOOL)))


def float_cdata(c, st, o):
    """o is a cdata of type float or double (not long double)"""
    ct, data = cdata_fields(c, st, o)
    size, flags = ctype_fields(c, st, ct)
    return z3.And(is_cdata(c, st, o), flag(flags, CT_PRIMITIVE_FLOAT), (flags & 0x40000) == 0)


def cdata_ok(c, st, o):
    ct, data = cdata_fields(c, st, o)
    size, flags = ctype_fields(c, st, ct)
    return z3.Implies(is_cdata(c, st, o),
                      z3.And(c.valid(o, 40), ctype_wf(c, st, ct),
                             z3.Implies(z3.Or(is_int_ctype(c, st, ct), flag(flags, CT_PRIMITIVE_FLOAT)), c.valid(data, size))))


@R.add
class cdata_richcompare(Contract):
    name = 'cdata_richcompare'

    def pre(self, c):
        st = c.old
        return [('v is a cdata', z3.And(is_cdata(c, st, c['v']), cdata_ok(c, st, c['v']))),
                ('w valid', z3.And(c.valid(c['w'], 40), cdata_ok(c, st, c['w']))),
                ('op is one of the six comparison codes', z3.And(c['op'] >= 0, c['op'] <= 5)),
                ('bool-objects', bool_objects(c.ex, st)), ('no-pending-exception', st.err == 0),
                ('ints are not cdata', z3.Implies(is_long(c, st, c['w']), z3.Not(is_cdata(c, st, c['w']))))]

    def cases(self, c):
        st = c.old
        v, w = c['v'], c['w']
        vp = is_ptr_like(c, st, v)
        wp = z3.And(is_cdata(c, st, w), is_ptr_like(c, st, w))
        vi = int_cdata(c, st, v)
        wi = int_cdata(c, st, w)
        wint = is_long(c, st, w)
        return vp, wp, vi, wi, wint

    def both_float(self, c):
        return z3.And(float_cdata(c, c.old, c['v']), float_cdata(c, c.old, c['w']))

    def in_scope(self, c):
        vp, wp, vi, wi, wint = self.cases(c)
        return z3.Or(vp, wp, z3.And(vi, z3.Or(wi, wint)), self.both_float(c))

    def scope(self, c):
        return [('pointer-like operands, or integer cdata against integer cdata / Python int, or float/double cdata '
                 'against float/double cdata', self.in_scope(c))]

    def frame(self, c):
        return Frame(err=True, havoc_if=z3.Not(self.in_scope(c)))

    @property
    def loops(self):
        return {0: LoopSpec(unroll=2)}

    def witness(self, c):
        return {'op': c['op'], 'v_addr': cdata_fields(c, c.old, c['v'])[1], 'w_addr': cdata_fields(c, c.old, c['w'])[1]}

    def post(self, c):
        st = c.old
        vp, wp, vi, wi, wint = self.cases(c)
        t, f = c.ex.global_addr('_Py_TrueStruct'), c.ex.global_addr('_Py_FalseStruct')
        ni = c.ex.global_addr('_Py_NotImplementedStruct')
        va, wa = cdata_fields(c, st, c['v'])[1], cdata_fields(c, st, c['w'])[1]
        out = []
        addr = OPS(va, wa)
        vv = int_value(c, st, c['v'])
        w_c = int_value(c, st, c['w'])
        w_p = int_w(c['w'])
        for k, nm in enumerate(('<', '<=', '==', '!=', '>', '>=')):
            out.append(("both pointer-like: a %s b exactly as their addresses" % nm,
                        z3.Implies(z3.And(vp, wp, c['op'] == k), c.result == z3.If(addr[k], t, f))))
        ic, ip = OPS(vv, w_c, signed=True), OPS(vv, w_p, signed=True)
        vsz = ctype_fields(c, st, cdata_fields(c, st, c['v'])[0])[0]
        wsz = ctype_fields(c, st, cdata_fields(c, st, c['w'])[0])[0]
        for k, nm in enumerate(('<', '<=', '==', '!=', '>', '>=')):
            # one clause per operator and per pair of operand sizes: the six-way, all-sizes clause took 75-290 s of the
            # budget; with the sizes fixed each query takes seconds (the case split is exhaustive: sizes are 1, 2, 4, 8)
            for a in (1, 2, 4, 8):
                for b in (1, 2, 4, 8):
                    out.append(("integer cdata (%d bytes) against integer cdata (%d bytes): a %s b exactly as the Python "
                                "values they convert to" % (a, b, nm),
                                z3.Implies(z3.And(vi, wi), c.result == z3.If(ic[k], t, f)),
                                CaseOf([(c['op'], BV(k, 32)), (vsz, BV(a, 64)), (wsz, BV(b, 64))])))
                out.append(("integer cdata (%d bytes) against a Python int: a %s b exactly as the Python value it converts to"
                            % (a, nm), z3.Implies(z3.And(vi, wint), c.result == z3.If(ip[k], t, f)),
                            CaseOf([(c['op'], BV(k, 32)), (vsz, BV(a, 64))])))
        from .ints import stored_float
        fv = stored_float(c, st, va, vsz)
        fw = stored_float(c, st, wa, wsz)
        fops = FOPS(fv, fw)
        for k, nm in enumerate(('<', '<=', '==', '!=', '>', '>=')):
            for a in (4, 8):
                for b in (4, 8):
                    out.append(("float/double cdata (%d bytes) against float/double cdata (%d bytes): a %s b exactly as the "
                                "Python floats they convert to (IEEE-754: -0.0 == 0.0, nan != nan)" % (a, b, nm),
                                z3.Implies(self.both_float(c), c.result == z3.If(fops[k], t, f)),
                                CaseOf([(c['op'], BV(k, 32)), (vsz, BV(a, 64)), (wsz, BV(b, 64))])))
        out.append(('pointer-like against anything else: NotImplemented',
                    z3.Implies(z3.Xor(vp, wp), c.result == ni)))
        return out


@R.add
class cdata_hash(Contract):
    name = 'cdata_hash'

    def pre(self, c):
        st = c.old
        return [('v is a cdata', z3.And(is_cdata(c, st, c['v']), cdata_ok(c, st, c['v']))),
                ('bool-objects', bool_objects(c.ex, st)), ('no-pending-exception', st.err == 0)]

    def scope(self, c):
        st = c.old
        return [('pointer-like or integer cdata', z3.Or(is_ptr_like(c, st, c['v']), int_cdata(c, st, c['v'])))]

    def frame(self, c):
        st = c.old
        return Frame(err=True, havoc_if=z3.Not(z3.Or(is_ptr_like(c, st, c['v']), int_cdata(c, st, c['v']))))

    def post(self, c):
        st = c.old
        v = c['v']
        val80 = int_value(c, st, v)
        return [('integer cdata hash as the Python int they convert to',
                 z3.Implies(int_cdata(c, st, v), c.result == hash_of_int(val80))),
                ('pointer-like cdata hash by address',
                 z3.Implies(is_ptr_like(c, st, v), c.result == hash_of_ptr(cdata_fields(c, st, v)[1])))]
