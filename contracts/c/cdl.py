"""Contracts for the decoding side of out-of-line ABI modules (cdlopen.c, realize_c_type.c) -- C11, C12."""
import z3

from .base import (R, BV, B64, B8, Contract, Frame, Ctx, int_w, int_m, is_long, wv, exc, sx, zx, py_type,
                   pyint_axiom, b2i)
from vf.cfront import line_of
from vf.cexec import NotSupported

OP_CONSTANT_INT, OP_ENUM = 31, 11


def be32(c, st, p):
    """big-endian 32-bit value of the 4 bytes at p"""
    b = [z3.Select(st.raw, p + BV(k, 64)) for k in range(4)]
    return z3.Concat(b[0], b[1], b[2], b[3])


@R.add
class cdl_4bytes(Contract):
    name = 'cdl_4bytes'
    pure = True

    def pre(self, c):
        return [('src-valid', c.valid(c['src'], 4))]

    def post(self, c):
        return [('signed big-endian 32-bit value of src[0..4)', c.result == z3.SignExt(32, be32(c, c.old, c['src'])))]


@R.add
class cdl_opcode(Contract):
    name = 'cdl_opcode'
    pure = True

    def pre(self, c):
        return [('src-valid', c.valid(c['src'], 4))]

    def post(self, c):
        return [('the 4 bytes as a sign-extended opcode word', c.result == z3.SignExt(32, be32(c, c.old, c['src'])))]


@R.add
class _cdl_realize_global_int(Contract):
    """reads entry gindex of the cdl_intconst_t array stored right after the globals table"""
    name = '_cdl_realize_global_int'

    def entry(self, c):
        gc = c['gc']
        ctx = c.field(c.old, gc, 'struct _cffi_getconst_s', 'ctx')
        globs = c.field(c.old, ctx, 'struct _cffi_type_context_s', 'globals')
        n = c.field(c.old, ctx, 'struct _cffi_type_context_s', 'num_globals')
        gi = c.field(c.old, gc, 'struct _cffi_getconst_s', 'gindex')
        return globs + z3.SignExt(32, n) * 32 + z3.SignExt(32, gi) * 16

    def pre(self, c):
        return [('gc-valid', c.valid(c['gc'], 24))]

    def frame(self, c):
        return Frame(fields=[('struct _cffi_getconst_s', 'value')])

    def post(self, c):
        e = self.entry(c)
        return [('value and sign flag of the entry',
                 z3.And(c.field(c.new, c['gc'], 'struct _cffi_getconst_s', 'value') ==
                        c.field(c.old, e, 'cdl_intconst_t', 'value'),
                        c.result == c.field(c.old, e, 'cdl_intconst_t', 'neg')))]


class RealizeGlobalInt(Contract):
    """realize_global_int: the fetch function reports (neg, value); neg 0/1 give the exact integer, 2/3 (the
    compiler disagrees with the cdef: C12) raise ffi.error"""
    name = 'realize_global_int'

    def pre(self, c):
        return [('builder-valid', c.valid(c['builder'], 120)), ('no-pending-exception', c.old.err == 0)]

    def frame(self, c):
        return Frame(err=True, all_fields=True, all_raw=True)

    def witness(self, c):
        return {'neg': c.ex.ghost_neg, 'value': c.ex.ghost_value} if hasattr(c.ex, 'ghost_neg') else {}

    def post(self, c):
        neg, value = c.ex.ghost_neg, c.ex.ghost_value
        r = c.result
        ffierr = c.global_value(c.new, 'FFIError')
        return [('neg == 0: the unsigned value', z3.Implies(neg == 0, z3.And(r != 0, is_long(c, c.new, r),
                                                                        int_w(r) == zx(value)))),
                ('neg == 1: the value as a signed 64-bit number',
                 z3.Implies(neg == 1, z3.And(r != 0, is_long(c, c.new, r), int_w(r) == sx(value)))),
                ('any other flag: ffi.error, no value', z3.Implies(z3.And(neg != 0, neg != 1),
                                                                  z3.And(r == 0, c.new.err == ffierr)))]


R.add(RealizeGlobalInt)


def getconst_call(ex, st, args, n):
    """the call through g->address in realize_global_int: a constant-fetching function stores a 64-bit value
    into gc->value and returns a sign/mismatch flag (assumed contract of the generated or cdl fetch function)"""
    ex.ghost_neg = ex.fresh('fetched_neg', z3.BitVecSort(32))
    ex.ghost_value = ex.fresh('fetched_value', B64)
    ex.write_field(st, args[1], 'struct _cffi_getconst_s', 'value', ex.ghost_value)
    return ex.ghost_neg


@R.model('sprintf', "writes a formatted string into the (large enough) buffer; contents not modelled")
def _sprintf(ex, st, args, n):
    a = z3.BitVec('a!sp', 64)
    old = st.raw
    fresh = ex.fresh('sprintf_out', z3.ArraySort(B64, B8))
    st.raw = z3.Lambda([a], z3.If(z3.And(z3.UGE(a, args[0]), z3.ULT(a, args[0] + 64)), z3.Select(fresh, a),
                                  z3.Select(old, a)))
    return ex.fresh('sprintf_ret', z3.BitVecSort(32))


class GlobalsLoop(Contract):
    """ffiobj_init, second loop (unpacking of the `_globals` tuple): one iteration decodes entry i"""
    name = 'ffiobj_init#globals-loop'
    function = 'ffiobj_init'
    loop_ordinal = 1

    def items(self, c, st):
        g = c['globals']
        i = c['i']
        item = lambda k: c.raw(st, g + 24 + (i * 2 + k) * 8, 8)      # PyTuple_GET_ITEM: ob_item[] at offset 24
        return item(0), item(1)

    def pre(self, c):
        st = c.old
        name_o, val_o = self.items(c, st)
        n = c['n']
        return [('0 <= i < n', z3.And(c['i'] >= 0, c['i'] < n, n < BV(1 << 40, 64))),
                ('tuple valid', c.valid(c['globals'], 24 + n * 16)),
                ('name item is a bytes object of at least 4+1 bytes', c.valid(name_o, 48)),
                ('value item is an int object', z3.And(c.valid(val_o, 16), is_long(c, st, val_o))),
                ('arrays allocated: nglobs[n] followed by nintconsts[n]',
                 z3.And(c.valid(c['nglobs'], n * 32), c['nintconsts'] == c['nglobs'] + n * 32,
                        c.valid(c['nintconsts'], n * 16))),
                ('Py_False is the int 0', z3.And(is_long(c, st, c.ex.global_addr('_Py_FalseStruct')),
                                                 int_w(c.ex.global_addr('_Py_FalseStruct')) == wv(0))),
                ('no-pending-exception', st.err == 0)]

    def witness(self, c):
        name_o, val_o = self.items(c, c.old)
        return {'o_sat80': int_w(val_o), 'o_mod64': int_m(val_o), 'op': z3.Select(c.old.raw, name_o + 32 + 3)}

    def post(self, c):
        st0 = c.old
        name_o, val_o = self.items(c, st0)
        g = name_o + 32                                   # PyBytes_AS_STRING
        i = c['i']
        word = z3.SignExt(32, be32(c, st0, g))
        op = z3.Extract(7, 0, word)
        isint = z3.Or(op == OP_CONSTANT_INT, op == OP_ENUM)
        ng = c['nglobs'] + i * 32
        ni = c['nintconsts'] + i * 16
        F = lambda base, rec, f: c.field(c.new, base, rec, f)
        w = int_w(val_o)
        return [('type_op and name of entry i come from the bytes string',
                 z3.And(F(ng, 'struct _cffi_global_s', 'type_op') == word,
                        F(ng, 'struct _cffi_global_s', 'name') == g + 4)),
                ('integer constants / enumerators: value = o mod 2^64 and the flag says whether o <= 0',
                 z3.Implies(isint, z3.And(F(ni, 'cdl_intconst_t', 'value') == int_m(val_o),
                                          F(ni, 'cdl_intconst_t', 'neg') == z3.If(w <= wv(0), BV(1, 32), BV(0, 32)),
                                          F(ng, 'struct _cffi_global_s', 'address') ==
                                          c.ex.global_addr('_cdl_realize_global_int')))),
                ('the loop index advances by one', c.local(c.new, 'i') == i + 1)]

    def post_goto(self, c, label):
        return [('error exit only with an exception set', c.new.err != 0)]


R.add(GlobalsLoop)


@R.model('PyObject_RichCompareBool', "for two int objects: the comparison of their values (1/0); other objects: "
                                     "arbitrary code (not used in the proved scope)")
def _richcmpbool(ex, st, args, n):
    a, b, op = args
    c = Ctx(ex, {}, st)
    ex.ob('call-requires', line_of(n), 'PyObject_RichCompareBool:int-objects', st,
          z3.And(is_long(c, st, a), is_long(c, st, b)))
    st.assume(pyint_axiom(a))
    x, y = int_w(a), int_w(b)
    k = z3.simplify(op)
    if not z3.is_bv_value(k):
        raise NotSupported("symbolic comparison operator")
    rel = {0: x < y, 1: x <= y, 2: x == y, 3: x != y, 4: x > y, 5: x >= y}[k.as_long()]
    return b2i(rel)


R.inline |= {'PyTuple_GET_ITEM', 'PyTuple_GET_SIZE', 'PyBytes_AS_STRING', '_PyTuple_CAST', '_PyBytes_CAST'}


class TypesLoop(Contract):
    """ffiobj_init, first loop: the `_types` string is unpacked 4 bytes at a time"""
    name = 'ffiobj_init#types-loop'
    function = 'ffiobj_init'
    loop_ordinal = 0

    def pre(self, c):
        n = c['n']
        return [('0 <= i < n', z3.And(c['i'] >= 0, c['i'] < n, n < BV(1 << 40, 64))),
                ('source and destination valid', z3.And(c.valid(c['types'], 4), c.valid(c['ntypes'], n * 8)))]

    def post(self, c):
        i = c['i']
        word = z3.SignExt(32, be32(c, c.old, c['types']))
        return [('entry i is the opcode word of the next 4 bytes', c.raw(c.new, c['ntypes'] + i * 8, 8) == word),
                ('source advances by 4, index by 1',
                 z3.And(c.local(c.new, 'types') == c['types'] + 4, c.local(c.new, 'i') == i + 1))]


R.add(TypesLoop)
