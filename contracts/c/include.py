"""C34, the compiled side: a struct/union that a compiled FFI declares as coming from an included FFI
(_CFFI_F_EXTERNAL) is the ctype that the INCLUDED module's own builder realizes for its entry of the same name and
kind -- the same object, with the layout of the included module --, found through any depth of includes.

_realize_c_struct_or_union is recorded (trace abstraction): builder, index and result of the latest call.
"""
import z3

from . import allc                                   # noqa: F401
from .base import R as R0, BV, B64, Contract, Frame, Ctx, LoopSpec, exc
from vf.cexec import Exec

R = R0.fork()
R.word_arrays = {'ob_item'}
ITEMS = 'words.ob_item:0:64'
B32 = z3.BitVecSort(32)
SU = 'struct _cffi_struct_union_s'
CTX = 'struct _cffi_type_context_s'
F_UNION, F_EXTERNAL = 0x01, 0x08
same_name = z3.Function('same_name', B64, B64, z3.BoolSort())     # ghost: two C strings with equal contents
KEEP = (SU, CTX, 'PyVarObject', 'FFIObject', 'builder_c_t', 'words.ob_item')
TRACE = ['tmp:calls:realize', 'tmp:arg:realize:builder', 'tmp:arg:realize:sindex', 'tmp:arg:realize:ret']
J = z3.BitVec('J!any', 64)


def g(st, key):
    return st.gvar(key, Exec.GHOST_SORTS.get(key, B64))


Exec.GHOST_SORTS['tmp:arg:realize:sindex'] = B32


def _realize_rec(ex, st, args, n):
    """_realize_c_struct_or_union(builder, sindex) -- recorded: the ctype of entry `sindex` of that builder's own table,
    or NULL with an exception; runs type-building code (memory and fields may change, the struct tables -- static data
    of the generated modules -- do not)"""
    r = ex.fresh('realized', B64)
    e = ex.fresh('err_realize', B64)
    c = Ctx(ex, {}, st)
    st.assume(z3.Implies(r == 0, e != 0))
    st.assume(z3.Implies(r != 0, c.valid(r, 104)))
    st.havoc('realize', raw=True, fields=True, ghost=False, keep_stack=ex.private_stack(args),
             keep_records=ex.record_names(KEEP))
    st.err = z3.If(r == 0, e, st.err)
    st.ghost['tmp:calls:realize'] = g(st, 'tmp:calls:realize') + 1
    st.ghost['tmp:arg:realize:builder'] = args[0]
    st.ghost['tmp:arg:realize:sindex'] = args[1]
    st.ghost['tmp:arg:realize:ret'] = r
    return r


R.models['strlen'] = lambda ex, st, args, n: ex.fresh('strlen', B64)
R.assumed['strlen'] = "some length (the name comparison is the business of search_in_struct_unions: C25)"
R.models['_realize_c_struct_or_union'] = _realize_rec
R.assumed['_realize_c_struct_or_union (recorded)'] = _realize_rec.__doc__


@R.add
class search_in_struct_unions_weak(Contract):
    """weaker restatement of the contract verified in C25: -1, or the index of an entry whose name is the one searched"""
    name = 'search_in_struct_unions'
    trusted = True
    pure = True

    def post(self, c):
        n = c.field(c.old, c['ctx'], CTX, 'num_struct_unions')
        tab = c.field(c.old, c['ctx'], CTX, 'struct_unions')
        size = c.tu.parse_type(SU).size
        ent = tab + z3.SignExt(32, c.result) * size
        return [('-1 or the index of the entry with that name',
                 z3.Or(c.result == BV(-1, 32),
                       z3.And(c.result >= 0, c.result < n, same_name(c.field(c.old, ent, SU, 'name'), c['search']))))]


def item(c, st, tup, k):
    k = k if z3.is_bv(k) else BV(k, 64)
    return z3.Select(st.heap(ITEMS), tup + 24 + 8 * k)


@R.add
class _fetch_external_struct_or_union(Contract):
    name = '_fetch_external_struct_or_union'

    def pre(self, c):
        st = c.old
        inc = c['included_ffis']
        n = c.field(st, inc, 'PyVarObject', 'ob_size')
        return [('s-valid', c.valid(c['s'], 32)), ('no-pending-exception', st.err == 0)]

    def frame(self, c):
        return Frame(all_raw=True, all_fields=True, err=True, trace=TRACE, keep_records=KEEP)

    def found(self, c, st1):
        """the latest recorded realize call was made for an entry that has the name of s, is not itself external and is
        of the same kind (struct / union) as s"""
        st0 = c.old
        b = g(st1, 'tmp:arg:realize:builder')
        k = g(st1, 'tmp:arg:realize:sindex')
        tab = c.field(st0, b, CTX, 'struct_unions')          # (the context is the first member of a builder)
        ent = tab + z3.SignExt(32, k) * c.tu.parse_type(SU).size
        fl = c.field(st0, ent, SU, 'flags')
        sfl = c.field(st0, c['s'], SU, 'flags')
        return z3.And(same_name(c.field(st0, ent, SU, 'name'), c.field(st0, c['s'], SU, 'name')),
                      (fl & (F_EXTERNAL | F_UNION)) == (sfl & F_UNION), k >= 0)

    def _inv(self, c, st):
        inc = c['included_ffis']
        i = c.local(st, 'i')
        return [('bounds', z3.And(i >= 0, inc != 0)),
                ('nothing realized so far, no exception', z3.And(g(st, 'tmp:calls:realize') == g(c.old, 'tmp:calls:realize'), st.err == 0))]

    loops = property(lambda self: {0: LoopSpec(invariant=self._inv, trace=TRACE, keep_records=KEEP)})

    def post(self, c):
        st0, st1 = c.old, c.new
        r = c.result
        made = g(st1, 'tmp:calls:realize') != g(st0, 'tmp:calls:realize')
        return [('found: the result is what an included module\'s OWN builder realizes for its entry of the same name and kind '
                 '(not itself external): the included module\'s ctype object, with its layout',
                 z3.Implies(r != 0, z3.And(made, r == g(st1, 'tmp:arg:realize:ret'), self.found(c, st1), st1.err == 0))),
                ('not found anywhere: NULL without an exception, and nothing was realized',
                 z3.Implies(z3.And(r == 0, st1.err == 0), z3.Not(made))),
                ('no include list: not found', z3.Implies(c['included_ffis'] == 0, z3.And(r == 0, st1.err == 0))),
                ('include chains deeper than 100: RuntimeError',
                 z3.Implies(z3.And(c['included_ffis'] != 0, c['recursion'] > 100), z3.And(r == 0, st1.err == exc(c.ex, 'RuntimeError'))))]


C34_FUNCS = ['_fetch_external_struct_or_union']


def kind_obligations(tu):
    """whole-TU structural obligations: for every kind of NAMED type that a compiled module re-declares when it includes
    another (struct/union and enum table entries) the function that realizes it must consult the builder's included FFIs
    -- otherwise the including module builds a second ctype of its own.  (Typedefs are type-table entries that refer to
    these; primitive, pointer and array ctypes are canonical anyway: C27.)"""
    from vf.smt import Ob

    def mentions(fn, member):
        out = []

        def walk(n):
            if isinstance(n, dict):
                if n.get('kind') == 'MemberExpr' and n.get('name') == member:
                    out.append(n)
                for ch in n.get('inner', []) or []:
                    walk(ch)
        walk(tu.functions[fn])
        return bool(out)

    def case_body_mentions(fn, enum_const, member):
        """does the `case <enum_const>:` block of the switch in fn mention the member?"""
        hit = []

        def const_name(x):
            while isinstance(x, dict) and x.get('kind') in ('ConstantExpr', 'ImplicitCastExpr', 'ParenExpr'):
                x = x['inner'][0]
            return x.get('referencedDecl', {}).get('name') if isinstance(x, dict) and x.get('kind') == 'DeclRefExpr' else None

        def has(n):
            if isinstance(n, dict):
                if n.get('kind') == 'MemberExpr' and n.get('name') == member:
                    return True
                return any(has(ch) for ch in n.get('inner', []) or [])
            return False

        def walk(n):
            if isinstance(n, dict):
                if n.get('kind') == 'SwitchStmt':
                    body = n['inner'][-1].get('inner', []) or []
                    cur = None
                    for s_ in body:
                        x = s_
                        while isinstance(x, dict) and x.get('kind') in ('CaseStmt', 'DefaultStmt'):
                            cur = const_name(x['inner'][0]) if x.get('kind') == 'CaseStmt' else None
                            x = x['inner'][-1]
                        if cur == enum_const and has(s_):
                            hit.append(True)
                for ch in n.get('inner', []) or []:
                    walk(ch)
        walk(tu.functions[fn])
        return bool(hit)

    su = mentions('_realize_c_struct_or_union', 'included_ffis')
    en = case_body_mentions('realize_c_type_or_func_now', '_CFFI_OP_ENUM', 'included_ffis')
    ic = mentions('ffi_fetch_int_constant', 'included_ffis')
    return [Ob("realize_c_type.c:flow[struct/union entries: _realize_c_struct_or_union looks an external entry up in the included FFIs]",
               [], z3.BoolVal(su), kind='flow'),
            Ob("ffi_obj.c:flow[integer constants: ffi_fetch_int_constant delegates to the included FFIs]", [], z3.BoolVal(ic), kind='flow'),
            Ob("realize_c_type.c:flow[enum entries: the _CFFI_OP_ENUM branch of realize_c_type_or_func_now looks the enum up in the "
               "included FFIs before building a ctype of its own]", [], z3.BoolVal(en), kind='flow',
               witness={'kind_is_enum': z3.BoolVal(True)})]


# ---------------------------------------------------------------------------------------------------------------
# make_included_tuples: the include lists of a compiled module, in the order of its `_cffi_includes[]`

JQ = z3.BitVec('j!q', 64)
A64 = z3.ArraySort(B64, B64)
for _k in ('tmp:inc:mod', 'tmp:inc:ffi', 'tmp:inc:lib'):
    Exec.GHOST_SORTS[_k] = A64
INC = ['tmp:inc:mod', 'tmp:inc:ffi', 'tmp:inc:lib']
ITRACE = ['tmp:calls:import', 'tmp:arg:import:name', 'tmp:arg:import:ret', 'tmp:calls:getattr', 'tmp:arg:getattr:obj',
          'tmp:arg:getattr:ret', 'tmp:arg:getattr:is_ffi'] + INC
R.inline = set(R.inline) | {'PyTuple_SET_ITEM', '_PyTuple_CAST'}
R.word_derefs = {'const char *const *': 'words.names'}        # the NULL-terminated `_cffi_includes[]` list of a module
NAMES = 'words.names:0:64'
KEEP2 = KEEP + ('words.names',)


@R.model('PyTuple_New', "a new tuple of n members, all NULL (allocation succeeds: A-ALLOC)")
def _tuple_new(ex, st, args, n):
    size = args[0]
    st.assume(z3.And(size >= 0, size < BV(1 << 20, 64)))
    t = ex.alloc(st, 24 + 8 * size, 'newtuple')
    ex.write_field(st, t, 'PyVarObject', 'ob_size', size)
    return t


@R.model('PyImport_ImportModule', "imports the module of that name (arbitrary code runs): the module, or NULL with an "
                                  "exception; name and result are kept in the trace")
def _import(ex, st, args, n):
    r = ex.fresh('module', B64)
    e = ex.fresh('err_import', B64)
    st.havoc('import', raw=False, fields=True, ghost=False, keep_records=ex.record_names(KEEP2))
    st.assume(z3.Implies(r == 0, e != 0))
    st.err = z3.If(r == 0, e, st.err)
    st.ghost['tmp:calls:import'] = g(st, 'tmp:calls:import') + 1
    st.ghost['tmp:arg:import:name'] = args[0]
    st.ghost['tmp:arg:import:ret'] = r
    return r


@R.model('PyObject_GetAttrString', "getattr(obj, \"ffi\" | \"lib\"): the attribute, or NULL with an exception; object, which "
                                   "of the two names, and result are kept in the trace")
def _getattr(ex, st, args, n):
    import ast as _ast
    from vf.cexec import NotSupported
    lit = n['inner'][2]
    while lit.get('kind') in ('ImplicitCastExpr', 'ParenExpr'):
        lit = lit['inner'][0]
    if lit.get('kind') != 'StringLiteral' or _ast.literal_eval(lit['value']) not in ('ffi', 'lib'):
        raise NotSupported("PyObject_GetAttrString with another name")
    is_ffi = _ast.literal_eval(lit['value']) == 'ffi'
    r = ex.fresh('attr', B64)
    e = ex.fresh('err_getattr', B64)
    st.assume(z3.Implies(r == 0, e != 0))
    st.err = z3.If(r == 0, e, st.err)
    st.ghost['tmp:calls:getattr'] = g(st, 'tmp:calls:getattr') + 1
    st.ghost['tmp:arg:getattr:obj'] = args[0]
    st.ghost['tmp:arg:getattr:ret'] = r
    st.ghost['tmp:arg:getattr:is_ffi'] = BV(1 if is_ffi else 0, 64)
    key = 'tmp:inc:ffi' if is_ffi else 'tmp:inc:lib'
    # ghost sequences, indexed by the number of modules imported so far minus one
    idx = g(st, 'tmp:calls:import') - g(ex.st0, 'tmp:calls:import') - 1
    st.ghost[key] = z3.Store(g(st, key), idx, r)
    st.ghost['tmp:inc:mod'] = z3.Store(g(st, 'tmp:inc:mod'), idx, args[0])
    return r


@R.add
class make_included_tuples(Contract):
    name = 'make_included_tuples'

    def names(self, c, st, j):
        return z3.Select(st.heap(NAMES), c['ctx_includes'] + 8 * j)

    def pre(self, c):
        st = c.old
        n = z3.BitVec('n_includes', 64)
        self.n = n
        inc = c['ctx_includes']
        return [('the two result slots are valid and do not overlap',
                 z3.And(c.valid(c['included_ffis'], 8), c.valid(c['included_libs'], 8),
                        z3.Or(z3.ULE(c['included_ffis'] + 8, c['included_libs']), z3.ULE(c['included_libs'] + 8, c['included_ffis'])))),
                ('the include list is NULL or n names followed by NULL, apart from the two slots',
                 z3.Implies(inc != 0, z3.And(n >= 0, n < BV(1 << 16, 64), c.valid(inc, 8 * n + 8), self.names(c, st, n) == 0,
                                             z3.Or(z3.ULE(inc + 8 * n + 8, c['included_ffis']), z3.ULE(c['included_ffis'] + 8, inc)),
                                             z3.Or(z3.ULE(inc + 8 * n + 8, c['included_libs']), z3.ULE(c['included_libs'] + 8, inc))))),
                # (a quantified fact: an obligation for callers; the body uses the instances named in the invariants)
                ('none of the n names is NULL',
                 z3.Implies(inc != 0, z3.ForAll([JQ], z3.Implies(z3.And(JQ >= 0, JQ < n), self.names(c, st, JQ) != 0))), 'callers'),
                ('no-pending-exception', st.err == 0)]

    def frame(self, c):
        return Frame(all_raw=True, all_fields=True, err=True, trace=ITRACE)

    def inst(self, c, j):
        """instance at j of the callers' fact 'none of the n names is NULL'"""
        return z3.Implies(z3.And(c['ctx_includes'] != 0, j >= 0, j < self.n), self.names(c, c.old, j) != 0)

    def _inv1(self, c, st):
        num = c.local(st, 'num')
        p = c.local(st, 'p_include')
        return [('counted so far', z3.And(num >= 0, num <= self.n, p == c['ctx_includes'] + 8 * num))]

    def _inv2(self, c, st):
        num = c.local(st, 'num')
        p = c.local(st, 'p_include')
        ffis = c.raw(st, c['included_ffis'], 8)
        libs = c.raw(st, c['included_libs'], 8)
        e0 = getattr(c, 'entry', st)
        nc = c.local(e0, 'num') if 'entry' in c.__dict__ else num
        return [('the j-th name is being handled', z3.And(num >= 0, num <= self.n, p == c['ctx_includes'] + 8 * num)),
                ('one import per name so far, no exception', z3.And(g(st, 'tmp:calls:import') == g(c.old, 'tmp:calls:import') + num, st.err == 0)),
                ('the two tuples', z3.And(ffis == c.raw(e0, c['included_ffis'], 8), libs == c.raw(e0, c['included_libs'], 8), ffis != 0, libs != 0,
                                          c.field(st, ffis, 'PyVarObject', 'ob_size') == self.n, c.field(st, libs, 'PyVarObject', 'ob_size') == self.n,
                                          z3.ULT(ffis, BV(1 << 47, 64)), z3.ULT(libs, BV(1 << 47, 64)),
                                          z3.Or(z3.ULE(ffis + 24 + 8 * self.n, libs), z3.ULE(libs + 24 + 8 * self.n, ffis))),
                 [self.inst(c, c.field(st, ffis, 'PyVarObject', 'ob_size'))]),
                ('member J of both tuples, if already handled: the ffi and the lib of the module imported for name J',
                 z3.Implies(z3.And(J >= 0, J < num),
                            z3.And(z3.Select(st.heap(ITEMS), ffis + 24 + 8 * J) == z3.Select(g(st, 'tmp:inc:ffi'), J),
                                   z3.Select(st.heap(ITEMS), libs + 24 + 8 * J) == z3.Select(g(st, 'tmp:inc:lib'), J),
                                   z3.Select(g(st, 'tmp:inc:ffi'), J) != 0, z3.Select(g(st, 'tmp:inc:lib'), J) != 0)))]

    loops = property(lambda self: {0: LoopSpec(invariant=self._inv1), 1: LoopSpec(invariant=self._inv2, trace=ITRACE, keep_records=('words.names',))})

    def post(self, c):
        st0, st1 = c.old, c.new
        inc = c['ctx_includes']
        ffis = c.raw(st1, c['included_ffis'], 8)
        libs = c.raw(st1, c['included_libs'], 8)
        ok = c.result == 0
        return [('no include list: nothing happens', z3.Implies(inc == 0, z3.And(ok, g(st1, 'tmp:calls:import') == g(st0, 'tmp:calls:import')))),
                ('success: two tuples of n members, one import per name',
                 z3.Implies(z3.And(inc != 0, ok), z3.And(ffis != 0, libs != 0, c.field(st1, ffis, 'PyVarObject', 'ob_size') == self.n,
                                                         c.field(st1, libs, 'PyVarObject', 'ob_size') == self.n,
                                                         g(st1, 'tmp:calls:import') == g(st0, 'tmp:calls:import') + self.n, st1.err == 0)),
                 [self.inst(c, g(st1, 'tmp:calls:import') - g(st0, 'tmp:calls:import'))]),
                ('success: member J of the two tuples is the ffi / the lib attribute of the J-th imported module -- the included '
                 'modules\' own objects, in the order of the include list',
                 z3.Implies(z3.And(inc != 0, ok, J >= 0, J < self.n),
                            z3.And(z3.Select(st1.heap(ITEMS), ffis + 24 + 8 * J) == z3.Select(g(st1, 'tmp:inc:ffi'), J),
                                   z3.Select(st1.heap(ITEMS), libs + 24 + 8 * J) == z3.Select(g(st1, 'tmp:inc:lib'), J))),
                 [self.inst(c, g(st1, 'tmp:calls:import') - g(st0, 'tmp:calls:import'))]),
                ('failure: -1 with an exception, and both slots are NULL again',
                 z3.Implies(z3.Not(ok), z3.And(c.result == BV(-1, 32), st1.err != 0, ffis == 0, libs == 0)))]


C34_FUNCS.append('make_included_tuples')


# ---------------------------------------------------------------------------------------------------------------
# lib_build_and_cache_attr: ONE iteration of the delegation loop over the included libs (loop-body contract; the
# function is too large for a whole-function contract: what surrounds the loop is not verified here)

dict_lookup = z3.Function('dict_lookup', B64, B64, B64)     # ghost: what PyDict_GetItem(d, k) finds (0: not there)


@R.model('PyDict_GetItem', "the value filed under the key, or NULL; no effect, no exception (a function of dict and key here)")
def _dict_get(ex, st, args, n):
    return dict_lookup(args[0], args[1])


@R.model('PyTuple_GetItem', "member i of the tuple, or NULL with IndexError when i is out of range")
def _tuple_getitem(ex, st, args, n):
    t, i = args
    c = Ctx(ex, {}, st)
    size = c.field(st, t, 'PyVarObject', 'ob_size')
    inside = z3.And(i >= 0, i < size)
    st.err = z3.If(inside, st.err, exc(ex, 'IndexError'))
    return z3.If(inside, z3.Select(st.heap(ITEMS), t + 24 + 8 * i), BV(0, 64))


class lib_attr_rec(Contract):
    """the recursive call lib_build_and_cache_attr(lib1, name, recursion + 1) -- recorded: an object (not a new
    reference), or NULL with or without an exception; builds and caches objects in lib1 (memory and object fields may
    change; the tuples, libs' static tables and the call trace of other events do not)"""
    name = 'lib_build_and_cache_attr'
    trusted = True
    record_calls = True

    def frame(self, c):
        return Frame(all_raw=True, all_fields=True, err=True, trace=['tmp:arg:libattr:ret'], keep_records=KEEP + ('LibObject',))

    def post(self, c):
        c.new.ghost['tmp:arg:libattr:ret'] = c.result
        return [('an exception only with NULL', z3.Implies(c.result != 0, c.new.err == c.old.err))]


class int_const_rec(Contract):
    """ffi_fetch_int_constant(ffi1, name, recursion + 1) -- recorded: a new int object, or NULL with or without an
    exception"""
    name = 'ffi_fetch_int_constant'
    trusted = True
    record_calls = True

    def frame(self, c):
        return Frame(all_raw=True, all_fields=True, err=True, trace=['tmp:arg:intconst:ret'], keep_records=KEEP + ('LibObject',))

    def post(self, c):
        c.new.ghost['tmp:arg:intconst:ret'] = c.result
        return [('an exception only with NULL', z3.Implies(c.result != 0, c.new.err == c.old.err))]


R.add(lib_attr_rec)
R.add(int_const_rec)


class LibIncludeLoop(Contract):
    """lib.<name> is not one of this module's own globals: ONE step of the search through the included modules, in the
    order of the include list.  Entry i is the included module's lib (or NULL for an included FFI without a lib, then
    its ffi is asked for an integer constant)"""
    name = 'lib_build_and_cache_attr#include-loop'
    function = 'lib_build_and_cache_attr'
    loop_ordinal = 0

    def parts(self, c, st):
        libs = c.local(st, 'included_libs') if False else c['included_libs']
        i = c['i']
        lib1 = z3.Select(st.heap(ITEMS), libs + 24 + 8 * i)
        return libs, i, lib1

    def pre(self, c):
        st = c.old
        libs, i, lib1 = self.parts(c, st)
        ffis = c['included_ffis']
        return [('the two include tuples are valid', z3.And(c.valid(libs, 24), c.valid(ffis, 24), i >= 0)),
                ('an included lib is a valid lib object', z3.Implies(lib1 != 0, c.valid(lib1, 64))),
                ('an entry without a lib has an ffi (make_included_tuples fills both tuples or neither)',
                 z3.Implies(z3.And(lib1 == 0, i < c.field(st, ffis, 'PyVarObject', 'ob_size')),
                            z3.Select(st.heap(ITEMS), ffis + 24 + 8 * i) != 0)),
                ('no-pending-exception', st.err == 0)]

    def frame(self, c):
        return None

    def _found(self, c, st1, x):
        st0 = c.old
        libs, i, lib1 = self.parts(c, st0)
        cached = dict_lookup(c.field(st0, lib1, 'LibObject', 'l_dict'), c['name'])
        A = lambda f, k: st1.gvar('tmp:arg:%s:%s' % (f, k), B64)
        calls = lambda st, f: st.gvar('tmp:calls:' + f, B64)
        ffi1 = z3.Select(st0.heap(ITEMS), c['included_ffis'] + 24 + 8 * i)
        rec = z3.SignExt(32, c['recursion'])
        return z3.If(lib1 != 0,
                     z3.If(cached != 0,
                           # the included lib has it cached already
                           z3.And(x == cached, calls(st1, 'lib_build_and_cache_attr') == calls(st0, 'lib_build_and_cache_attr')),
                           # or it is built (and cached) in the INCLUDED lib, by the included lib's own tables
                           z3.And(calls(st1, 'lib_build_and_cache_attr') == calls(st0, 'lib_build_and_cache_attr') + 1,
                                  A('lib_build_and_cache_attr', 'lib') == lib1, A('lib_build_and_cache_attr', 'name') == c['name'],
                                  z3.Extract(31, 0, A('lib_build_and_cache_attr', 'recursion')) == c['recursion'] + 1,
                                  x == st1.gvar('tmp:arg:libattr:ret', B64))),
                     # an included FFI without lib: only its integer constants
                     z3.And(calls(st1, 'ffi_fetch_int_constant') == calls(st0, 'ffi_fetch_int_constant') + 1,
                            A('ffi_fetch_int_constant', 'ffi') == ffi1, x == st1.gvar('tmp:arg:intconst:ret', B64)))

    def post_goto(self, c, label):
        x = c.local(c.new, 'x')
        return [("found in included module i: its cached attribute, or what building it in THAT lib gives, or that ffi's integer "
                 "constant -- the included module's own object", z3.And(x != 0, self._found(c, c.new, x)))]

    def post(self, c):
        st0, st1 = c.old, c.new
        libs, i, lib1 = self.parts(c, st0)
        cached = dict_lookup(c.field(st0, lib1, 'LibObject', 'l_dict'), c['name'])
        return [('the search goes on to module i + 1 only if module i has no such attribute, and without an exception',
                 z3.And(st1.err == 0, z3.Implies(lib1 != 0, cached == 0), c.local(st1, 'i') == i + 1)),
                ('and module i was asked', z3.If(lib1 != 0,
                                                 st1.gvar('tmp:calls:lib_build_and_cache_attr', B64) == st0.gvar('tmp:calls:lib_build_and_cache_attr', B64) + 1,
                                                 st1.gvar('tmp:calls:ffi_fetch_int_constant', B64) == st0.gvar('tmp:calls:ffi_fetch_int_constant', B64) + 1))]

    def post_return(self, c):
        return [('the search stops without a result only with an exception', z3.And(c.result == 0, c.new.err != 0))]


R.contracts[LibIncludeLoop.name] = LibIncludeLoop()
C34_FUNCS.append(LibIncludeLoop.name)


def delegation_reached_obligation(tu):
    """structural obligation on the clang AST of lib_build_and_cache_attr: in the branch taken when the name is not one of
    the module's own globals, nothing can leave the function BEFORE the delegation loop over the included libs except the
    depth guard `recursion > 100` -- in particular not `if (recursion > 0) return NULL`, which belongs after the loop (an
    included lib asked on behalf of an including one must still ask ITS includes)"""
    from vf.smt import Ob
    fn = tu.functions['lib_build_and_cache_attr']

    def contains(n, kinds):
        if isinstance(n, dict):
            if n.get('kind') in kinds:
                return True
            return any(contains(ch, kinds) for ch in n.get('inner', []) or [])
        return False

    def text_has(n, name):
        if isinstance(n, dict):
            if n.get('kind') == 'DeclRefExpr' and n.get('referencedDecl', {}).get('name') == name:
                return True
            if n.get('kind') == 'MemberExpr' and n.get('name') == name:
                return True
            return any(text_has(ch, name) for ch in n.get('inner', []) or [])
        return False

    def lits(n, acc):
        if isinstance(n, dict):
            if n.get('kind') == 'IntegerLiteral':
                acc.append(int(n.get('value', '0')))
            for ch in n.get('inner', []) or []:
                lits(ch, acc)
        return acc

    body = [c_ for c_ in fn['inner'] if c_.get('kind') == 'CompoundStmt'][0]
    outer = [s_ for s_ in body.get('inner', []) if s_.get('kind') == 'IfStmt' and text_has(s_['inner'][0], 'index')]
    ok, why = False, 'the `index < 0` branch was not found'
    if outer:
        blk = outer[0]['inner'][1].get('inner', []) or []
        ok, why = False, 'no delegation loop in the branch'
        for k, s_ in enumerate(blk):
            if contains(s_, ('ForStmt',)):
                early = [x for x in blk[:k] if contains(x, ('ReturnStmt', 'GotoStmt'))]
                inner = s_['inner'][1].get('inner', []) if s_.get('kind') == 'IfStmt' else []
                pos = [j for j, x in enumerate(inner) if contains(x, ('ForStmt',))]
                bad_inner = []
                for x in (inner[:pos[0]] if pos else []):
                    if contains(x, ('ReturnStmt', 'GotoStmt')):
                        guard_ok = x.get('kind') == 'IfStmt' and text_has(x['inner'][0], 'recursion') and lits(x['inner'][0], []) == [100]
                        if not guard_ok:
                            bad_inner.append(x)
                ok = not early and not bad_inner and text_has(s_['inner'][0], 'included_libs')
                why = 'ok' if ok else 'a statement that can leave the function precedes the loop'
                break
    return [Ob("lib_obj.c:lib_build_and_cache_attr:flow[a name that is not an own global always reaches the delegation loop over the "
               "included libs (only the depth guard `recursion > 100` may leave before it); found: %s]" % why, [], z3.BoolVal(ok),
               kind='flow')]
