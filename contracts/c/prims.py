"""Contract for search_standard_typename (C06): the hand-written switch recognises exactly the standard names
ending in "_t" of the index -> name table `primitive_name[]` (read from the real AST), with that table's index."""
import z3

from .base import R, BV, B64, Contract, Frame
from vf import tables


def std_names(tu):
    return [(i, n) for i, n in enumerate(tables.primitive_name_table(tu)) if n and n.endswith('_t') and len(n) >= 6]


def is_name(c, st, p, size, name):
    b = name.encode()
    return z3.And(size == len(b), *[z3.Select(st.raw, p + BV(k, 64)) == ch for k, ch in enumerate(b)])


@R.add
class search_standard_typename(Contract):
    name = 'search_standard_typename'
    pure = True

    def pre(self, c):
        return [('p readable for size bytes', c.valid(c['p'], c['size'])),
                ('size is a string length', z3.ULT(c['size'], BV(1 << 31, 64)))]

    def frame(self, c):
        return Frame()

    def witness(self, c):
        return {'size': c['size']}

    def post(self, c):
        names = std_names(c.tu)
        p, size, st = c['p'], c['size'], c.old
        out = []
        for i, n in names:
            out.append(("'%s' is recognised as primitive #%d" % (n, i),
                        z3.Implies(is_name(c, st, p, size, n), c.result == BV(i, 32))))
        out.append(('anything else is not a standard type name (-1)',
                    z3.Implies(z3.Not(z3.Or(*[is_name(c, st, p, size, n) for _i, n in names])),
                               c.result == BV(-1, 32))))
        return out
