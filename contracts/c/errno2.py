"""C22, the brackets: every way from Python into C and back passes errno across the boundary.

  fetch_global_var_addr (API-mode globals: the generated address fetcher is C code)
  invoke_callback       (libffi callbacks)
  cffi_call_python      (extern "Python")
  cdata_call            (ffi_call) -- too large for a whole-function contract: a structural obligation on its AST
  recompiler.py         (the text emitted around a direct API-mode call) -- a structural obligation on the Python AST

"C code runs" is a model that records in the trace the C errno it is entered with, then leaves an arbitrary errno
behind (recorded too).  "Python code runs" (general_invoke_callback) records the saved errno it is entered with
(what ffi.errno would return inside) and leaves an arbitrary saved errno behind (ffi.errno may be assigned inside).
"""
import z3

from . import allc                                   # noqa: F401
from .base import R as R0, BV, B64, Contract, Frame, Ctx
from .errno_ import errno_of, saved
from vf.cexec import Exec

R = R0.fork()
B32 = z3.BitVecSort(32)
for _k in ('tmp:arg:c:errno_in', 'tmp:arg:c:errno_out', 'tmp:arg:py:saved_in', 'tmp:arg:py:saved_out'):
    Exec.GHOST_SORTS[_k] = B32
TRACE = ['tmp:calls:c', 'tmp:arg:c:errno_in', 'tmp:arg:c:errno_out', 'tmp:calls:py', 'tmp:arg:py:saved_in', 'tmp:arg:py:saved_out']


def _ctx(ex, st):
    return Ctx(ex, {}, st)


def c_code_runs(ex, st, args, n):
    """a call into C code the engine does not see (the generated address fetcher; the target of ffi_call): it is
    entered with the C errno of this thread as it is now, may change memory and errno, and leaves some errno behind"""
    c = _ctx(ex, st)
    st.ghost['tmp:calls:c'] = st.gvar('tmp:calls:c', B64) + 1
    st.ghost['tmp:arg:c:errno_in'] = errno_of(c, st)
    st.havoc('c_code', ghost=False, fields=True, keep_stack=ex.private_stack(args))
    out = ex.fresh('errno_left_by_c', B32)
    ex.store_raw(st, ex.global_addr('errno@thread'), out, 4)
    st.ghost['tmp:arg:c:errno_out'] = out
    return ex.fresh('c_result', B64)


R.models['<indirect>'] = c_code_runs
R.assumed['<indirect> (C code runs)'] = c_code_runs.__doc__


def python_code_runs(ex, st, args, n):
    """general_invoke_callback: Python code runs -- it sees the saved errno as ffi.errno, may assign it, may call C
    functions (each of which is bracketed itself); afterwards memory, the C errno and the saved errno are arbitrary"""
    c = _ctx(ex, st)
    st.ghost['tmp:calls:py'] = st.gvar('tmp:calls:py', B64) + 1
    st.ghost['tmp:arg:py:saved_in'] = saved(c, st)
    ex.callee_havoc(st, 'python_code', args)
    out = ex.fresh('saved_errno_left_by_python', B32)
    st.ghost['g:cffi_saved_errno'] = out
    st.ghost['tmp:arg:py:saved_out'] = out
    return None


R.models['general_invoke_callback'] = python_code_runs
R.assumed['general_invoke_callback (Python code runs)'] = python_code_runs.__doc__

for _nm in ('PyEval_SaveThread', 'PyEval_RestoreThread', 'PyGILState_Ensure', 'PyGILState_Release', 'gil_ensure', 'gil_release'):
    def _gil(ex, st, args, n, _nm=_nm):
        # other threads run: shared memory may change -- but not this thread's errno nor its saved errno (thread-local:
        # the declaration obligation of this check), nor this frame's locals
        e = errno_of(_ctx(ex, st), st)
        st.havoc('gil_' + _nm, ghost=False, keep_stack=ex.private_stack(args))
        ex.store_raw(st, ex.global_addr('errno@thread'), e, 4)
        return ex.fresh('tstate', B64 if 'Eval' in _nm else B32)
    R.models[_nm] = _gil
    R.assumed[_nm] = ("releases / takes the GIL: other threads may change any shared memory meanwhile; the calling thread's "
                      "errno is preserved across it (assumed of CPython's and cffi's GIL functions: pthread calls that succeed "
                      "do not set errno -- POSIX leaves this open; cffi relies on it in the same way)")
R.contracts.pop('gil_ensure', None)
R.contracts.pop('gil_release', None)


for _nm, _why in (('_current_interp_key', "identifies the current subinterpreter"),
                  ('_update_cache_to_call_python', "dict look-ups that refresh the (interpreter, info tuple) cache of an "
                                                   "extern \"Python\" function; 0, or an error code 1..4")):
    class _T(Contract):
        __doc__ = _why + " -- assumed: may change memory and the C errno (allocation), not the saved errno (no user code runs)"
        name = _nm
        trusted = True

        def frame(self, c):
            return Frame(all_raw=True, all_fields=True, trace=[])
    R.add(_T)


@R.model('fprintf', "writes to the stream; may change the C errno")
def _fprintf(ex, st, args, n):
    ex.store_raw(st, ex.global_addr('errno@thread'), ex.fresh('errno_after_fprintf', B32), 4)
    return ex.fresh('fprintf', B32)


class fetch_errno(Contract):
    name = 'fetch_global_var_addr#errno'
    function = 'fetch_global_var_addr'

    def pre(self, c):
        return [('gs-valid', c.valid(c['gs'], 56)), ('no-pending-exception', c.old.err == 0)]

    def frame(self, c):
        return None

    def post(self, c):
        st0, st1 = c.old, c.new
        direct = c.field(st0, c['gs'], 'GlobSupportObject', 'gs_data') != 0
        ncalls = lambda st: st.gvar('tmp:calls:c', B64)
        return [('a global reached through its generated fetcher: the fetcher is entered with the saved errno as the C errno',
                 z3.Implies(z3.Not(direct), z3.And(ncalls(st1) == ncalls(st0) + 1, st1.gvar('tmp:arg:c:errno_in', B32) == saved(c, st0)))),
                ('and the errno it leaves becomes the saved errno',
                 z3.Implies(z3.Not(direct), saved(c, st1) == st1.gvar('tmp:arg:c:errno_out', B32))),
                ('a global at a known address: no C code runs, the saved errno is untouched',
                 z3.Implies(direct, z3.And(ncalls(st1) == ncalls(st0), saved(c, st1) == saved(c, st0))))]


R.contracts['fetch_global_var_addr#errno'] = fetch_errno()


@R.add
class invoke_callback(Contract):
    name = 'invoke_callback'

    def frame(self, c):
        return None

    def post(self, c):
        st0, st1 = c.old, c.new
        n = lambda st: st.gvar('tmp:calls:py', B64)
        return [('the errno the C caller left is what ffi.errno returns inside the callback',
                 z3.And(n(st1) == n(st0) + 1, st1.gvar('tmp:arg:py:saved_in', B32) == errno_of(c, st0))),
                ('the saved errno at the end of the callback (assigned inside, or left by the last C call made inside) is '
                 'the errno the C caller sees',
                 errno_of(c, st1) == st1.gvar('tmp:arg:py:saved_out', B32)),
                ('and stays the saved errno', saved(c, st1) == st1.gvar('tmp:arg:py:saved_out', B32))]


@R.add
class cffi_call_python(Contract):
    name = 'cffi_call_python'

    def pre(self, c):
        return [('externpy-valid', c.valid(c['externpy'], 48))]

    def frame(self, c):
        return None

    def post(self, c):
        st0, st1 = c.old, c.new
        n = lambda st: st.gvar('tmp:calls:py', B64)
        ran = n(st1) == n(st0) + 1
        return [('Python code runs at most once', z3.Or(ran, n(st1) == n(st0))),
                ('if it runs: the errno the C caller left is what ffi.errno returns inside',
                 z3.Implies(ran, st1.gvar('tmp:arg:py:saved_in', B32) == errno_of(c, st0))),
                ('if it runs: the saved errno at its end is the errno the C caller sees',
                 z3.Implies(ran, errno_of(c, st1) == st1.gvar('tmp:arg:py:saved_out', B32))),
                ('if it does not (no def_extern attached): the C caller gets its own errno back',
                 z3.Implies(z3.Not(ran), errno_of(c, st1) == errno_of(c, st0)))]


def _calls_in_order(body):
    """names of the functions called, in source order, in a statement list (through ParenExpr/casts)"""
    out = []

    def walk(n):
        if not isinstance(n, dict):
            return
        if n.get('kind') == 'CallExpr':
            x = n['inner'][0]
            while x.get('kind') in ('ImplicitCastExpr', 'ParenExpr', 'CStyleCastExpr'):
                x = x['inner'][0]
            out.append((x.get('referencedDecl', {}).get('name') if x.get('kind') == 'DeclRefExpr' else '<indirect>', n))
        for ch in n.get('inner', []) or []:
            walk(ch)
    walk(body)
    return out


def structural_obligations(tu):
    """cdata_call: the statement list that contains the ffi_call() is  ... PyEval_SaveThread, restore_errno_only,
    ffi_call, save_errno_only, PyEval_RestoreThread ...  with nothing else called in between"""
    from vf.smt import Ob
    fd = tu.functions['cdata_call']
    seq = [nm for nm, _n in _calls_in_order(fd)]
    ok = False
    where = 'ffi_call not found'
    if 'ffi_call' in seq:
        k = seq.index('ffi_call')
        around = seq[max(0, k - 2):k + 3]
        where = ' '.join(around)
        ok = around == ['PyEval_SaveThread', 'restore_errno_only', 'ffi_call', 'save_errno_only', 'PyEval_RestoreThread'] \
            and seq.count('ffi_call') == 1
    yield Ob("_cffi_backend.c:cdata_call:flow[the only ffi_call is bracketed: restore_errno immediately before, save_errno "
             "immediately after, inside the GIL-released region; found: %s]" % where, [], z3.BoolVal(ok), kind='flow')
    # every function of the TU that calls C code it does not see (ffi_call, or through gs_fetch_addr) is one of those above
    users = set()
    for name, f in tu.functions.items():
        for nm, node in _calls_in_order(f):
            if nm == 'ffi_call' or (nm == '<indirect>' and "'gs_fetch_addr'" in str(node['inner'][0])):
                users.add(name)
    yield Ob("_cffi_backend.c:flow[foreign C code is entered only from cdata_call and fetch_global_var_addr; found: %s]"
             % ', '.join(sorted(users)), [], z3.BoolVal(users == {'cdata_call', 'fetch_global_var_addr'}), kind='flow')
    gic = {name for name, f in tu.functions.items() for nm, _n in _calls_in_order(f) if nm == 'general_invoke_callback'}
    yield Ob("_cffi_backend.c:flow[Python code is entered from foreign C code only through invoke_callback and cffi_call_python; "
             "found: %s]" % ', '.join(sorted(gic)), [], z3.BoolVal(gic == {'invoke_callback', 'cffi_call_python'}), kind='flow')


def recompiler_obligation():
    """recompiler.py, _generate_cpy_function_decl: the emitted lines around the direct call are, in this order,
    Py_BEGIN_ALLOW_THREADS, _cffi_restore_errno();, the call, _cffi_save_errno();, Py_END_ALLOW_THREADS"""
    import ast
    import os
    from vf import cfront
    from vf.smt import Ob
    path = os.path.join(cfront.REPO, 'src', 'cffi', 'recompiler.py')
    tree = ast.parse(open(path).read())
    seq = []
    for node in ast.walk(tree):
        if isinstance(node, ast.FunctionDef) and node.name == '_generate_cpy_function_decl':
            for sub in ast.walk(node):
                if isinstance(sub, ast.Call) and isinstance(sub.func, ast.Name) and sub.func.id == 'prnt' and sub.args:
                    a = sub.args[0]
                    txt = None
                    if isinstance(a, ast.Constant) and isinstance(a.value, str):
                        txt = a.value
                    elif isinstance(a, ast.BinOp) and isinstance(a.left, ast.Constant) and isinstance(a.left.value, str):
                        txt = a.left.value
                    seq.append((sub.lineno, (txt or '<expr>').strip()))
    seq.sort()
    texts = [t for _l, t in seq]
    ok = False
    where = 'not found'
    if '_cffi_restore_errno();' in texts:
        k = texts.index('_cffi_restore_errno();')
        around = texts[k - 1:k + 4]
        where = ' | '.join(around)
        ok = (len(around) == 5 and around[0] == 'Py_BEGIN_ALLOW_THREADS' and around[2].startswith('{ %s') and
              around[3] == '_cffi_save_errno();' and around[4] == 'Py_END_ALLOW_THREADS' and
              texts.count('_cffi_restore_errno();') == 1 and texts.count('_cffi_save_errno();') == 1)
    return Ob("recompiler.py:_generate_cpy_function_decl:flow[the emitted direct call is bracketed by _cffi_restore_errno / "
              "_cffi_save_errno inside the GIL-released region; found: %s]" % where, [], z3.BoolVal(ok), kind='flow')


def export_obligations(tu):
    """the generated module reaches restore_errno / save_errno through _cffi_exports[13] / [14] (_cffi_include.h); the
    backend's table must hold exactly these functions at these indices"""
    import os
    import re
    from vf import cfront, hdrinst
    from vf.smt import Ob
    table = hdrinst.export_table(tu)
    hdr = open(os.path.join(cfront.REPO, 'src', 'cffi', '_cffi_include.h')).read().replace('\\\n', ' ')
    idx = {}
    for nm in ('_cffi_restore_errno', '_cffi_save_errno'):
        m = re.search(r'#define\s+%s\s+\(\(void\(\*\)\(void\)\)_cffi_exports\[(\d+)\]\)' % nm, hdr)
        idx[nm] = int(m.group(1)) if m else None
    got = {nm: table.get(k) for nm, k in idx.items()}
    ok = got == {'_cffi_restore_errno': 'restore_errno_only', '_cffi_save_errno': 'save_errno_only'}
    return [Ob("_cffi_include.h:flow[_cffi_restore_errno / _cffi_save_errno are void(void) calls through the export table "
               "entries that hold restore_errno / save_errno; found: %s]" % sorted(got.items()), [], z3.BoolVal(ok), kind='flow')]


C22_MORE = ['fetch_global_var_addr#errno', 'invoke_callback', 'cffi_call_python']
