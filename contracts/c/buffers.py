"""Contracts for ffi.buffer objects (minibuffer.h), b_buffer_new and b_memmove (C19): the byte-array model.

Ghost vocabulary: blen(o), bbyte(o, k): length and bytes of a Python bytes object; src_buf(x), src_len(x): the
address and length of the contiguous buffer an object exports (assumed contract of the buffer protocol)."""
import z3

from .base import R, BV, B64, B8, Contract, Frame, Ctx, exc, py_type, in_range
from .ints import flag, CT_POINTER, CT_ARRAY
from .cast import is_cdata, cdata_fields
from .index import arr_len, is_owning

R.inline |= {'_cdata_var_byte_size', 'cdataowning_size_bytes', 'cffi_get_size'}
blen = z3.Function('blen', B64, B64)
bbyte = z3.Function('bbyte', B64, B64, B8)
src_buf = z3.Function('src_buf', B64, B64)
src_len = z3.Function('src_len', B64, B64)
K = z3.BitVec('k!any', 64)           # free in goals: "for every k"
A = z3.BitVec('a!any', 64)


@R.model('PyBytes_FromStringAndSize', "new bytes object holding the n bytes at the address (allocation succeeds)")
def _bytes_from(ex, st, args, n):
    addr, size = args
    o = ex.fresh('newbytes', B64)
    c = Ctx(ex, {}, st)
    k = z3.BitVec('k!bf', 64)
    st.assume(z3.And(o != 0, c.valid(o, 32), blen(o) == size,
                     z3.ForAll([k], z3.Implies(z3.ULT(k, size), bbyte(o, k) == z3.Select(st.raw, addr + k)))))
    return o


R.models['PyBuffer_Release'] = lambda ex, st, args, n: None
R.assumed['PyBuffer_Release'] = "releases the exporter; no effect on the modelled state"
R.models['PyObject_GC_Track'] = lambda ex, st, args, n: None
R.models['PyObject_GC_UnTrack'] = lambda ex, st, args, n: None
R.assumed['PyObject_GC_Track'] = "no effect on the modelled state"


@R.model('_PyObject_GC_New', "new object of the given type (allocation succeeds: A-ALLOC)")
def _gc_new(ex, st, args, n):
    o = ex.alloc(st, BV(64, 64), 'gcobj')
    ex.write_field(st, o, 'PyObject', 'ob_type', args[0])
    return o


@R.model('PyErr_WarnEx', "0, or -1 with an exception when the warning is turned into an error")
def _warn(ex, st, args, n):
    r = ex.fresh('warn', z3.BitVecSort(32))
    e = ex.fresh('warn_err', B64)
    st.assume(z3.And(z3.Or(r == 0, r == BV(-1, 32)), e != 0))
    st.err = z3.If(r == 0, st.err, e)
    return r


@R.model('sprintf', "writes a NUL-terminated text of unknown content into the buffer")
def _sprintf(ex, st, args, n):
    a = z3.BitVec('a!sp', 64)
    new = ex.fresh('sprintf_out', z3.ArraySort(B64, B8))
    old = st.raw
    st.raw = z3.Lambda([a], z3.If(in_range(a, args[0], BV(256, 64)), z3.Select(new, a), z3.Select(old, a)))
    return ex.fresh('sprintf_n', z3.BitVecSort(32))


def mb(c, st, o):
    return c.field(st, o, 'MiniBufferObj', 'mb_data'), c.field(st, o, 'MiniBufferObj', 'mb_size')


def mb_wf(c, st, o):
    data, size = mb(c, st, o)
    return z3.And(c.valid(o, 56), size >= 0, z3.ULT(size, BV(1 << 47, 64)), c.valid(data, size))


@R.add
class minibuffer_new(Contract):
    name = 'minibuffer_new'

    def allocates(self, c):
        return [(c.result, BV(56, 64))]

    def pre(self, c):
        return []

    def frame(self, c):
        return Frame()

    def post(self, c):
        d, s = mb(c, c.new, c.result)
        return [('a buffer object over exactly (data, size)', z3.And(c.result != 0, d == c['data'], s == c['size']))]


@R.add
class mb_length(Contract):
    name = 'mb_length'
    pure = True

    def pre(self, c):
        return [('self valid', c.valid(c['self'], 56))]

    def post(self, c):
        return [('len(buf) is the size it was created with', c.result == mb(c, c.old, c['self'])[1])]


@R.add
class mb_item(Contract):
    name = 'mb_item'

    def pre(self, c):
        return [('buffer-wf', mb_wf(c, c.old, c['self'])), ('no-pending-exception', c.old.err == 0)]

    def frame(self, c):
        return Frame(err=True)

    def post(self, c):
        data, size = mb(c, c.old, c['self'])
        i = c['idx']
        inside = z3.And(i >= 0, i < size)
        return [('0 <= i < n: the one-byte bytes object holding byte i',
                 z3.Implies(inside, z3.And(c.result != 0, blen(c.result) == 1,
                                           bbyte(c.result, BV(0, 64)) == z3.Select(c.old.raw, data + i),
                                           c.new.err == 0))),
                ('otherwise IndexError', z3.Implies(z3.Not(inside), z3.And(c.result == 0,
                                                                         c.new.err == exc(c.ex, 'IndexError'))))]


def clamp(left, right, size):
    l1 = z3.If(left < 0, BV(0, 64), left)
    r1 = z3.If(right > size, size, right)
    l2 = z3.If(l1 > r1, r1, l1)
    return l2, r1


def py_slice_bounds(left, right, size):
    """the half-open range a Python sequence of length `size` gives to the already-normalised [left:right]"""
    lo = z3.If(left < 0, BV(0, 64), z3.If(left > size, size, left))
    hi = z3.If(right < 0, BV(0, 64), z3.If(right > size, size, right))
    return lo, z3.If(hi < lo, lo, hi)


@R.add
class mb_slice(Contract):
    name = 'mb_slice'

    def pre(self, c):
        return [('buffer-wf', mb_wf(c, c.old, c['self'])), ('no-pending-exception', c.old.err == 0)]

    def frame(self, c):
        return Frame()

    def post(self, c):
        data, size = mb(c, c.old, c['self'])
        lo, hi = py_slice_bounds(c['left'], c['right'], size)
        r = c.result
        return [('bytes(buf[left:right]): length as a bytearray slice', z3.And(r != 0, blen(r) == hi - lo)),
                ('bytes(buf[left:right]): byte k is byte lo + k of the memory',
                 z3.Implies(z3.ULT(K, hi - lo), bbyte(r, K) == z3.Select(c.old.raw, data + lo + K)))]


@R.add
class mb_ass_item(Contract):
    name = 'mb_ass_item'

    def pre(self, c):
        return [('buffer-wf', mb_wf(c, c.old, c['self'])), ('other valid', c.valid(c['other'], 40)),
                ('no-pending-exception', c.old.err == 0)]

    def frame(self, c):
        data, size = mb(c, c.old, c['self'])
        return Frame(err=True, raw=[(data + c['idx'], 1)])

    def post(self, c):
        data, size = mb(c, c.old, c['self'])
        i = c['idx']
        inside = z3.And(i >= 0, i < size)
        return [('index outside the buffer: IndexError, no byte changes',
                 z3.Implies(z3.Not(inside), z3.And(c.result == BV(-1, 32), c.new.err == exc(c.ex, 'IndexError'),
                                                   z3.Select(c.new.raw, A) == z3.Select(c.old.raw, A)))),
                ('accepted: exactly byte i changes (frame), to the given byte',
                 z3.Implies(c.result == 0, z3.And(inside, c.new.err == 0))),
                ('rejected: no byte changes', z3.Implies(c.result != 0, z3.Select(c.new.raw, A) == z3.Select(c.old.raw, A)))]


class _FetchAsBuffer(Contract):
    """_fetch_as_buffer: the buffer an object exports (for a cdata: its data pointer; the length is NOT filled in)"""
    name = '_fetch_as_buffer'
    trusted = True

    def pre(self, c):
        return [('view valid', c.valid(c['view'], 80))]

    def frame(self, c):
        v = c['view']
        return Frame(err=True, fields=[('Py_buffer', 'buf', v), ('Py_buffer', 'len', v), ('Py_buffer', 'obj', v)])

    def post(self, c):
        v = c['view']
        buf = c.field(c.new, v, 'Py_buffer', 'buf')
        ln = c.field(c.new, v, 'Py_buffer', 'len')
        x = c['x']
        return [('0 and the exported buffer, or -1 with an exception',
                 z3.Or(z3.And(c.result == 0, c.new.err == c.old.err, buf == src_buf(x),
                              z3.Implies(z3.Not(is_cdata(c, c.old, x)), z3.And(ln == src_len(x), ln >= 0)),
                              c.valid(buf, src_len(x))),
                       z3.And(c.result == BV(-1, 32), c.new.err != 0)))]


R.add(_FetchAsBuffer)


@R.add
class mb_ass_slice(Contract):
    name = 'mb_ass_slice'

    def pre(self, c):
        return [('buffer-wf', mb_wf(c, c.old, c['self'])), ('other valid', c.valid(c['other'], 16)),
                ('the exported source buffer is mapped memory', z3.And(c.valid(src_buf(c['other']), src_len(c['other'])),
                                                                      z3.ULT(src_len(c['other']), BV(1 << 47, 64)))),
                ('no-pending-exception', c.old.err == 0)]

    def scope(self, c):
        return [('the right operand is not a cdata (its length would be read uninitialised: recorded divergence)',
                 z3.Not(is_cdata(c, c.old, c['other']))),
                ('source and destination do not overlap (memcpy)',
                 z3.Or(z3.ULE(src_buf(c['other']) + src_len(c['other']), mb(c, c.old, c['self'])[0]),
                       z3.ULE(mb(c, c.old, c['self'])[0] + mb(c, c.old, c['self'])[1], src_buf(c['other']))))]

    def frame(self, c):
        data, size = mb(c, c.old, c['self'])
        lo, hi = py_slice_bounds(c['left'], c['right'], size)
        return Frame(err=True, raw=[(data + lo, hi - lo)])

    def post(self, c):
        data, size = mb(c, c.old, c['self'])
        lo, hi = py_slice_bounds(c['left'], c['right'], size)
        o = c['other']
        return [('length-preserving assignment is accepted, any other length raises ValueError',
                 z3.Implies(c.new.err == c.old.err,
                            (c.result == 0) == (src_len(o) == hi - lo))),
                ('accepted: the slice holds the source bytes, in order',
                 z3.Implies(z3.And(c.result == 0, z3.ULT(K, hi - lo)),
                            z3.Select(c.new.raw, data + lo + K) == z3.Select(c.old.raw, src_buf(o) + K))),
                ('rejected: ValueError or the exporter\'s error; no byte of the buffer changes',
                 z3.Implies(c.result != 0, z3.And(c.new.err != 0,
                                                  z3.Implies(in_range(A, data, size),
                                                             z3.Select(c.new.raw, A) == z3.Select(c.old.raw, A)))))]


@R.add
class b_buffer_new(Contract):
    """ffi.buffer(cdata[, size]): a view of exactly `size` bytes at the cdata's address when a size >= 0 is given
    (0 included); otherwise of the cdata's own size"""
    name = 'b_buffer_new'

    def pre(self, c):
        return [('args valid', c.valid(c['args'], 16)), ('no-pending-exception', c.old.err == 0)]

    def after_parse(self, c, st):
        cd = c.local(st, 'cd')
        ct, data = cdata_fields(c, st, cd)
        self.parsed = dict(cd=cd, size=c.local(st, 'size'), data=data, ct=ct,
                           flags=c.field(st, ct, 'CTypeDescrObject', 'ct_flags'),
                           itemsize=c.field(st, c.field(st, ct, 'CTypeDescrObject', 'ct_itemdescr'),
                                            'CTypeDescrObject', 'ct_size'),
                           own=is_owning(c, st, cd), alen=arr_len(c, st, cd))
        from .ints import ctype_wf
        return [('cdata-wf', z3.And(c.valid(cd, 64), is_cdata(c, st, cd), ctype_wf(c, st, ct),
                                    c.valid(c.field(st, ct, 'CTypeDescrObject', 'ct_itemdescr'), 104)))]

    def frame(self, c):
        return None

    def witness(self, c):
        return {}

    def post(self, c):
        r = c.result
        d, s = mb(c, c.new, r)
        P = getattr(self, 'parsed', None)
        if P is None:
            return [('the arguments are parsed with PyArg_ParseTupleAndKeywords', z3.BoolVal(False))]
        n = P['size']
        isptr, isarr = flag(P['flags'], CT_POINTER), flag(P['flags'], CT_ARRAY)
        return [('a returned buffer views the memory at the cdata\'s address', z3.Implies(r != 0, d == P['data'])),
                ('an explicit size n >= 0 (0 included) gives a view of exactly n bytes',
                 z3.Implies(z3.And(r != 0, n >= 0), s == n)),
                ('without a size, a non-owning pointer gives the size of the pointed-to type',
                 z3.Implies(z3.And(r != 0, n < 0, isptr, z3.Not(P['own'])), s == P['itemsize'])),
                ('without a size, a non-owning array gives length * item size',
                 z3.Implies(z3.And(r != 0, n < 0, isarr, z3.Not(P['own'])), s == P['alen'] * P['itemsize'])),
                ('only pointers and arrays have a buffer; a view never has a negative length',
                 z3.Implies(r != 0, z3.And(z3.Or(isptr, isarr), s >= 0)))]


@R.add
class b_memmove(Contract):
    """ffi.memmove(dest, src, n): the n bytes at dest become the n bytes that were at src (as if copied through an
    intermediate buffer, for any overlap); nothing else changes"""
    name = 'b_memmove'

    def pre(self, c):
        return [('args valid', c.valid(c['args'], 16)), ('no-pending-exception', c.old.err == 0)]

    def after_parse(self, c, st):
        d, s, n = c.local(st, 'dest_obj'), c.local(st, 'src_obj'), c.local(st, 'n')
        self.parsed = dict(dest=d, src=s, n=n)
        return [('the objects are valid and the buffers they export are mapped memory with room for n bytes (the '
                 'caller\'s promise to ffi.memmove)',
                 z3.And(c.valid(d, 16), c.valid(s, 16),
                        z3.Implies(n >= 0, z3.And(c.valid(src_buf(d), n), c.valid(src_buf(s), n)))))]

    def frame(self, c):
        return None

    def post(self, c):
        P = getattr(self, 'parsed', None)
        if P is None:
            return [('the arguments are parsed with PyArg_ParseTupleAndKeywords', z3.BoolVal(False))]
        n, d, s = P['n'], src_buf(P['dest']), src_buf(P['src'])
        ok = c.result != 0
        return [('negative n is refused', z3.Implies(n < 0, z3.And(c.result == 0, c.new.err != 0))),
                ('success: byte k of dest is the old byte k of src, for every k < n',
                 z3.Implies(z3.And(ok, z3.ULT(K, n)), z3.Select(c.new.raw, d + K) == z3.Select(c.old.raw, s + K))),
                ('refused: an exception is set', z3.Implies(z3.Not(ok), c.new.err != 0))]
