"""Contracts for the callback closure allocator (C29, malloc_closure.h): cffi_closure_alloc, cffi_closure_free,
more_core under a representation invariant of the free list, stated with ghost state

   cl_infree : address -> Bool      the blocks on the free list
   cl_live   : address -> Bool      the blocks handed out and not yet given back
   cl_rank   : address -> 64 bits   position of a free block counted from the END of the list (last block: 1)
   cl_count  : 64 bits              length of the free list

INV:  free_list == NULL <=> cl_count == 0;  the head is free and has rank cl_count;  every free block is a valid
block with 1 <= rank <= cl_count, whose `next` is NULL iff its rank is 1 and otherwise a free block of rank one less;
ranks of free blocks are pairwise different;  no block is both free and live.
Every public operation preserves INV (so it holds after any history) and `alloc` returns a block that was not live:
two live closures never share an address.  The ghost state is updated by ghost assignments at function exit / at the
end of a loop iteration (Contract.ghost_update / LoopSpec.ghost_update), never by the code.
"""
import z3

from . import allc                     # noqa: F401
from .base import R as R0, BV, B64, B8, Contract, Frame, Ctx, LoopSpec, b2i
from vf.cexec import Exec
from vf.cfront import line_of

R = R0.fork()
BOOLARR = z3.ArraySort(B64, z3.BoolSort())
RANKARR = z3.ArraySort(B64, B64)
for _k, _s in (('cl_infree', BOOLARR), ('cl_live', BOOLARR), ('cl_rank', RANKARR), ('cl_count', B64)):
    Exec.GHOST_SORTS[_k] = _s
GH = ['cl_infree', 'cl_live', 'cl_rank', 'cl_count']
BLOCK = 'union mmapped_block'


def g(st, key):
    return st.gvar(key, Exec.GHOST_SORTS[key])


def block_size(c):
    return c.tu.layout(c.tu.parse_type(BLOCK).name)[0]


def nxt(c, st, x):
    return c.field(st, x, BLOCK, 'next')


def head(c, st):
    return c.global_value(st, 'free_list', 64)


def INV(c, st, infree=None, live=None, rank=None, count=None, hd=None, split=False):
    infree = g(st, 'cl_infree') if infree is None else infree
    live = g(st, 'cl_live') if live is None else live
    rank = g(st, 'cl_rank') if rank is None else rank
    count = g(st, 'cl_count') if count is None else count
    hd = head(c, st) if hd is None else hd
    S = block_size(c)
    x, y = z3.BitVecs('x!cl y!cl', 64)
    rx = z3.Select(rank, x)
    nx = nxt(c, st, x)
    parts = [
        ('the list is empty exactly when its length is 0', (hd == 0) == (count == 0)),
        ('the head is a free block of the highest rank', z3.Implies(hd != 0, z3.And(z3.Select(infree, hd), z3.Select(rank, hd) == count))),
        ('every free block is a valid block linked to the free block of the next lower rank (or ends the list)',
         z3.ForAll([x], z3.Implies(z3.Select(infree, x), z3.And(
             x != 0, c.valid(x, S), z3.UGE(rx, 1), z3.ULE(rx, count),
             z3.If(rx == 1, nx == 0, z3.And(nx != 0, z3.Select(infree, nx), z3.Select(rank, nx) == rx - 1)))))),
        ('ranks of free blocks are pairwise different',
         z3.ForAll([x, y], z3.Implies(z3.And(z3.Select(infree, x), z3.Select(infree, y), z3.Select(rank, x) == z3.Select(rank, y)),
                                      x == y))),
        ('no block is both free and live',
         z3.ForAll([x], z3.Not(z3.And(z3.Select(infree, x), z3.Select(live, x))))),
    ]
    return parts if split else z3.And(*[p for _l, p in parts])


@R.add
class cffi_closure_free(Contract):
    name = 'cffi_closure_free'

    def pre(self, c):
        p = c['p']
        return [('the allocator invariant', INV(c, c.old)),
                ('fewer than 2^40 blocks exist', z3.ULT(g(c.old, 'cl_count'), BV(1 << 40, 64))),
                ('p is a live closure', z3.And(p != 0, z3.Select(g(c.old, 'cl_live'), p), c.valid(p, block_size(c))))]

    def frame(self, c):
        return Frame(fields=[(BLOCK, 'next')], ghost=GH + ['free_list'])

    def ghost_update(self, c):
        st = c.new
        p = c['p']
        n = g(st, 'cl_count')
        return {'cl_infree': z3.Store(g(st, 'cl_infree'), p, True), 'cl_live': z3.Store(g(st, 'cl_live'), p, False),
                'cl_rank': z3.Store(g(st, 'cl_rank'), p, n + 1), 'cl_count': n + 1}

    def post(self, c):
        return [(lab + ' (invariant re-established)', f) for lab, f in INV(c, c.new, split=True)] + \
               [('exactly p stops being live', g(c.new, 'cl_live') == z3.Store(g(c.old, 'cl_live'), c['p'], False))]


@R.add
class emutramp_enabled_check(Contract):
    """reads /proc/self/status -- assumed: returns an int, no effect on the modelled state"""
    name = 'emutramp_enabled_check'
    trusted = True
    pure = True


@R.model('sysconf', "sysconf(_SC_PAGESIZE): the page size, a positive number not above 2^20; no effect")
def _sysconf(ex, st, args, n):
    v = ex.fresh('sysconf', B64)
    st.assume(z3.And(v > 0, v <= BV(1 << 20, 64)))
    return v


@R.model('mmap', "MAP_FAILED, or a fresh mapping of `length` bytes (A-ALLOC style freshness) that contains no block "
                 "the allocator already tracks: earlier mappings are never unmapped, so a new one is disjoint from them")
def _mmap(ex, st, args, n):
    length = args[1]
    p = ex.fresh('mmap', B64)
    failed = p == BV(-1, 64)
    q = ex.alloc(st.copy(), length, 'mmap_region')        # (address constraints of a fresh region, taken conditionally)
    c = Ctx(ex, {}, st)
    a = z3.BitVec('a!mm', 64)
    infree, live = g(st, 'cl_infree'), g(st, 'cl_live')
    st.assume(z3.Implies(z3.Not(failed), z3.And(
        c.valid(p, length), z3.ULT(p, BV(1 << 46, 64)), p != 0,
        z3.ForAll([a], z3.Implies(z3.And(z3.ULE(p, a), z3.ULT(a, p + length)),
                                  z3.And(z3.Not(z3.Select(infree, a)), z3.Not(z3.Select(live, a))))))))
    return p


@R.add
class more_core(Contract):
    name = 'more_core'

    def pre(self, c):
        st = c.old
        return [('the allocator invariant', INV(c, st)), ('called with an empty free list', head(c, st) == 0),
                ('fewer than 2^40 blocks exist', z3.ULT(g(st, 'cl_count'), BV(1 << 40, 64))),
                ('page counters are sane', z3.And(c.global_value(st, 'allocate_num_pages', 64) >= 0,
                                                  c.global_value(st, 'allocate_num_pages', 64) < BV(1 << 24, 64),
                                                  c.global_value(st, '_pagesize', 64) <= BV(1 << 20, 64)))]

    def frame(self, c):
        return Frame(fields=[(BLOCK, 'next')], ghost=GH + ['free_list', 'allocate_num_pages', '_pagesize', 'emutramp_enabled'])

    def _loop_inv(self, c, st):
        S = block_size(c)
        item, i, count = c.local(st, 'item'), c.local(st, 'i'), c.local(st, 'count')
        entry = getattr(c, 'entry', st)
        base = c.local(entry, 'item')
        a = z3.BitVec('a!mc', 64)
        infree, live = g(st, 'cl_infree'), g(st, 'cl_live')
        return [(lab, f) for lab, f in INV(c, st, split=True)] + [
            ('item walks the mapping in block-sized steps', z3.And(i >= 0, i <= count, item == base + i * S, base == c.local(entry, 'item'))),
            ('the mapping holds count blocks', z3.And(count >= 0, count < BV(1 << 40, 64), c.valid(base, count * S), base != 0,
                                                      z3.ULT(base, BV(1 << 46, 64)))),
            ('the blocks fit in the mapping',
             z3.And(z3.ULE(count * S, c.global_value(st, 'allocate_num_pages', 64) * c.global_value(st, '_pagesize', 64)),
                    z3.ULT(c.global_value(st, 'allocate_num_pages', 64) * c.global_value(st, '_pagesize', 64), BV(1 << 45, 64)))),
            ('the rest of the mapping is still untracked',
             z3.ForAll([a], z3.Implies(z3.And(z3.ULE(item, a), z3.ULT(a, base + count * S)),
                                       z3.And(z3.Not(z3.Select(infree, a)), z3.Not(z3.Select(live, a)))))),
            ('one more tracked block per iteration', g(st, 'cl_count') == g(entry, 'cl_count') + i),
            ('live closures are not touched', live == g(c.old, 'cl_live'))]

    def _loop_ghost(self, c, st_before, st_after):
        """ghost assignment at the end of an iteration: the block just linked is free, with the next rank"""
        item = c.local(st_before, 'item')
        n = g(st_after, 'cl_count')
        return {'cl_infree': z3.Store(g(st_after, 'cl_infree'), item, True),
                'cl_rank': z3.Store(g(st_after, 'cl_rank'), item, n + 1), 'cl_count': n + 1}

    loops = property(lambda self: {0: LoopSpec(invariant=self._loop_inv, ghost_update=self._loop_ghost, forget=('count',))})

    def post(self, c):
        return [(lab + ' (invariant re-established)', f) for lab, f in INV(c, c.new, split=True)] + \
               [('live closures are not touched', g(c.new, 'cl_live') == g(c.old, 'cl_live'))]


@R.add
class cffi_closure_alloc(Contract):
    name = 'cffi_closure_alloc'

    def pre(self, c):
        st = c.old
        return [('the allocator invariant', INV(c, st)),
                ('fewer than 2^40 blocks exist', z3.ULT(g(st, 'cl_count'), BV(1 << 40, 64))),
                ('page counters are sane', z3.And(c.global_value(st, 'allocate_num_pages', 64) >= 0,
                                                  c.global_value(st, 'allocate_num_pages', 64) < BV(1 << 24, 64),
                                                  c.global_value(st, '_pagesize', 64) <= BV(1 << 20, 64)))]

    def frame(self, c):
        return Frame(fields=[(BLOCK, 'next')], ghost=GH + ['free_list', 'allocate_num_pages', '_pagesize', 'emutramp_enabled'])

    def ghost_update(self, c):
        st = c.new
        r = c.result
        return {'cl_infree': z3.If(r != 0, z3.Store(g(st, 'cl_infree'), r, False), g(st, 'cl_infree')),
                'cl_live': z3.If(r != 0, z3.Store(g(st, 'cl_live'), r, True), g(st, 'cl_live')),
                'cl_count': z3.If(r != 0, g(st, 'cl_count') - 1, g(st, 'cl_count'))}

    def post(self, c):
        r = c.result
        live0, live1 = g(c.old, 'cl_live'), g(c.new, 'cl_live')
        return [(lab + ' (invariant re-established)', f) for lab, f in INV(c, c.new, split=True)] + [
            ('the block handed out was not live: it differs from every live closure', z3.Implies(r != 0, z3.Not(z3.Select(live0, r)))),
            ('exactly that block becomes live', live1 == z3.If(r != 0, z3.Store(live0, r, True), live0)),
            ('it is a valid block', z3.Implies(r != 0, c.valid(r, block_size(c))))]


C29_FUNCS = ['cffi_closure_free', 'more_core', 'cffi_closure_alloc']


# ---------------------------------------------------------------------------------------------------------------
# binding of a closure to its callback object

from .base import exc, py_type                                     # noqa: E402
from .dl import _parse_tuple                                        # noqa: E402,F401  (generic PyArg_ParseTuple)

tuple_item = R.ghost('tuple_item', B64, B64, B64)                   # tuple_item(t, k): member k of a tuple object
CLO = 'CDataObject_closure'


@R.add
class prepare_callback_info_tuple(Contract):
    """builds the (ctype, callable, raw error bytes, onerror) tuple of a callback -- assumed here (its error-value
    handling is C14's subject): NULL with an exception, or a tuple whose members 0 and 1 are the ctype and the
    Python callable it was given"""
    name = 'prepare_callback_info_tuple'
    trusted = True

    def frame(self, c):
        return Frame(err=True)

    def post(self, c):
        r = c.result
        return [('NULL with an exception, or the info tuple of exactly this function type and this callable',
                 z3.If(r == 0, c.new.err != 0,
                       z3.And(c.valid(r, 56), c.new.err == c.old.err, tuple_item(r, BV(0, 64)) == c['ct'],
                              tuple_item(r, BV(1, 64)) == c['ob'])))]


@R.model('ffi_prep_closure', "libffi: on FFI_OK the closure is set up to call `fun` with `user_data` (closure->user_data "
                             "and closure->fun are stored); another status otherwise")
def _prep(ex, st, args, n):
    clo, cif, fun, ud = args
    status = ex.fresh('ffi_status', z3.BitVecSort(32))
    ok = status == 0
    for fld, val in (('user_data', ud), ('fun', fun), ('cif', cif)):
        old = ex.read_field(st, clo, 'ffi_closure', fld)
        ex.write_field(st, clo, 'ffi_closure', fld, z3.If(ok, val, old))
    return status


R.models['PyObject_GC_New'] = R.models.get('_PyObject_GC_New')


@R.add
class b_callback(Contract):
    """ffi.callback(ct, ob): on success the new cdata owns a closure that was not in use by any live callback, is
    now live, and is bound -- through libffi's user_data -- to the info tuple of exactly this ctype and this Python
    callable; its C address is that closure"""
    name = 'b_callback'

    def pre(self, c):
        st = c.old
        return [('the allocator invariant', INV(c, st)),
                ('fewer than 2^40 blocks exist', z3.ULT(g(st, 'cl_count'), BV(1 << 40, 64))),
                ('page counters are sane', z3.And(c.global_value(st, 'allocate_num_pages', 64) >= 0,
                                                  c.global_value(st, 'allocate_num_pages', 64) < BV(1 << 24, 64),
                                                  c.global_value(st, '_pagesize', 64) <= BV(1 << 20, 64))),
                ('args-valid', c.valid(c['args'], 40)), ('None is an object', c.valid(c.ex.global_addr('_Py_NoneStruct'), 16)),
                ('no-pending-exception', st.err == 0)]

    def frame(self, c):
        return Frame(err=True, all_raw=True, all_fields=True,
                     ghost=GH + ['free_list', 'allocate_num_pages', '_pagesize', 'emutramp_enabled'])

    def post(self, c):
        st0, st1 = c.old, c.new
        r = c.result
        cl = c.field(st1, r, CLO, 'closure')
        ud = c.field(st1, cl, 'ffi_closure', 'user_data')
        live0, live1 = g(st0, 'cl_live'), g(st1, 'cl_live')
        ct = c.field(st1, r, 'CDataObject', 'c_type')
        return [(lab + ' (invariant re-established)', f) for lab, f in INV(c, st1, split=True)] + [
            ('success: the closure was not in use by any live callback and is live now',
             z3.Implies(r != 0, z3.And(cl != 0, z3.Not(z3.Select(live0, cl)), live1 == z3.Store(live0, cl, True)))),
            ('success: libffi will call invoke_callback with the info tuple of this very ctype and callable',
             z3.Implies(r != 0, z3.And(c.field(st1, cl, 'ffi_closure', 'fun') == c.ex.global_addr('invoke_callback'),
                                       ud != 0, tuple_item(ud, BV(0, 64)) == ct))),
            ("success: the cdata's C address is the closure itself",
             z3.Implies(r != 0, c.field(st1, r, 'CDataObject', 'c_data') == cl)),
            ('failure only with an exception', z3.Implies(r == 0, st1.err != 0))]


@R.add
class general_invoke_callback(Contract):
    """C14's subject; here only its call is traced"""
    name = 'general_invoke_callback'
    trusted = True
    record_calls = True

    def frame(self, c):
        return Frame(all_raw=True, all_fields=True, err=True)


for _nm in ('gil_ensure', 'gil_release'):
    class _G(Contract):
        name = _nm
        trusted = True

        def frame(self, c):
            return Frame(all_raw=True, all_fields=True, trace=[])
    R.add(_G)


@R.add
class invoke_callback(Contract):
    """what libffi calls: the user_data it hands over goes to general_invoke_callback unchanged"""
    name = 'invoke_callback'

    def frame(self, c):
        return None

    def post(self, c):
        st0, st1 = c.old, c.new
        nm = 'general_invoke_callback'
        return [('the Python-level dispatch is entered exactly once, with the closure\'s own user_data, result and args',
                 z3.And(st1.gvar('tmp:calls:' + nm, B64) == st0.gvar('tmp:calls:' + nm, B64) + 1,
                        st1.gvar('tmp:arg:%s:userdata' % nm, B64) == c['userdata'],
                        st1.gvar('tmp:arg:%s:result' % nm, B64) == c['result'],
                        st1.gvar('tmp:arg:%s:args' % nm, B64) == c['args']))]


C29_FUNCS += ['b_callback', 'invoke_callback']


@R.add
class cdata_dealloc(Contract):
    """releases the cdata object itself -- assumed: no effect on the allocator"""
    name = 'cdata_dealloc'
    trusted = True

    def frame(self, c):
        return Frame()


@R.add
class cdataowninggc_dealloc(Contract):
    """a callback cdata dies: its closure goes back to the free list exactly once and stops being live"""
    name = 'cdataowninggc_dealloc'

    def parts(self, c):
        st = c.old
        cd = c['cd']
        ct = c.field(st, cd, 'CDataObject', 'c_type')
        fl = c.field(st, ct, 'CTypeDescrObject', 'ct_flags')
        return cd, ct, fl, c.field(st, cd, CLO, 'closure')

    def pre(self, c):
        st = c.old
        cd, ct, fl, cl = self.parts(c)
        return [('the allocator invariant', INV(c, st)), ('fewer than 2^40 blocks exist', z3.ULT(g(st, 'cl_count'), BV(1 << 40, 64))),
                ('cd-valid', z3.And(c.valid(cd, 48), c.valid(ct, 104))),
                ("object invariant of callback cdata (established by b_callback): its closure is a live block",
                 z3.Implies(z3.And((fl & 0x100) != 0, (fl & 0x00200000) == 0),
                            z3.And(cl != 0, z3.Select(g(st, 'cl_live'), cl), c.valid(cl, block_size(c)))))]

    def scope(self, c):
        cd, ct, fl, cl = self.parts(c)
        return [('a callback (function-pointer cdata), not a handle', z3.And((fl & 0x100) != 0, (fl & 0x00200000) == 0))]

    def frame(self, c):
        return Frame(fields=[(BLOCK, 'next')], ghost=GH + ['free_list'])

    def post(self, c):
        cd, ct, fl, cl = self.parts(c)
        iscb = z3.And((fl & 0x100) != 0, (fl & 0x00200000) == 0)
        return [(lab + ' (invariant re-established)', z3.Implies(iscb, f)) for lab, f in INV(c, c.new, split=True)] + \
               [('exactly its closure stops being live', z3.Implies(iscb, g(c.new, 'cl_live') == z3.Store(g(c.old, 'cl_live'), cl, False)))]


C29_FUNCS.append('cdataowninggc_dealloc')


def nonvacuity(tu):
    """the invariant is not vacuous: it holds of the allocator's initial state (empty free list, nothing live) --
    discharged as an obligation, since `sat` answers for the quantified precondition covers are out of the solvers'
    reach within a cover's budget"""
    from vf.cexec import State
    from vf.smt import Ob
    ex = Exec(tu, R, 'cffi_closure_free', R.contracts['cffi_closure_free'])
    st = State()
    st.raw = z3.Array('RAW0', B64, B8)
    st.err = BV(0, 64)
    c = Ctx(ex, {}, st)
    empty = INV(c, st, infree=z3.K(B64, z3.BoolVal(False)), live=z3.K(B64, z3.BoolVal(False)), rank=z3.K(B64, BV(0, 64)),
                count=BV(0, 64), hd=BV(0, 64))
    return [Ob('malloc_closure.h:INV:non-vacuity[the invariant holds of the initial state: empty free list, no live closure]',
               [], empty, kind='lemma')]
