"""Contracts for floating-point stores and loads (C05): read_raw_float_data, write_raw_float_data, the long double and
complex readers/writers, and the floating-point branch of convert_from_object as a contract instance of its own.
Semantics: C `(float)d` on this target is IEEE-754 round-to-nearest-even (z3's fp.to_fp RNE); comparisons of stored
values are made on the value (SMT-LIB `=` on the floating-point sort: all NaNs are one value), i.e. NaN payloads are
not compared; long double is an opaque 128-bit pattern (80 value bits + padding), copied whole."""
import z3

from . import allc                     # noqa: F401
from .base import (R as R0, BV, B64, B8, Contract, Frame, Ctx, exc, b2i, py_type, has_flag)
from .ints import (flag, ctype_fields, ctype_wf, float_val, CT_PRIMITIVE_FLOAT, CT_IS_LONGDOUBLE)
from .cast import is_cdata, cdata_fields
from vf.cfront import line_of

R = R0.fork()
R.inline = set(R.inline) - {'read_raw_float_data'}
F32, F64 = z3.Float32(), z3.Float64()
RNE = z3.RNE()


def f32_at(c, st, a):
    return z3.fpBVToFP(c.raw(st, a, 4), F32)


def f64_at(c, st, a):
    return z3.fpBVToFP(c.raw(st, a, 8), F64)


def narrow(d):
    """C conversion double -> float on this target (IEEE-754 round-to-nearest, ties to even)"""
    return z3.fpFPToFP(RNE, d, F32)


def widen(f):
    return z3.fpFPToFP(RNE, f, F64)


@R.model('PyFloat_AsDouble', "a float object: its value, error indicator untouched; other objects: __float__ runs "
                             "arbitrary code (everything havocked), -1.0 with an exception on failure")
def _asdouble(ex, st, args, n):
    o = args[0]
    c = Ctx(ex, {}, st)
    isf = py_type(c, st, o) == ex.global_addr('PyFloat_Type')
    other = ex.fresh('asdouble', F64)
    e = ex.fresh('err_asdouble', B64)
    from .base import _havoc_unless
    _havoc_unless(ex, st, isf, 'PyFloat_AsDouble')
    st.err = z3.If(isf, st.err, e)
    return z3.If(isf, float_val(o), other)


@R.add
class read_raw_float_data(Contract):
    name = 'read_raw_float_data'
    pure = True

    def pre(self, c):
        return [('size is sizeof(float) or sizeof(double)', z3.Or(c['size'] == 4, c['size'] == 8)),
                ('target-valid', c.valid(c['target'], z3.SignExt(32, c['size'])))]

    def post(self, c):
        return [('the stored float widened exactly, or the stored double',
                 c.result == z3.If(c['size'] == 4, widen(f32_at(c, c.old, c['target'])), f64_at(c, c.old, c['target'])))]


@R.add
class write_raw_float_data(Contract):
    name = 'write_raw_float_data'

    def pre(self, c):
        return [('size is sizeof(float) or sizeof(double)', z3.Or(c['size'] == 4, c['size'] == 8)),
                ('target-valid', c.valid(c['target'], z3.SignExt(32, c['size'])))]

    def frame(self, c):
        return Frame(raw=[(c['target'], z3.SignExt(32, c['size']))])

    def post(self, c):
        s, t = c['source'], c['target']
        return [('float: the double rounded to nearest (infinities kept, NaN stays NaN)',
                 z3.Implies(c['size'] == 4, f32_at(c, c.new, t) == narrow(s))),
                ('double: the value itself', z3.Implies(c['size'] == 8, f64_at(c, c.new, t) == s)),
                ('double: bit-exact unless NaN', z3.Implies(z3.And(c['size'] == 8, z3.Not(z3.fpIsNaN(s))),
                                                             c.raw(c.new, t, 8) == z3.fpToIEEEBV(s)))]


@R.add
class read_raw_longdouble_data(Contract):
    name = 'read_raw_longdouble_data'
    pure = True

    def pre(self, c):
        return [('target-valid', c.valid(c['target'], 16))]

    def post(self, c):
        return [('all 16 bytes, as they are', c.result == c.raw(c.old, c['target'], 16))]


@R.add
class write_raw_longdouble_data(Contract):
    name = 'write_raw_longdouble_data'

    def pre(self, c):
        return [('target-valid', c.valid(c['target'], 16))]

    def frame(self, c):
        return Frame(raw=[(c['target'], 16)])

    def post(self, c):
        return [('all 16 bytes, as they are', c.raw(c.new, c['target'], 16) == c['source'])]


@R.add
class read_raw_complex_data(Contract):
    name = 'read_raw_complex_data'
    pure = True

    def pre(self, c):
        return [('size is that of float _Complex or double _Complex', z3.Or(c['size'] == 8, c['size'] == 16)),
                ('target-valid', c.valid(c['target'], z3.SignExt(32, c['size'])))]

    def frame(self, c):
        return None

    def post(self, c):
        r, t = c.result, c['target']
        re_, im_ = f64_at(c, c.new, r), f64_at(c, c.new, r + 8)
        return [('float _Complex: both parts widened exactly',
                 z3.Implies(c['size'] == 8, z3.And(re_ == widen(f32_at(c, c.old, t)), im_ == widen(f32_at(c, c.old, t + 4))))),
                ('double _Complex: both parts as stored',
                 z3.Implies(c['size'] == 16, z3.And(re_ == f64_at(c, c.old, t), im_ == f64_at(c, c.old, t + 8))))]


@R.add
class write_raw_complex_data(Contract):
    name = 'write_raw_complex_data'

    def pre(self, c):
        return [('size is that of float _Complex or double _Complex', z3.Or(c['size'] == 8, c['size'] == 16)),
                ('target-valid', c.valid(c['target'], z3.SignExt(32, c['size'])))]

    def frame(self, c):
        return Frame(raw=[(c['target'], z3.SignExt(32, c['size']))])

    def post(self, c):
        t = c['target']
        src = c['source']                       # address of the by-value copy
        re_, im_ = f64_at(c, c.old, src), f64_at(c, c.old, src + 8)
        return [('float _Complex: each part rounded to nearest, real part first',
                 z3.Implies(c['size'] == 8, z3.And(f32_at(c, c.new, t) == narrow(re_), f32_at(c, c.new, t + 4) == narrow(im_)))),
                ('double _Complex: each part as it is, real part first',
                 z3.Implies(c['size'] == 16, z3.And(f64_at(c, c.new, t) == re_, f64_at(c, c.new, t + 8) == im_)))]


class convert_from_object_float(Contract):
    """the floating-point branch of convert_from_object (x = value, p[0] = value, ffi.new(T, value) all end here)"""
    name = 'convert_from_object#float'
    function = 'convert_from_object'

    def parts(self, c):
        st = c.old
        size, flags = ctype_fields(c, st, c['ct'])
        isld = flag(flags, CT_IS_LONGDOUBLE)
        init = c['init']
        pyfloat = py_type(c, st, init) == c.ex.global_addr('PyFloat_Type')
        ict, idata = cdata_fields(c, st, init)
        ld_cdata = z3.And(is_cdata(c, st, init), flag(c.field(st, ict, 'CTypeDescrObject', 'ct_flags'), CT_IS_LONGDOUBLE))
        return size, flags, isld, pyfloat, ld_cdata, idata

    def pre(self, c):
        st = c.old
        size, flags, isld, pyfloat, ld_cdata, idata = self.parts(c)
        ict, _ = cdata_fields(c, st, c['init'])
        return [('ctype-wf', ctype_wf(c, st, c['ct'])), ('init-valid', c.valid(c['init'], 40)),
                ('a float ctype is float, double or long double', z3.Implies(flag(flags, CT_PRIMITIVE_FLOAT),
                                                                          z3.If(isld, size == 16, z3.Or(size == 4, size == 8)))),
                ('data-valid', c.valid(c['data'], size)),
                ('a cdata initializer has a valid type and, if long double, valid data',
                 z3.Implies(is_cdata(c, st, c['init']), z3.And(c.valid(ict, 104), z3.Implies(ld_cdata, c.valid(idata, 16))))),
                ('a float object is not a cdata', z3.Not(z3.And(pyfloat, is_cdata(c, st, c['init'])))),
                ('no-pending-exception', st.err == 0)]

    def in_scope(self, c):
        size, flags, isld, pyfloat, ld_cdata, idata = self.parts(c)
        return z3.And(flag(flags, CT_PRIMITIVE_FLOAT), z3.Or(pyfloat, z3.And(isld, ld_cdata)))

    def scope(self, c):
        return [('a floating-point ctype initialised from a Python float, or long double from a long double cdata '
                 '(objects with __float__ run arbitrary code)', self.in_scope(c))]

    def frame(self, c):
        size, flags = ctype_fields(c, c.old, c['ct'])
        return Frame(raw=[(c['data'], size)], err=True)

    def witness(self, c):
        size, flags, isld, pyfloat, ld_cdata, idata = self.parts(c)
        return {'size': size, 'flags': flags, 'value_bits': z3.fpToIEEEBV(float_val(c['init']))}

    def post(self, c):
        size, flags, isld, pyfloat, ld_cdata, idata = self.parts(c)
        d = c['data']
        v = float_val(c['init'])
        from vf.cexec import ld_of_double as ld_of
        return [('float: the Python float rounded to nearest', z3.Implies(z3.And(pyfloat, size == 4),
                                                                          z3.And(c.result == 0, f32_at(c, c.new, d) == narrow(v)))),
                ('double: the Python float itself', z3.Implies(z3.And(pyfloat, size == 8),
                                                               z3.And(c.result == 0, f64_at(c, c.new, d) == v))),
                ('long double from a Python float: the exact extension of the double',
                 z3.Implies(z3.And(pyfloat, isld, z3.Not(ld_cdata)),
                            z3.And(c.result == 0, c.raw(c.new, d, 16) == ld_of(v)))),
                ('long double from a long double cdata: all 16 bytes copied, never through a double',
                 z3.Implies(z3.And(isld, ld_cdata), z3.And(c.result == 0, c.raw(c.new, d, 16) == c.raw(c.old, idata, 16)))),
                ('no exception', c.new.err == 0)]


R.add(convert_from_object_float)

from .base import TPFLAGS_BYTES, TPFLAGS_UNICODE      # noqa: E402


@R.add
class check_bytes_for_float_compatible(Contract):
    """a 1-character bytes gives its byte value (cast of a char to a float); anything that is neither bytes nor
    str gives 0 ("no value yet")"""
    name = 'check_bytes_for_float_compatible'

    def pre(self, c):
        return [('io-valid', c.valid(c['io'], 40)), ('out-valid', c.valid(c['out_value'], 8))]

    def scope(self, c):
        return [('not a str (its single character is C15\'s subject)', z3.Not(has_flag(c, c.old, c['io'], TPFLAGS_UNICODE)))]

    def frame(self, c):
        return Frame(raw=[(c['out_value'], 8)], havoc_if=has_flag(c, c.old, c['io'], TPFLAGS_UNICODE))

    def post(self, c):
        st = c.old
        io = c['io']
        isb = has_flag(c, st, io, TPFLAGS_BYTES)
        n = c.field(st, io, 'PyVarObject', 'ob_size')
        b0 = c.byte(st, io + 32)
        notstr = z3.Not(has_flag(c, st, io, TPFLAGS_UNICODE))
        return [('bytes of length 1: 1 and the byte value as a double',
                 z3.Implies(z3.And(notstr, isb, n == 1),
                            z3.And(c.result == 1, f64_at(c, c.new, c['out_value']) == z3.fpUnsignedToFP(RNE, b0, F64)))),
                ('bytes of another length: -1', z3.Implies(z3.And(notstr, isb, n != 1), c.result == BV(-1, 32))),
                ('neither bytes nor str: 0', z3.Implies(z3.And(notstr, z3.Not(isb)), c.result == 0))]


class do_cast_float(Contract):
    """ffi.cast to float / double / long double from a Python float or a long double cdata"""
    name = 'do_cast#float'
    function = 'do_cast'

    def parts(self, c):
        st = c.old
        size, flags = ctype_fields(c, st, c['ct'])
        isld = flag(flags, CT_IS_LONGDOUBLE)
        ob = c['ob']
        pyfloat = py_type(c, st, ob) == c.ex.global_addr('PyFloat_Type')
        return size, flags, isld, pyfloat

    def pre(self, c):
        st = c.old
        size, flags, isld, pyfloat = self.parts(c)
        return [('ctype-wf', ctype_wf(c, st, c['ct'])), ('ob-valid', c.valid(c['ob'], 40)),
                ('a float ctype is float, double or long double', z3.Implies(flag(flags, CT_PRIMITIVE_FLOAT),
                                                                          z3.If(isld, size == 16, z3.Or(size == 4, size == 8)))),
                ('a float object is neither a cdata, bytes nor str',
                 z3.Implies(pyfloat, z3.And(z3.Not(is_cdata(c, st, c['ob'])), z3.Not(has_flag(c, st, c['ob'], TPFLAGS_BYTES)),
                                            z3.Not(has_flag(c, st, c['ob'], TPFLAGS_UNICODE))))),
                ('no-pending-exception', st.err == 0)]

    def scope(self, c):
        size, flags, isld, pyfloat = self.parts(c)
        return [('a floating-point target type and a Python float source', z3.And(flag(flags, CT_PRIMITIVE_FLOAT), pyfloat))]

    def frame(self, c):
        return Frame(err=True)

    def allocates(self, c):
        size, flags = ctype_fields(c, c.old, c['ct'])
        return [(c.result, BV(48, 64) + size)]

    def witness(self, c):
        size, flags, isld, pyfloat = self.parts(c)
        return {'size': size, 'flags': flags, 'value_bits': z3.fpToIEEEBV(float_val(c['ob']))}

    def post_witness(self, c):
        ctype, d = cdata_fields(c, c.new, c.result)
        from vf.cexec import ld_of_double as ld_of
        v = c.local(c.new, 'value')
        return {'stored16': c.raw(c.new, d, 16), 'want16': ld_of(float_val(c['ob'])), 'data': d, 'result': c.result,
                'isnan_pyfloat': z3.If(z3.fpIsNaN(float_val(c['ob'])), BV(1, 8), BV(0, 8)),
                'isnan_local': z3.If(z3.fpIsNaN(v), BV(1, 8), BV(0, 8)), 'ld_of_local': ld_of(v),
                'same_value': z3.If(v == float_val(c['ob']), BV(1, 8), BV(0, 8))}

    def post(self, c):
        size, flags, isld, pyfloat = self.parts(c)
        r = c.result
        ctype, d = cdata_fields(c, c.new, r)
        v = float_val(c['ob'])
        from vf.cexec import ld_of_double as ld_of
        return [('a new cdata of the target type', z3.And(r != 0, ctype == c['ct'], c.new.err == 0)),
                ('float: the Python float rounded to nearest', z3.Implies(size == 4, f32_at(c, c.new, d) == narrow(v))),
                ('double: the Python float itself', z3.Implies(z3.And(size == 8, z3.Not(isld)), f64_at(c, c.new, d) == v)),
                ('long double: the exact extension of the double', z3.Implies(isld, c.raw(c.new, d, 16) == ld_of(v)))]


R.add(do_cast_float)
C05_FUNCS = ['read_raw_float_data', 'write_raw_float_data', 'read_raw_longdouble_data', 'write_raw_longdouble_data',
             'read_raw_complex_data', 'write_raw_complex_data', 'convert_from_object#float',
             'check_bytes_for_float_compatible', 'do_cast#float']
