"""Assumed contracts of everything outside cffi (CPython C-API, libc) and the
shared ghost vocabulary.  Every entry registered with @R.model is an
*assumption* and is listed by name in the evidence of every check that uses it.

Python ints (A-PYINT).  A Python int object o carries the ghost pair
  int_w(o) : BV80  its mathematical value saturated to [-2^79, 2^79-1]
  int_m(o) : BV64  its mathematical value modulo 2^64
with  -2^79 < int_w(o) < 2^79-1  ==>  int_m(o) = low64(int_w(o)).
Every C-API function below observes the value only through comparisons with
constants of magnitude <= 2^64 and through  v mod 2^64, for which this pair is
an exact abstraction of the unbounded integer; so "for all Python ints of any
magnitude" is covered, not only 80-bit ones.
"""
import z3

from vf.cexec import (BV, B64, B8, Registry, Contract, Frame, LoopSpec, Ctx, NotSupported, b2i, truth,
                      cast_int, in_range, USER_HI, USER_LO)
from vf.cfront import line_of

R = Registry()

W = 80
BW = z3.BitVecSort(W)
int_w = z3.Function('int_w', B64, BW)
int_m = z3.Function('int_m', B64, B64)
W_MAX = BV((1 << (W - 1)) - 1, W)
W_MIN = BV(1 << (W - 1), W)

TPFLAGS_LONG = 1 << 24
TPFLAGS_BYTES = 1 << 27
TPFLAGS_UNICODE = 1 << 28
TPFLAGS_TUPLE = 1 << 26
TPFLAGS_LIST = 1 << 25
TPFLAGS_DICT = 1 << 29


def wv(x):
    """python-int literal -> BV80"""
    return BV(x, W)


def pyint_axiom(o):
    w = int_w(o)
    return z3.Implies(z3.And(w != W_MAX, w != W_MIN), int_m(o) == z3.Extract(63, 0, w))


def sx(v, bits=W):
    return z3.SignExt(bits - v.size(), v) if v.size() < bits else v


def zx(v, bits=W):
    return z3.ZeroExt(bits - v.size(), v) if v.size() < bits else v


def py_type(c, st, o):
    return c.field(st, o, 'PyObject', 'ob_type')


def tp_flags(c, st, tp):
    return c.field(st, tp, 'PyTypeObject', 'tp_flags')


def is_long(c, st, o):
    return (tp_flags(c, st, py_type(c, st, o)) & BV(TPFLAGS_LONG, 64)) != BV(0, 64)


def has_flag(c, st, o, flag):
    return (tp_flags(c, st, py_type(c, st, o)) & BV(flag, 64)) != BV(0, 64)


def exc(ex, name):
    """value of the global PyExc_<name> (a distinct non-NULL constant)"""
    return ex.global_addr('val:PyExc_' + name)


EXC_NAMES = ['OverflowError', 'TypeError', 'ValueError', 'IndexError', 'SystemError', 'MemoryError',
             'KeyError', 'AttributeError', 'RuntimeError', 'NotImplementedError', 'OSError', 'ZeroDivisionError',
             'BufferError', 'DeprecationWarning', 'UserWarning', 'ImportError', 'Exception']
R.const_globals = set('PyExc_' + n for n in EXC_NAMES)
R.err_only_models = {'PyErr_Format', 'PyErr_SetString', 'PyErr_Clear', 'PyErr_NoMemory', 'PyErr_SetObject'}
R.pure_models = set(getattr(R, 'pure_models', ())) | {'PyErr_Occurred', 'Py_INCREF', 'Py_DECREF', 'Py_XDECREF', 'Py_XINCREF'}

# -- header inline functions taken from the real CPython headers (expanded, not assumed)
R.inline |= {'Py_TYPE', 'PyType_HasFeature', 'Py_IS_TYPE', 'Py_SIZE', 'PyObject_TypeCheck',
             '_Py_IS_TYPE', 'PyType_Check', 'PyType_CheckExact', 'PyBytes_AS_STRING', 'PyBytes_GET_SIZE',
             'PyTuple_GET_SIZE', 'PyList_GET_SIZE', '_PyObject_CAST', '_cffi_memcpy'}


def noop(ex, st, args, n):
    return None


for _nm in ('Py_INCREF', 'Py_DECREF', 'Py_XDECREF', 'Py_XINCREF', '_Py_INCREF', '_Py_DECREF',
            'Py_NewRef', '_Py_NewRef'):
    R.models[_nm] = noop
    R.assumed[_nm] = "reference counting not modelled (A-REFCNT): no effect on the modelled state"
R.models['Py_NewRef'] = lambda ex, st, args, n: args[0]
R.models['_Py_NewRef'] = lambda ex, st, args, n: args[0]


@R.model('Py_FatalError', "does not return; reaching it is reported as an obligation")
def _fatal(ex, st, args, n):
    ex.ob('unreachable', line_of(n), 'Py_FatalError-not-reached', st, z3.BoolVal(False))
    st.assume(z3.BoolVal(False))
    return None


R.models['_Py_FatalErrorFunc'] = _fatal
R.assumed['_Py_FatalErrorFunc'] = "does not return; reaching it is reported as an obligation"


@R.model('PyErr_Occurred', "returns the pending exception class or NULL")
def _occ(ex, st, args, n):
    return st.err


@R.model('PyErr_SetString', "sets the error indicator to the given class")
def _setstr(ex, st, args, n):
    st.err = args[0]
    return None


@R.model('PyErr_Format', "sets the error indicator to the given class; returns NULL")
def _fmt(ex, st, args, n):
    st.err = args[0]
    return BV(0, 64)


@R.model('PyErr_Clear', "clears the error indicator")
def _clear(ex, st, args, n):
    st.err = BV(0, 64)
    return None


@R.model('PyErr_NoMemory', "sets MemoryError, returns NULL")
def _nomem(ex, st, args, n):
    st.err = exc(ex, 'MemoryError')
    return BV(0, 64)


@R.model('PyErr_ExceptionMatches', "pending exception class is (a subclass of) the argument; exact match modelled")
def _matches(ex, st, args, n):
    return b2i(st.err == args[0])


@R.model('PyType_IsSubtype', "ghost relation is_subtype(a, b)")
def _subtype(ex, st, args, n):
    f = R.ghost('is_subtype', B64, B64, z3.BoolSort())
    return b2i(z3.Or(args[0] == args[1], f(args[0], args[1])))


def _long_to_ll(ex, st, o):
    st.assume(pyint_axiom(o))
    w = int_w(o)
    fits = z3.And(w >= wv(-(1 << 63)), w <= wv((1 << 63) - 1))
    return w, fits


@R.model('PyLong_AsLongLong',
         "for an int object: value if it fits long long (error indicator untouched), else -1 with OverflowError; "
         "for other objects: may run arbitrary code (everything havocked), result unconstrained")
def _as_ll(ex, st, args, n):
    o = args[0]
    c = Ctx(ex, {}, st)
    il = is_long(c, st, o)
    w, fits = _long_to_ll(ex, st, o)
    res = ex.fresh('ret_PyLong_AsLongLong', B64)
    other_err = ex.fresh('err_index', B64)
    st.assume(z3.Implies(z3.And(il, fits), res == z3.Extract(63, 0, w)))
    st.assume(z3.Implies(z3.And(il, z3.Not(fits)), res == BV(-1, 64)))
    _havoc_unless(ex, st, il, 'PyLong_AsLongLong')
    st.err = z3.If(il, z3.If(fits, st.err, exc(ex, 'OverflowError')), other_err)
    return res


def _havoc_unless(ex, st, keep, tag):
    """arbitrary Python code may run unless `keep`: raw memory and all field heaps become unknown"""
    if ex.known(st, keep):
        return                   # `keep` holds on every execution reaching this point: nothing is havocked
    ex.callee_havoc(st, 'after_' + tag, (), keep=keep)


@R.model('PyLong_AsUnsignedLongLong',
         "int object: value if 0 <= v < 2^64, else (unsigned)-1 with OverflowError; requires an int object")
def _as_ull(ex, st, args, n):
    o = args[0]
    c = Ctx(ex, {}, st)
    ex.ob('call-requires', line_of(n), 'PyLong_AsUnsignedLongLong:int-object', st, is_long(c, st, o))
    st.assume(pyint_axiom(o))
    w = int_w(o)
    fits = z3.And(w >= wv(0), w <= wv((1 << 64) - 1))
    res = z3.If(fits, z3.Extract(63, 0, w), BV(-1, 64))
    st.err = z3.If(fits, st.err, exc(ex, 'OverflowError'))
    return res


@R.model('PyLong_AsUnsignedLongLongMask', "int object: v mod 2^64, no error; requires an int object")
def _as_ullmask(ex, st, args, n):
    o = args[0]
    c = Ctx(ex, {}, st)
    ex.ob('call-requires', line_of(n), 'PyLong_AsUnsignedLongLongMask:int-object', st, is_long(c, st, o))
    st.assume(pyint_axiom(o))
    return int_m(o)


@R.model('_PyLong_Sign', "sign of an int object: -1, 0, 1")
def _sign(ex, st, args, n):
    w = int_w(args[0])
    return z3.If(w < wv(0), BV(-1, 32), z3.If(w == wv(0), BV(0, 32), BV(1, 32)))


def _new_long(ex, st, val80, tag):
    """a new int object (allocation assumed to succeed: A-ALLOC)"""
    o = ex.fresh('newint_' + tag, B64)
    c = Ctx(ex, {}, st)
    st.assume(z3.And(z3.UGE(o, BV(USER_LO, 64)), z3.ULT(o, BV(USER_HI, 64))))
    st.assume(is_long(c, st, o))
    st.assume(py_type(c, st, o) == ex.global_addr('PyLong_Type'))      # exactly int, never bool
    st.assume(int_w(o) == val80)
    st.assume(int_m(o) == z3.Extract(63, 0, val80))
    return o


@R.model('PyLong_FromLong', "new int object with that value (allocation succeeds)")
def _from_long(ex, st, args, n):
    return _new_long(ex, st, sx(args[0]), 'FromLong')


@R.model('PyLong_FromLongLong', "new int object with that value (allocation succeeds)")
def _from_ll(ex, st, args, n):
    return _new_long(ex, st, sx(args[0]), 'FromLongLong')


@R.model('PyLong_FromUnsignedLongLong', "new int object with that value (allocation succeeds)")
def _from_ull(ex, st, args, n):
    return _new_long(ex, st, zx(args[0]), 'FromUnsignedLongLong')


@R.model('PyLong_FromUnsignedLong', "new int object with that value (allocation succeeds)")
def _from_ul(ex, st, args, n):
    return _new_long(ex, st, zx(args[0]), 'FromUnsignedLong')


@R.model('PyLong_FromSsize_t', "new int object with that value (allocation succeeds)")
def _from_ssize(ex, st, args, n):
    return _new_long(ex, st, sx(args[0]), 'FromSsize_t')


@R.model('PyObject_Str', "returns a new str object or NULL with an exception set; runs arbitrary code only for "
                         "non-builtin types (not modelled: no memory effect)")
def _str(ex, st, args, n):
    o = ex.fresh('str', B64)
    e = ex.fresh('err_str', B64)
    c = Ctx(ex, {}, st)
    st.assume(z3.Implies(is_long(c, st, args[0]), o != BV(0, 64)))      # str(int) succeeds (A-ALLOC)
    st.err = z3.If(o == BV(0, 64), e, st.err)
    st.assume(z3.Implies(o == BV(0, 64), e != BV(0, 64)))
    return o


@R.model('PyUnicode_AsUTF8', "returns a char* (or NULL); no effect on modelled memory")
def _asutf8(ex, st, args, n):
    return ex.fresh('utf8', B64)


# -- libc -------------------------------------------------------------------

def _const(v):
    s = z3.simplify(v)
    return s.as_long() if z3.is_bv_value(s) else None


@R.model('memcpy', "C11 7.24.2.1 for non-overlapping regions; bytes copied low to high")
def _memcpy(ex, st, args, n):
    dst, src, size = args
    k = _const(size)
    if k is not None and k <= 64:
        # (through the engine's reader/writer, so that reads of and through this frame's locals are resolved)
        bs = [ex.load_raw(st, src + BV(i, 64) if i else src, 1) for i in range(k)]
        for i in range(k):
            ex.store_raw(st, dst + BV(i, 64) if i else dst, bs[i], 1)
    else:
        a = z3.BitVec('a!mc', 64)
        old = st.raw
        st.raw = z3.Lambda([a], z3.If(in_range(a, dst, size), z3.Select(old, a - dst + src), z3.Select(old, a)))
    return dst


R.models['memmove'] = _memcpy
R.assumed['memmove'] = "copy as if through a temporary"


@R.model('memset', "fills n bytes with (unsigned char)c")
def _memset(ex, st, args, n):
    dst, cval, size = args
    b = z3.Extract(7, 0, cval)
    k = _const(size)
    if k is not None and k <= 64:
        r = st.raw
        for i in range(k):
            r = z3.Store(r, dst + BV(i, 64), b)
        st.raw = r
    else:
        a = z3.BitVec('a!ms', 64)
        old = st.raw
        st.raw = z3.Lambda([a], z3.If(in_range(a, dst, size), b, z3.Select(old, a)))
    return dst


def _indirect(ex, st, args, n):
    """call through a function pointer into unknown (Python) code: everything may change"""
    ex.callee_havoc(st, 'after_indirect', args)
    res = ex.fresh('ret_indirect', B64)
    e = ex.fresh('err_indirect', B64)
    st.err = e
    st.assume(z3.Implies(res == BV(0, 64), e != BV(0, 64)))
    st.assume(z3.Implies(res != BV(0, 64), Ctx(ex, {}, st).valid(res, 16)))    # a non-NULL result is an object
    return res


R.models['<indirect>'] = _indirect
R.assumed['<indirect>'] = "a call through a function pointer (type slot) runs arbitrary code: all modelled state " \
                          "is havocked; a NULL result comes with an exception set"


# -- allocation (A-ALLOC: succeeds; the result is fresh) -----------------------------------------------

@R.model('PyObject_Malloc', "returns a fresh region of n bytes (allocation succeeds: A-ALLOC)")
def _pymalloc(ex, st, args, n):
    return ex.alloc(st, args[0], 'PyObject_Malloc')


R.models['malloc'] = _pymalloc
R.assumed['malloc'] = "returns a fresh region of n bytes (allocation succeeds: A-ALLOC)"
R.models['PyMem_Malloc'] = _pymalloc
R.assumed['PyMem_Malloc'] = "returns a fresh region of n bytes (allocation succeeds: A-ALLOC)"


@R.model('PyObject_Init', "sets ob_type of the object and returns it")
def _pyinit(ex, st, args, n):
    ex.write_field(st, args[0], 'PyObject', 'ob_type', args[1])
    return args[0]


@R.model('_PyObject_New', "returns a fresh object of tp_basicsize bytes with ob_type set (allocation succeeds)")
def _pynew(ex, st, args, n):
    c = Ctx(ex, {}, st)
    size = c.field(st, args[0], 'PyTypeObject', 'tp_basicsize')
    st.assume(z3.And(size >= 16, size <= 4096))
    p = ex.alloc(st, size, '_PyObject_New')
    ex.write_field(st, p, 'PyObject', 'ob_type', args[0])
    return p


@R.model('PyLong_AsLong', "int object: the value if it fits a C long, else -1 with OverflowError; requires an int object")
def _as_long(ex, st, args, n):
    o = args[0]
    c = Ctx(ex, {}, st)
    ex.ob('call-requires', line_of(n), 'PyLong_AsLong:int-object', st, is_long(c, st, o))
    st.assume(pyint_axiom(o))
    w = int_w(o)
    fits = z3.And(w >= wv(-(1 << 63)), w <= wv((1 << 63) - 1))
    st.err = z3.If(fits, st.err, exc(ex, 'OverflowError'))
    return z3.If(fits, z3.Extract(63, 0, w), BV(-1, 64))


def bool_objects(ex, st):
    """Py_True / Py_False are int objects (type bool) with values 1 / 0"""
    c = Ctx(ex, {}, st)
    t, f = ex.global_addr('_Py_TrueStruct'), ex.global_addr('_Py_FalseStruct')
    bt = ex.global_addr('PyBool_Type')
    return z3.And(py_type(c, st, t) == bt, py_type(c, st, f) == bt, is_long(c, st, t), is_long(c, st, f),
                  int_w(t) == wv(1), int_w(f) == wv(0), int_m(t) == BV(1, 64), int_m(f) == BV(0, 64))


def kind_flags_exclusive(c, st, o):
    """a type is a subclass of at most one of int / bytes / str / tuple / list / dict (CPython layout conflict)"""
    fl = tp_flags(c, st, py_type(c, st, o))
    bits = [fl & BV(b, 64) != 0 for b in (TPFLAGS_LONG, TPFLAGS_BYTES, TPFLAGS_UNICODE, TPFLAGS_TUPLE, TPFLAGS_LIST,
                                          TPFLAGS_DICT)]
    return z3.And(*[z3.Not(z3.And(a, b)) for i, a in enumerate(bits) for b in bits[i + 1:]])
