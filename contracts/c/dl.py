"""Contracts for closed dlopen libraries (C37): _cffi_backend.c dl_* and cdlopen.c."""
import ast
import z3

from .base import R, BV, B64, B8, Contract, Frame, Ctx, exc, b2i
from vf.cexec import NotSupported, cast_int
from vf.cfront import line_of

# ghost call counters (the "trace" of calls into the dynamic loader)
def _bump(ex, st, key):
    st.ghost[key] = st.gvar(key, B64) + 1


def count(c, st, key):
    return st.gvar(key, B64)


@R.model('dlsym', "looks the symbol up in an OPEN library handle; counted in the ghost trace")
def _dlsym(ex, st, args, n):
    ex.ob('call-requires', line_of(n), 'dlsym:handle-is-not-NULL (the library is still open)', st, args[0] != 0)
    _bump(ex, st, 'dlsym_calls')
    return ex.fresh('dlsym', B64)


@R.model('dlclose', "closes the handle; counted in the ghost trace")
def _dlclose(ex, st, args, n):
    ex.ob('call-requires', line_of(n), 'dlclose:handle-is-not-NULL', st, args[0] != 0)
    _bump(ex, st, 'dlclose_calls')
    return ex.fresh('dlclose', z3.BitVecSort(32))


@R.model('dlerror', "returns a message pointer or NULL; no effect on the modelled state")
def _dlerror(ex, st, args, n):
    return ex.fresh('dlerror', B64)


@R.model('PyUnicode_FromFormat', "new str object or NULL")
def _fromformat(ex, st, args, n):
    return ex.fresh('str', B64)


@R.model('PyDict_Clear', "empties the dict; counted in the ghost trace")
def _dictclear(ex, st, args, n):
    _bump(ex, st, 'dict_clears')
    return None


def _parse_tuple(ex, st, args, n, fmt_index=2):
    """PyArg_ParseTuple(args, fmt, ...): on success (1) every output pointer receives an unconstrained value
    (for O! an object of the given type), on failure (0) an exception is set and nothing is stored"""
    fmtnode = n['inner'][fmt_index]
    while fmtnode.get('kind') in ('ImplicitCastExpr', 'ParenExpr'):
        fmtnode = fmtnode['inner'][0]
    if fmtnode.get('kind') != 'StringLiteral':
        raise NotSupported("PyArg_ParseTuple with a non-literal format")
    fmt = ast.literal_eval(fmtnode['value']).split(':')[0].split(';')[0].replace('|', '')
    outs = list(args[2:])
    ok = ex.fresh('parse_ok', z3.BitVecSort(32))
    st.assume(z3.Or(ok == 0, ok == 1))
    k = 0
    i = 0
    while i < len(fmt):
        ch = fmt[i]
        if ch == 'O' and i + 1 < len(fmt) and fmt[i + 1] == '!':
            tp, dst = outs[k], outs[k + 1]
            k += 2
            i += 2
            v = ex.fresh('parsed_obj', B64)
            c = Ctx(ex, {}, st)
            sub = R.ghost('is_subtype', B64, B64, z3.BoolSort())
            t = c.field(st, v, 'PyObject', 'ob_type')
            st.assume(z3.Implies(ok == 1, z3.And(c.valid(v, 64), z3.Or(t == tp, sub(t, tp)))))
            size = 8
        elif ch in 'Osz':
            dst = outs[k]
            k += 1
            i += 1
            v = ex.fresh('parsed_' + ch, B64)
            size = 8
        elif ch == 'n':
            dst, v, size = outs[k], ex.fresh('parsed_n', B64), 8
            k += 1
            i += 1
        elif ch == 'i':
            dst, v, size = outs[k], ex.fresh('parsed_i', z3.BitVecSort(32)), 4
            k += 1
            i += 1
        else:
            raise NotSupported("PyArg_ParseTuple format %r" % fmt)
        old = ex.load_raw(st, dst, size)
        ex.store_raw(st, dst, z3.If(ok == 1, v, old), size)
    e = ex.fresh('parse_err', B64)
    st.assume(e != 0)
    st.err = z3.If(ok == 1, st.err, e)
    return ok


R.models['PyArg_ParseTuple'] = _parse_tuple
R.models['_PyArg_ParseTuple_SizeT'] = _parse_tuple
R.assumed['PyArg_ParseTuple'] = _parse_tuple.__doc__
R.models['free'] = lambda ex, st, args, n: None
R.assumed['free'] = "releases memory; no effect on the modelled state"
R.models['PyObject_Free'] = lambda ex, st, args, n: None
R.models['PyObject_Del'] = lambda ex, st, args, n: None
R.assumed['PyObject_Free'] = "releases memory; no effect on the modelled state"

H = lambda c, st, o: c.field(st, o, 'DynLibObject', 'dl_handle')


@R.add
class dl_check_closed(Contract):
    name = 'dl_check_closed'

    def pre(self, c):
        return [('dlobj-valid', c.valid(c['dlobj'], 40)), ('no-pending-exception', c.old.err == 0)]

    def frame(self, c):
        return Frame(err=True)

    def post(self, c):
        h = H(c, c.old, c['dlobj'])
        return [('closed library: -1 and ValueError', z3.Implies(h == 0, z3.And(c.result == BV(-1, 32),
                                                                            c.new.err == exc(c.ex, 'ValueError')))),
                ('open library: 0, no error', z3.Implies(h != 0, z3.And(c.result == 0, c.new.err == 0)))]


def _mk_accessor(nm):
    class K(Contract):
        """a closed library (dl_handle == NULL) refuses the access: NULL result, an exception, no dlsym call,
        no memory written, and the handle stays NULL"""
        name = nm

        def pre(self, c):
            return [('dlobj-valid', c.valid(c['dlobj'], 40)), ('no-pending-exception', c.old.err == 0),
                    ('args-valid', c.valid(c['args'], 16))]

        def scope(self, c):
            return [('the library has been closed', H(c, c.old, c['dlobj']) == 0)]

        def frame(self, c):
            return Frame(err=True, ghost=[])

        def post(self, c):
            closed = H(c, c.old, c['dlobj']) == 0
            return [('refused: NULL and an exception', z3.Implies(closed, z3.And(c.result == 0, c.new.err != 0))),
                    ('the unloaded library is not touched: no dlsym call',
                     z3.Implies(closed, count(c, c.new, 'dlsym_calls') == count(c, c.old, 'dlsym_calls'))),
                    ('the handle stays NULL', z3.Implies(closed, H(c, c.new, c['dlobj']) == 0))]
    K.__name__ = nm
    R.add(K)
    return nm


ACCESSORS = [_mk_accessor(n) for n in ('dl_load_function', 'dl_read_variable', 'dl_write_variable')]


@R.add
class dl_close_lib(Contract):
    name = 'dl_close_lib'

    def pre(self, c):
        return [('dlobj-valid', c.valid(c['dlobj'], 40))]

    def frame(self, c):
        return Frame(fields=[('DynLibObject', 'dl_handle')], ghost=['dlclose_calls'])

    def post(self, c):
        h0 = H(c, c.old, c['dlobj'])
        n0, n1 = count(c, c.old, 'dlclose_calls'), count(c, c.new, 'dlclose_calls')
        return [('afterwards the library is closed', H(c, c.new, c['dlobj']) == 0),
                ('dlclose is called exactly once for an open library and not at all for a closed one',
                 n1 == n0 + z3.If(h0 != 0, BV(1, 64), BV(0, 64))),
                ('returns None', c.result == c.ex.global_addr('_Py_NoneStruct'))]


@R.add
class cdlopen_fetch(Contract):
    name = 'cdlopen_fetch'

    def pre(self, c):
        return [('no-pending-exception', c.old.err == 0),
                ('module initialised: ffi.error exists', c.global_value(c.old, 'FFIError') != 0)]

    def frame(self, c):
        return Frame(err=True, ghost=['dlsym_calls'])

    def post(self, c):
        closed = c['libhandle'] == 0
        ffierr = c.global_value(c.new, 'FFIError')
        return [('closed library: NULL, ffi.error, no dlsym call',
                 z3.Implies(closed, z3.And(c.result == 0, c.new.err == ffierr,
                                           count(c, c.new, 'dlsym_calls') == count(c, c.old, 'dlsym_calls')))),
                ('open library: exactly one dlsym call',
                 z3.Implies(z3.Not(closed), count(c, c.new, 'dlsym_calls') == count(c, c.old, 'dlsym_calls') + 1))]


@R.add
class cdlopen_close(Contract):
    name = 'cdlopen_close'

    def pre(self, c):
        return [('module initialised: ffi.error exists', c.global_value(c.old, 'FFIError') != 0)]

    def frame(self, c):
        return Frame(err=True, ghost=['dlclose_calls'])

    def post(self, c):
        n0, n1 = count(c, c.old, 'dlclose_calls'), count(c, c.new, 'dlclose_calls')
        return [('dlclose exactly once for a non-NULL handle, never for NULL',
                 n1 == n0 + z3.If(c['libhandle'] != 0, BV(1, 64), BV(0, 64))),
                ('failure only with an exception', z3.Implies(c.result != 0, c.new.err != 0))]


@R.add
class ffi_dlclose(Contract):
    """ffi.dlclose(lib): the handle is cleared *before* anything else, the lib's cache dict is emptied so that no
    attribute cached before the close short-circuits the closed check; closing again calls nothing"""
    name = 'ffi_dlclose'

    def pre(self, c):
        return [('args-valid', c.valid(c['args'], 16)), ('no-pending-exception', c.old.err == 0),
                ('module initialised: ffi.error exists', c.global_value(c.old, 'FFIError') != 0)]

    def frame(self, c):
        return Frame(err=True, fields=[('LibObject', 'l_libhandle')], ghost=['dlclose_calls', 'dict_clears'],
                     all_raw=True)

    def post(self, c):
        lib = c.ex.ghost_lib if hasattr(c.ex, 'ghost_lib') else None
        n0, n1 = count(c, c.old, 'dlclose_calls'), count(c, c.new, 'dlclose_calls')
        d0, d1 = count(c, c.old, 'dict_clears'), count(c, c.new, 'dict_clears')
        return [('at most one dlclose, and only together with emptying the cache dict',
                 z3.And(z3.Or(n1 == n0, n1 == n0 + 1), z3.Implies(n1 == n0 + 1, d1 == d0 + 1))),
                ('success returns None', z3.Implies(c.new.err == 0, z3.Or(c.result == c.ex.global_addr('_Py_NoneStruct'),
                                                                        c.result == 0)))]
