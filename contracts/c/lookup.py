"""Contracts for the runtime name lookup of generated tables (parse_c_type.c) -- C25.

The table invariant (every name a C string; strictly sorted in strcmp order) is a quantified
precondition that *callers* must establish.  Inside search_sorted the proof uses only explicitly
named instances of it (written next to the clause that needs them), so no quantifier is left
for the solver to instantiate.
"""
import z3

from .base import R, BV, B64, Contract, Frame, LoopSpec, Ctx
from .strings import slen, keycmp, readable

ITEM_SIZES = (16, 24, 32, 40)       # sizeof of the four table record types (checked against the AST in props/C25)


def entry(c, st, base, item_size, j):
    """the name pointer of table entry j (j: 64-bit index): *(char **)(base + j*item_size)"""
    return c.raw(st, base + j * item_size, 8)


class Table:
    def __init__(self, c, st, base, item_size, n, search, search_len):
        self.c, self.st, self.base, self.item_size, self.n = c, st, base, item_size, n
        self.search, self.search_len = search, search_len
        self.n64 = z3.SignExt(32, n) if n.size() == 32 else n

    def name(self, j):
        return entry(self.c, self.st, self.base, self.item_size, j)

    def kc(self, j):
        """three-way comparison of entry j with the key"""
        return keycmp(self.name(j), self.search, self.search_len)

    # -- bodies of the quantified table invariant, usable as instances --------------------------
    def string_at(self, j):
        a = self.name(j)
        ln = slen(a)
        return z3.Implies(z3.ULT(j, self.n64),
                          z3.And(self.c.valid(a, ln + 1), z3.ULT(ln, BV(1 << 32, 64)),
                                 z3.Select(self.st.raw, a + ln) == 0))

    def sorted_at(self, i, j):
        """T-ORDER instance: in a strictly sorted table the comparisons with any key are monotone and at
        most one of them is 0"""
        return z3.Implies(z3.And(z3.ULT(i, j), z3.ULT(j, self.n64)),
                          z3.And(self.kc(i) <= self.kc(j), z3.Not(z3.And(self.kc(i) == 0, self.kc(j) == 0))))

    def kc_range(self, j):
        return z3.Implies(z3.ULT(j, self.n64), z3.Or(self.kc(j) == -1, self.kc(j) == 0, self.kc(j) == 1))

    def invariant(self):
        i, j = z3.BitVec('i!t', 64), z3.BitVec('j!t', 64)
        return z3.And(z3.ForAll([j], self.string_at(j)), z3.ForAll([i, j], self.sorted_at(i, j)),
                      z3.ForAll([j], self.kc_range(j)))

    def shape(self):
        return z3.And(self.n >= 0, z3.Or(*[self.item_size == s for s in ITEM_SIZES]),
                      self.n64 < BV(1 << 30, 64),
                      self.c.valid(self.base, self.n64 * self.item_size),
                      self.c.valid(self.search, self.search_len), z3.ULT(self.search_len, BV(1 << 31, 64)))


@R.add
class search_sorted(Contract):
    name = 'search_sorted'
    pure = True

    def T(self, c):
        return Table(c, c.old, c['base'], c['item_size'], c['array_len'], c['search'], c['search_len'])

    def pre(self, c):
        T = self.T(c)
        return [('table-shape-and-key-readable', T.shape()),
                ('table-names-are-strings-and-strictly-sorted', T.invariant(), 'callers')]

    def witness(self, c):
        return {'array_len': c['array_len'], 'item_size': c['item_size'], 'search_len': c['search_len']}

    def accessible(self, c):
        T = self.T(c)

        def rd(st, addr, nbytes):
            n = BV(nbytes, 64)
            ok = [z3.And(z3.UGE(addr, T.base), z3.ULE(addr + n, T.base + T.n64 * T.item_size)),
                  z3.And(z3.UGE(addr, T.search), z3.ULE(addr + n, T.search + T.search_len))]
            did = c.ex.locals_by_name.get('middle')
            if did is not None and did in st.env:
                m = z3.SignExt(32, st.env[did])
                a = T.name(m)
                # the bytes of the name currently examined, including its NUL
                # (string_at(middle) is an instance of the callers' table invariant, used as hypothesis)
                ok.append(z3.Implies(T.string_at(m),
                                     z3.And(z3.ULT(m, T.n64), z3.UGE(addr, a), z3.ULE(addr + n, a + slen(a) + 1))))
            return z3.Or(*ok)
        return {'read': rd, 'write': lambda st, addr, nbytes: z3.BoolVal(False)}

    def inv(self, c, st):
        T = self.T(c)
        left, right = c.local(st, 'left'), c.local(st, 'right')
        l64, r64 = z3.SignExt(32, left), z3.SignExt(32, right)
        # quantifier-free form of "all entries left of `left` are smaller, all from `right` on are larger"
        # (equivalent to the quantified form by the monotonicity of kc, T-ORDER)
        return [('0<=left<=right<=len', z3.And(left >= 0, left <= right, right <= c['array_len'])),
                ('entry-before-left-is-smaller', z3.Or(left == 0, T.kc(l64 - 1) == -1)),
                ('entry-at-right-is-larger', z3.Or(right == c['array_len'], T.kc(r64) == 1))]

    @property
    def loops(self):
        return {0: LoopSpec(invariant=self.inv)}

    def post(self, c):
        T = self.T(c)
        r64 = z3.SignExt(32, c.result)
        j = z3.BitVec('j!post', 64)          # arbitrary entry (skolem constant of the universal claim)
        out = [('found: the index of the entry equal to the key',
                z3.Implies(c.result != -1, z3.And(c.result >= 0, c.result < c['array_len'], T.kc(r64) == 0)))]
        inst = []
        did_l, did_r = c.ex.locals_by_name.get('left'), c.ex.locals_by_name.get('right')
        if c.new is not None and did_l in c.new.env and did_r in c.new.env:
            l64, rr64 = z3.SignExt(32, c.new.env[did_l]), z3.SignExt(32, c.new.env[did_r])
            inst = [T.sorted_at(j, l64 - 1), T.sorted_at(rr64, j), T.kc_range(j)]
        out.append(('not found: no entry equals the key',
                    z3.Implies(z3.And(c.result == -1, z3.ULT(j, T.n64)), T.kc(j) != 0), inst))
        return out


def _mk_search_in(field, rec, nfield):
    nm = 'search_in_' + field

    class K(Contract):
        name = nm
        pure = True

        def T(self, c):
            ctx = c['ctx']
            base = c.field(c.old, ctx, 'struct _cffi_type_context_s', field)
            n = c.field(c.old, ctx, 'struct _cffi_type_context_s', nfield)
            size = c.tu.parse_type(rec).size
            return Table(c, c.old, base, BV(size, 64), n, c['search'], c['search_len'])

        def pre(self, c):
            T = self.T(c)
            return [('ctx-valid', c.valid(c['ctx'], 80)), ('table-shape-and-key-readable', T.shape()),
                    ('table-names-are-strings-and-strictly-sorted', T.invariant(), 'callers')]

        def post(self, c):
            T = self.T(c)
            r64 = z3.SignExt(32, c.result)
            j = z3.BitVec('j!post', 64)
            return [('found: the index of the entry equal to the key',
                     z3.Implies(c.result != -1, z3.And(c.result >= 0, c.result < T.n, T.kc(r64) == 0))),
                    ('not found: no entry equals the key',
                     z3.Implies(z3.And(c.result == -1, z3.ULT(j, T.n64)), T.kc(j) != 0))]
    K.__name__ = nm
    R.add(K)
    return nm


SEARCH_IN = [_mk_search_in('globals', 'struct _cffi_global_s', 'num_globals'),
             _mk_search_in('struct_unions', 'struct _cffi_struct_union_s', 'num_struct_unions'),
             _mk_search_in('typenames', 'struct _cffi_typename_s', 'num_typenames'),
             _mk_search_in('enums', 'struct _cffi_enum_s', 'num_enums')]
