"""Contracts for ffi.errno (C22): the saved errno is a thread-local, C errno lives at __errno_location()."""
import z3

from .base import R, BV, B64, Contract, Frame, Ctx, int_w, is_long, wv, exc, sx, py_type
from vf.cfront import line_of

R.models['__errno_location'] = lambda ex, st, args, n: ex.global_addr('errno@thread')
R.assumed['__errno_location'] = "address of the calling thread's errno"


def errno_of(c, st):
    return c.raw(st, c.ex.global_addr('errno@thread'), 4)


def saved(c, st):
    return c.global_value(st, 'cffi_saved_errno', 32)


@R.add
class save_errno_only(Contract):
    name = 'save_errno_only'

    def frame(self, c):
        return Frame(ghost=['cffi_saved_errno'], trace=[])

    def post(self, c):
        return [('the saved errno becomes the C errno', saved(c, c.new) == errno_of(c, c.old))]


@R.add
class restore_errno_only(Contract):
    name = 'restore_errno_only'

    def frame(self, c):
        return Frame(raw=[(c.ex.global_addr('errno@thread'), 4)], trace=[])

    def post(self, c):
        return [('the C errno becomes the saved errno', errno_of(c, c.new) == saved(c, c.old))]


@R.add
class b_get_errno(Contract):
    name = 'b_get_errno'

    def frame(self, c):
        return Frame(raw=[(c.ex.global_addr('errno@thread'), 4)])

    def post(self, c):
        r = c.result
        return [('ffi.errno reads the saved errno', z3.And(r != 0, is_long(c, c.new, r), int_w(r) == sx(saved(c, c.old)))),
                ('the saved errno is unchanged', saved(c, c.new) == saved(c, c.old))]


@R.add
class b_set_errno(Contract):
    name = 'b_set_errno'

    def pre(self, c):
        return [('arg-valid', c.valid(c['arg'], 16)), ('no-pending-exception', c.old.err == 0)]

    def scope(self, c):
        return [('python-int', is_long(c, c.old, c['arg']))]

    def frame(self, c):
        return Frame(raw=[(c.ex.global_addr('errno@thread'), 4)], err=True, ghost=['cffi_saved_errno'],
                     havoc_if=z3.Not(is_long(c, c.old, c['arg'])))

    def witness(self, c):
        return {'v_sat80': int_w(c['arg'])}

    def post(self, c):
        il = is_long(c, c.old, c['arg'])
        w = int_w(c['arg'])
        ok = z3.And(w >= wv(-(1 << 31)), w <= wv((1 << 31) - 1))
        return [('a value in int range becomes the saved errno',
                 z3.Implies(z3.And(il, ok), z3.And(saved(c, c.new) == z3.Extract(31, 0, w), c.new.err == 0,
                                                  c.result == c.ex.global_addr('_Py_NoneStruct')))),
                ('other values: OverflowError, saved errno unchanged',
                 z3.Implies(z3.And(il, z3.Not(ok)), z3.And(c.result == 0, c.new.err == exc(c.ex, 'OverflowError'),
                                                           saved(c, c.new) == saved(c, c.old))))]
