"""Contracts for ffi.unpack (C18): every fast path of b_unpack yields, for the item types that select it, the
object that element-wise reading (convert_to_object on the same bytes) yields."""
import z3

from .base import (R, BV, B64, B8, Contract, Frame, LoopSpec, Ctx, int_w, is_long, wv, exc, sx, zx, py_type,
                   bool_objects, _new_long)
from .ints import (float_val, stored_float, flag, ctype_fields, ctype_wf, byte_reader, CT_PRIMITIVE_SIGNED, CT_PRIMITIVE_UNSIGNED,
                   CT_PRIMITIVE_CHAR, CT_PRIMITIVE_FLOAT, CT_PRIMITIVE_COMPLEX, CT_POINTER, CT_FUNCTIONPTR, CT_ARRAY,
                   CT_IS_BOOL, CT_IS_LONGDOUBLE)
from .cast import is_cdata, cdata_fields
from .dl import _parse_tuple
from specs import ints as S
from vf.cfront import line_of

CT_PRIMITIVE_ANY = 0x001 | 0x002 | 0x004 | 0x008 | 0x400
def _parse_kw(ex, st, args, n):
    # PyArg_ParseTupleAndKeywords(args, kwds, fmt, keywords, ...): same outputs as ParseTuple after 4 fixed args
    ok = _parse_tuple(ex, st, [args[0], args[1]] + list(args[4:]), n, fmt_index=3)
    after = getattr(ex.contract, 'after_parse', None)
    if after is not None:
        # (regions named valid here count as handed in by the caller: this frame's stack locals are disjoint from them)
        prev, ex.collecting_regions = ex.collecting_regions, True
        try:
            facts = after(Ctx(ex, ex.args, ex.st0, st), st)
        finally:
            ex.collecting_regions = prev
        st.assume(z3.Implies(ok == 1, z3.And(*[g for _l, g in facts])))
    return ok


R.models['PyArg_ParseTupleAndKeywords'] = _parse_kw
R.models['_PyArg_ParseTupleAndKeywords_SizeT'] = _parse_kw
R.assumed['PyArg_ParseTupleAndKeywords'] = "as PyArg_ParseTuple (assumed contract keyed by the format string)"
R.inline |= {'PyList_SET_ITEM', 'PyList_GET_ITEM', '_PyList_CAST'}


@R.model('PyList_New', "new list of n items (allocation succeeds); its item array is fresh memory")
def _list_new(ex, st, args, n):
    nitems = args[0]
    st.assume(z3.And(nitems >= 0, nitems < BV(1 << 40, 64)))
    lst = ex.alloc(st, BV(40, 64), 'list')
    arr = ex.alloc(st, nitems * 8 + 8, 'list_items')
    ex.write_field(st, lst, 'PyListObject', 'ob_item', arr)
    ex.write_field(st, lst, 'PyVarObject', 'ob_size', nitems)
    ex.write_field(st, lst, 'PyObject', 'ob_type', ex.global_addr('PyList_Type'))
    return lst


class _Opaque(Contract):
    trusted = True

    def frame(self, c):
        return Frame(err=True)

    def post(self, c):
        return [('object or NULL with an exception', z3.Or(c.result != 0, c.new.err != 0))]


for _nm in ('cdata_repr', '_my_PyUnicode_FromChar16', '_my_PyUnicode_FromChar32'):
    _k = type(_nm, (_Opaque,), {'name': _nm})
    R.add(_k)
R.models['PyBytes_FromStringAndSize'] = lambda ex, st, args, n: ex.fresh('bytes', B64)
R.assumed['PyBytes_FromStringAndSize'] = "new bytes object holding the n bytes at the address (or NULL)"


def int_item_value(c, st, src, ctitem):
    """(value in WIDE bits, raw unit) of the integer item stored at src, as C reads it"""
    size, flags = ctype_fields(c, st, ctitem)
    unit = S.le_unit(byte_reader(st), src, size)
    val = z3.If(flag(flags, CT_PRIMITIVE_SIGNED), S.wide(S.signed_of_unit(unit, size), True), S.wide(unit, False))
    return val, unit


def valid_case(c, st, casenum, data, item):
    """the fast path `casenum` reads an item of type `item` exactly as element-wise reading (convert_to_object)
    does: it is selected only for the item types it was written for"""
    size, flags = ctype_fields(c, st, item)
    sgn, uns = flag(flags, CT_PRIMITIVE_SIGNED), flag(flags, CT_PRIMITIVE_UNSIGNED)
    isb, flt = flag(flags, CT_IS_BOOL), flag(flags, CT_PRIMITIVE_FLOAT)
    ld = flag(flags, CT_IS_LONGDOUBLE)
    ptr = z3.Or(flag(flags, CT_POINTER), flag(flags, CT_FUNCTIONPTR))
    cn = lambda k: casenum == k
    return z3.And(
        casenum >= -1, casenum <= 11,
        z3.Implies(cn(0), z3.And(sgn, size == 1)), z3.Implies(cn(1), z3.And(sgn, size == 2)),
        z3.Implies(cn(2), z3.And(sgn, size == 4)), z3.Implies(cn(3), z3.And(sgn, size == 8)),
        z3.Implies(cn(4), z3.And(uns, z3.Not(isb), size == 1)), z3.Implies(cn(5), z3.And(uns, z3.Not(isb), size == 2)),
        z3.Implies(cn(6), z3.And(uns, z3.Not(isb), size == 4)), z3.Implies(cn(7), z3.And(uns, z3.Not(isb), size == 8)),
        z3.Implies(cn(8), z3.And(flt, z3.Not(ld), size == 4)), z3.Implies(cn(9), z3.And(flt, z3.Not(ld), size == 8)),
        z3.Implies(cn(10), ptr), z3.Implies(cn(11), z3.And(uns, isb, size == 1)))


@R.add
class b_unpack(Contract):
    """ffi.unpack(cdata, length): whole function up to the loop; the loop is summarised (its iterations are the
    loop-body contract below), so what is proved here is that the fast path chosen before the loop is a valid one"""
    name = 'b_unpack'

    def pre(self, c):
        return [('args valid', c.valid(c['args'], 16)), ('no-pending-exception', c.old.err == 0),
                ('bool-objects', bool_objects(c.ex, c.old))]

    def after_parse(self, c, st):
        """type invariants of the parsed argument (assumed: established by the cdata constructors)"""
        cd = c.local(st, 'cd')
        ct, data = cdata_fields(c, st, cd)
        fl = c.field(st, ct, 'CTypeDescrObject', 'ct_flags')
        item = c.field(st, ct, 'CTypeDescrObject', 'ct_itemdescr')
        return [('cdata-wf', z3.And(c.valid(cd, 64), is_cdata(c, st, cd), ctype_wf(c, st, ct))),
                ('pointer and array ctypes have a well-formed item type',
                 z3.Implies(z3.Or(flag(fl, CT_POINTER), flag(fl, CT_ARRAY)), ctype_wf(c, st, item)))]

    def frame(self, c):
        return None

    def inv(self, c, st):
        cd = c.local(st, 'cd')
        ct, data = cdata_fields(c, st, cd)
        item = c.local(st, 'ctitem')
        size, flags = ctype_fields(c, st, item)
        return [('the item type is the pointed-to type, well formed',
                 z3.And(item == c.field(st, ct, 'CTypeDescrObject', 'ct_itemdescr'), ctype_wf(c, st, item))),
                ('src starts at the data, itemsize is the item size',
                 z3.And(c.local(st, 'src') == data, c.local(st, 'itemsize') == size, c.local(st, 'i') == 0)),
                ('the selected fast path is one that reads this item type exactly as element-wise reading does',
                 valid_case(c, st, c.local(st, 'casenum'), data, item)),
                ('no exception so far', st.err == 0)]

    @property
    def loops(self):
        return {0: LoopSpec(invariant=self.inv, summarise=True)}

    def post(self, c):
        return []


class UnpackBody(Contract):
    """one iteration of b_unpack's loop: the object stored as item i is the one p[i] (convert_to_object on the
    same bytes with the item type) yields"""
    name = 'b_unpack#loop'
    function = 'b_unpack'
    loop_ordinal = 0

    def pre(self, c):
        st = c.old
        item = c['ctitem']
        size, flags = ctype_fields(c, st, item)
        lst = c['result']
        arr = c.field(st, lst, 'PyListObject', 'ob_item')
        return [('item type well formed', ctype_wf(c, st, item)),
                ('itemsize is the item size', c['itemsize'] == size),
                ('the selected fast path is valid for the item type (proved at loop entry; casenum, ctitem are not '
                 'assigned in the loop)', valid_case(c, st, c['casenum'], None, item)),
                ('the item read is mapped memory (the caller\'s promise to ffi.unpack)',
                 c.valid(c['src'], z3.If(size > 8, size, BV(8, 64)))),
                ('the result list has room for item i', z3.And(c.valid(lst, 40), c.valid(arr + 8 * c['i'], 8))),
                ('no-pending-exception', st.err == 0),
                ('bool-objects', bool_objects(c.ex, st))]

    def witness(self, c):
        size, flags = ctype_fields(c, c.old, c['ctitem'])
        return {'casenum': c['casenum'], 'flags': flags, 'size': size,
                'unit': S.le_unit(byte_reader(c.old), c['src'], size)}

    def post(self, c):
        st = c.old
        item = c['ctitem']
        size, flags = ctype_fields(c, st, item)
        val, unit = int_item_value(c, st, c['src'], item)
        arr = c.field(st, c['result'], 'PyListObject', 'ob_item')
        x = c.raw(c.new, arr + 8 * c['i'], 8)
        sgn, uns = flag(flags, CT_PRIMITIVE_SIGNED), flag(flags, CT_PRIMITIVE_UNSIGNED)
        isb, flt = flag(flags, CT_IS_BOOL), flag(flags, CT_PRIMITIVE_FLOAT)
        ld = flag(flags, CT_IS_LONGDOUBLE)
        isint = z3.And(z3.Or(sgn, uns), z3.Not(isb))
        t, f = c.ex.global_addr('_Py_TrueStruct'), c.ex.global_addr('_Py_FalseStruct')
        return [
            ('integer item: the int p[i] gives',
             z3.Implies(isint, z3.And(x != 0, is_long(c, c.new, x), S.wide(int_w(x), True) == val,
                                      py_type(c, c.new, x) == c.ex.global_addr('PyLong_Type')))),
            ('_Bool item 0/1: False/True', z3.Implies(z3.And(isb, z3.ULE(unit, 1)), x == z3.If(unit == 1, t, f))),
            ('float/double item: the float p[i] gives',
             z3.Implies(z3.And(flt, z3.Not(ld)),
                        z3.And(x != 0, float_val(x) == stored_float(c, st, c['src'], size)))),
            ('a fast path is never taken for other item types (they go through convert_to_object itself)',
             z3.Implies(z3.Not(z3.Or(sgn, uns, flt, flag(flags, CT_POINTER), flag(flags, CT_FUNCTIONPTR))),
                        c['casenum'] == -1)),
            ('pointer item on the fast path: a cdata of the item type holding the stored address',
             z3.Implies(c['casenum'] == 10,
                        z3.And(x != 0, cdata_fields(c, c.new, x)[0] == item,
                               cdata_fields(c, c.new, x)[1] == c.raw(st, c['src'], 8)))),
            ('advances to the next item', z3.And(c.local(c.new, 'src') == c['src'] + c['itemsize'],
                                                 c.local(c.new, 'i') == c['i'] + 1)),
            ('no exception for integer and float items', z3.Implies(z3.Or(isint, z3.And(flt, z3.Not(ld))), c.new.err == 0)),
        ]

    def post_goto(self, c, label):
        return []


R.add(UnpackBody)
