"""Contracts for struct/union layout (C01; the checking predicates also serve C12):
complete_sflags, get_alignment (label invariant for its `retry` cycle), force_lazy_struct, detect_custom_layout,
_add_field, and b_complete_struct_or_union_lock_held as three units -- the function around its field loop
(prologue establishes the loop invariant, epilogue turns the final state into sizeof/alignof), ONE iteration of the
field loop ("loop-body contract": it refines specs/layout.py:step), and one iteration of the nested loop that
copies the members of an anonymous struct/union.
"""
import ast

import z3

from .base import R, BV, B64, B8, Contract, Frame, Ctx, LoopSpec, exc, b2i, py_type
from .ints import (flag, CT_PRIMITIVE_SIGNED, CT_PRIMITIVE_UNSIGNED, CT_PRIMITIVE_CHAR, CT_PRIMITIVE_FLOAT,
                   CT_POINTER, CT_ARRAY, CT_STRUCT, CT_UNION, CT_FUNCTIONPTR, CT_VOID, CT_PRIMITIVE_COMPLEX,
                   CT_IS_OPAQUE, KIND_FLAGS)
from vf.cexec import NotSupported
from vf.cfront import line_of
from specs import layout as L

B32 = z3.BitVecSort(32)
SF_MSVC, SF_ARM, SF_X86, SF_BIG, SF_LITTLE, SF_PACKED, SF_STD = 0x01, 0x02, 0x10, 0x04, 0x40, 0x08, 0x80
HUGE = 0x40000000
CT_PRIMITIVE_ANY = CT_PRIMITIVE_SIGNED | CT_PRIMITIVE_UNSIGNED | CT_PRIMITIVE_CHAR | CT_PRIMITIVE_FLOAT | \
    CT_PRIMITIVE_COMPLEX
CT_CUSTOM_FIELD_POS, CT_WITH_VAR_ARRAY_MUT, CT_WITH_PACKED_CHANGE_MUT = 1, 2, 4
BOUND = 1 << 55
CT = 'CTypeDescrObject'
CF = 'CFieldObject'
CF_SIZE, CF_NEXT = 48, 40       # sizeof(CFieldObject), offsetof(cf_next): checked against the compiler's layout below

# ghost vocabulary ------------------------------------------------------------------------------------------------
ulen = R.ghost('ulen', B64, B64)                 # length of a str object
f_name = R.ghost('item_name', B64, B64)          # the members of a field tuple (name, ctype [, bitsize [, offset]])
f_type = R.ghost('item_type', B64, B64)
f_bits = R.ghost('item_bitsize', B64, B32)       # -1: absent
f_off = R.ghost('item_offset', B64, B64)         # -1: absent
abase = R.ghost('array_base', B64, B64)          # the element type at the end of a chain of array types
EVENTS = 'out_of_class_events'                   # ghost counter: failures of external operations (allocation,
#                                                  tuple parsing, lazy realisation) and duplicate member names


def events(st):
    return st.gvar(EVENTS, B64)


def bump(st):
    st.ghost[EVENTS] = events(st) + 1


def F(c, st, o, name, rec=CT):
    return c.field(st, o, rec, name)


def s64(v):
    return z3.SignExt(64 - v.size(), v) if v.size() < 64 else v


@R.model('PyUnicode_GetLength', "length of a str object (ghost ulen >= 0); no effect")
def _getlength(ex, st, args, n):
    st.assume(ulen(args[0]) >= 0)
    return ulen(args[0])


@R.model('PyUnicode_InternInPlace', "replaces *p by the interned equal string: modelled as no change of the pointer")
def _intern(ex, st, args, n):
    return None


@R.model('PyDict_New', "a new empty dict (ghost size 0) or NULL with MemoryError, counted as an external failure")
def _dictnew(ex, st, args, n):
    d = ex.fresh('newdict', B64)
    fail = d == 0
    e = ex.fresh('err_dictnew', B64)
    st.assume(z3.Implies(fail, e != 0))
    st.assume(z3.Implies(z3.Not(fail), Ctx(ex, {}, st).valid(d, 48)))
    st.err = z3.If(fail, e, st.err)
    st.ghost[EVENTS] = z3.If(fail, events(st) + 1, events(st))
    st.ghost['dictsize'] = z3.If(fail, st.gvar('dictsize', B64), BV(0, 64))
    return d


@R.model('PyDict_Size', "number of keys (ghost)")
def _dictsize(ex, st, args, n):
    v = st.gvar('dictsize', B64)
    st.assume(z3.And(v >= 0, v < BV(1 << 60, 64)))
    return v


@R.model('PyDict_SetItem', "0 and the key is added (size+1) or replaced (same size: a duplicate key, counted as an "
                           "out-of-class event); or -1 with an exception (counted as an external failure)")
def _dictset(ex, st, args, n):
    r = ex.fresh('dictset', B32)
    dup = ex.fresh('dup', z3.BoolSort())
    e = ex.fresh('err_dictset', B64)
    st.assume(z3.Or(r == 0, r == BV(-1, 32)))
    st.assume(z3.Implies(r != 0, e != 0))
    size = st.gvar('dictsize', B64)
    st.ghost['dictsize'] = z3.If(z3.And(r == 0, z3.Not(dup)), size + 1, size)
    st.ghost[EVENTS] = z3.If(z3.Or(r != 0, dup), events(st) + 1, events(st))
    st.err = z3.If(r != 0, e, st.err)
    return r


_generic_parse = R.models['PyArg_ParseTuple']


def _parse_field_item(ex, st, args, n):
    """PyArg_ParseTuple(item, "O!O!|in:list item", &PyUnicode_Type, &fname, &CTypeDescr_Type, &ftype, &fbitsize,
    &foffset): on success the outputs are the members of the tuple -- ghost functions of the tuple object, -1
    standing for an absent optional member (the C variables are preset to -1) -- and the first two have the
    requested types; on failure 0 with an exception set (an external failure: the list item is not such a tuple)"""
    fmtnode = n['inner'][2]
    while fmtnode.get('kind') in ('ImplicitCastExpr', 'ParenExpr'):
        fmtnode = fmtnode['inner'][0]
    if fmtnode.get('kind') != 'StringLiteral' or ast.literal_eval(fmtnode['value']) != "O!O!|in:list item":
        return _generic_parse(ex, st, args, n)
    it = args[0]
    tp1, p_name, tp2, p_type, p_bits, p_off = args[2:8]
    ok = ex.fresh('parse_ok', B32)
    st.assume(z3.Or(ok == 0, ok == 1))
    c = Ctx(ex, {}, st)
    for dst, v, size in ((p_name, f_name(it), 8), (p_type, f_type(it), 8), (p_bits, f_bits(it), 4), (p_off, f_off(it), 8)):
        old = ex.load_raw(st, dst, size)
        ex.store_raw(st, dst, z3.If(ok == 1, v, old), size)
    sub = R.ghost('is_subtype', B64, B64, z3.BoolSort())
    t1, t2 = py_type(c, st, f_name(it)), py_type(c, st, f_type(it))
    st.assume(z3.Implies(ok == 1, z3.And(z3.Or(t1 == tp1, sub(t1, tp1)), z3.Or(t2 == tp2, sub(t2, tp2)))))
    e = ex.fresh('parse_err', B64)
    st.assume(e != 0)
    st.err = z3.If(ok == 1, st.err, e)
    st.ghost[EVENTS] = z3.If(ok == 1, events(st), events(st) + 1)
    return ok


R.models['PyArg_ParseTuple'] = _parse_field_item
R.models['_PyArg_ParseTuple_SizeT'] = _parse_field_item
R.assumed['PyArg_ParseTuple("O!O!|in:list item")'] = _parse_field_item.__doc__


# ---------------------------------------------------------------------------------------------------------------
@R.add
class complete_sflags(Contract):
    name = 'complete_sflags'

    def post(self, c):
        s = c['sflags']
        s1 = z3.If((s & (SF_MSVC | SF_ARM | SF_X86)) == 0, s | SF_X86, s)
        s2 = z3.If((s1 & (SF_BIG | SF_LITTLE)) == 0, s1 | SF_LITTLE, s1)
        return [('adds GCC-x86 bit-field rules and little-endian on this platform when nothing is specified',
                 c.result == s2)]


def sflags_normal(sflags):
    """the flag word the field loop runs under for a cdef() declaration on x86-64 Linux"""
    return z3.And((sflags & (SF_MSVC | SF_ARM | SF_X86)) == SF_X86, (sflags & (SF_BIG | SF_LITTLE)) == SF_LITTLE)


@R.add
class do_realize_lazy_struct(Contract):
    """realize_c_type.c: builds the field list of an API-mode struct (runs arbitrary code) -- assumed"""
    name = 'do_realize_lazy_struct'
    trusted = True

    def frame(self, c):
        return Frame(all_raw=True, all_fields=True, err=True, ghost=[EVENTS])

    def post(self, c):
        return [('failure is -1 with an exception, counted as an external failure',
                 z3.And(z3.Implies(c.result < 0, z3.And(c.new.err != 0, events(c.new) != events(c.old))),
                        z3.Implies(c.result >= 0, events(c.new) == events(c.old))))]


@R.add
class force_lazy_struct(Contract):
    name = 'force_lazy_struct'

    def pre(self, c):
        return [('ct-valid', c.valid(c['ct'], 104))]

    def lazy(self, c):
        return F(c, c.old, c['ct'], 'ct_lazy_field_list') != 0

    def frame(self, c):
        return Frame(err=True, ghost=[EVENTS], havoc_if=self.lazy(c))

    def post(self, c):
        ct = c['ct']
        return [('a struct without a lazy field list: 1 iff it has fields (not opaque), nothing changes',
                 z3.Implies(z3.Not(self.lazy(c)),
                            z3.And(c.result == b2i(F(c, c.old, ct, 'ct_stuff') != 0), c.new.err == c.old.err,
                                   events(c.new) == events(c.old)))),
                ('failure is -1 with an exception, counted as an external failure',
                 z3.Implies(c.result < 0, z3.And(c.new.err != 0, events(c.new) != events(c.old))))]


def kind_is(c, st, ct, mask):
    return (F(c, st, ct, 'ct_flags') & mask) != 0


is_ctype = R.ghost('is_ctype', B64, z3.BoolSort())


def ctype_closure(c, st):
    """type invariant of ctype descriptors (established by the constructors new_array_type etc.): a ctype is a
    valid object of exactly one kind; the item type of an array ctype is a ctype; array_base(t) is defined by
    array_base(t) = array_base(item(t)) for an array type t, else t"""
    t = z3.BitVec('t!ct', 64)
    fl = F(c, st, t, 'ct_flags')
    isarr = (fl & CT_ARRAY) != 0
    item = F(c, st, t, 'ct_itemdescr')
    one_kind = z3.And(*[z3.Not(z3.And(flag(fl, a), flag(fl, b))) for k, a in enumerate(KIND_FLAGS) for b in KIND_FLAGS[k + 1:]])
    return z3.ForAll([t], z3.Implies(is_ctype(t), z3.And(
        c.valid(t, 104), one_kind, z3.If(isarr, z3.And(is_ctype(item), abase(t) == abase(item)), abase(t) == t))),
        patterns=[is_ctype(t)])


def _heap_of(sel):
    return sel.arg(0)


def ctype_inv(c, st):
    """the ctype invariant as an opaque atom over the two heaps it reads (obligations that need its content get the
    definition  ctype_inv(heaps) == ctype_closure  as an extra hypothesis; the others stay quantifier-free)"""
    z = BV(0, 64)
    hf, hi = _heap_of(F(c, st, z, 'ct_flags')), _heap_of(F(c, st, z, 'ct_itemdescr'))
    return R.ghost('ctype_inv', hf.sort(), hi.sort(), z3.BoolSort())(hf, hi)


def ctype_inv_def(c, st):
    return ctype_inv(c, st) == ctype_closure(c, st)


is_cfield = R.ghost('is_cfield', B64, z3.BoolSort())


def cfield_inv(c, st):
    z = BV(0, 64)
    hn, ht = _heap_of(F(c, st, z, 'cf_next', CF)), _heap_of(F(c, st, z, 'cf_type', CF))
    return R.ghost('cfield_inv', hn.sort(), ht.sort(), z3.BoolSort())(hn, ht)


def cfield_inv_def(c, st):
    return cfield_inv(c, st) == cfield_closure(c, st)


def cfield_ok(c, st, f):
    """instance of the field-list invariant at f"""
    nxt = F(c, st, f, 'cf_next', CF)
    return z3.And(is_cfield(f), c.valid(f, CF_SIZE), c.valid(F(c, st, f, 'cf_type', CF), 104))


def cfield_closure(c, st):
    """the field list of a completed struct/union: every link is NULL or a valid CField object whose type is a ctype"""
    f = z3.BitVec('f!cf', 64)
    nxt = F(c, st, f, 'cf_next', CF)
    return z3.ForAll([f], z3.Implies(is_cfield(f), z3.And(c.valid(f, CF_SIZE), c.valid(F(c, st, f, 'cf_type', CF), 104),
                                                         z3.Or(nxt == 0, is_cfield(nxt)))),
                     patterns=[is_cfield(f)])


def align_of(c, st, ct):
    """(alignment in bytes as get_alignment must report it, it-is-defined) for a ctype: the stored alignment
    (ct_length) of a complete primitive/struct/union type, 8 for pointers, that of the element type for arrays"""
    b = abase(ct)
    fl = F(c, st, b, 'ct_flags')
    complete = z3.And((fl & (CT_PRIMITIVE_ANY | CT_STRUCT | CT_UNION)) != 0, (fl & CT_IS_OPAQUE) == 0,
                      F(c, st, b, 'ct_unrealized_struct_or_union') == 0)
    isptr = (fl & (CT_POINTER | CT_FUNCTIONPTR)) != 0
    ln = F(c, st, b, 'ct_length')
    val = z3.If(complete, z3.Extract(31, 0, ln), BV(8, 32))
    defined = z3.And(z3.Or(complete, isptr), (fl & CT_ARRAY) == 0, L.is_pow2(val))
    return val, defined, b


def _heaps_same(st, entry, keys):
    return z3.And(*[st.heap(k) == entry.heap(k) for k in sorted(keys)]) if keys else z3.BoolVal(True)


@R.add
class get_alignment(Contract):
    name = 'get_alignment'

    def pre(self, c):
        ct = c['ct']
        return [('ct is a ctype', z3.And(is_ctype(ct), c.valid(ct, 104))), ('base-valid', c.valid(abase(ct), 104)),
                ('ctype invariant: item types of arrays are ctypes', ctype_inv(c, c.old)),
                ('no-pending-exception', c.old.err == 0)]

    def scope(self, c):
        b = abase(c['ct'])
        return [('the element type is not an API-mode struct waiting to be realised',
                 F(c, c.old, b, 'ct_lazy_field_list') == 0),
                ('definition of the opaque atom ctype_inv (conservative: it only names the quantified invariant)',
                 ctype_inv_def(c, c.old))]

    def frame(self, c):
        return Frame(err=True, ghost=[EVENTS], havoc_if=F(c, c.old, abase(c['ct']), 'ct_lazy_field_list') != 0)

    def _inv(self, c, st):
        ct0 = c['ct']
        cur = c.local(st, 'ct')
        return [('the current type has the same array base as the argument', abase(cur) == abase(ct0)),
                ('the current type is a ctype', z3.And(is_ctype(cur), c.valid(cur, 104)))]

    labels = property(lambda self: {'retry': LoopSpec(invariant=self._inv, readonly=True)})

    def post(self, c):
        val, defined, b = align_of(c, c.old, c['ct'])
        lazy = F(c, c.old, b, 'ct_lazy_field_list') != 0
        return [('a type with a defined power-of-two alignment: that alignment, no error',
                 z3.Implies(z3.And(defined, z3.Not(lazy)), z3.And(c.result == val, c.new.err == 0,
                                                                  events(c.new) == events(c.old)))),
                ('otherwise -1 with an exception',
                 z3.Implies(z3.And(z3.Not(defined), z3.Not(lazy)), z3.And(c.result == BV(-1, 32), c.new.err != 0)))]


@R.add
class detect_custom_layout(Contract):
    name = 'detect_custom_layout'

    def pre(self, c):
        return [('ct-valid', c.valid(c['ct'], 104)),
                ('module initialised: ffi.error exists', c.global_value(c.old, 'FFIError') != 0)]

    def frame(self, c):
        return Frame(err=True, fields=[(CT, 'ct_flags_mut')])

    def post(self, c):
        ct = c['ct']
        same = c['compiler_value'] == c['cdef_value']
        std = (c['sflags'] & SF_STD) != 0
        m0, m1 = F(c, c.old, ct, 'ct_flags_mut'), F(c, c.new, ct, 'ct_flags_mut')
        return [('equal values: accepted, nothing changes',
                 z3.Implies(same, z3.And(c.result == 0, c.new.err == c.old.err, m1 == m0))),
                ('different values in a checked declaration: -1 and ffi.error',
                 z3.Implies(z3.And(z3.Not(same), std),
                            z3.And(c.result == BV(-1, 32), c.new.err == c.global_value(c.old, 'FFIError'), m1 == m0))),
                ('different values in a flexible declaration: accepted silently, marked custom',
                 z3.Implies(z3.And(z3.Not(same), z3.Not(std)),
                            z3.And(c.result == 0, c.new.err == c.old.err, m1 == (m0 | CT_CUSTOM_FIELD_POS))))]


@R.add
class get_field_name(Contract):
    """the name under which a CField is stored in its struct's dict -- assumed (pure)"""
    name = 'get_field_name'
    trusted = True
    pure = True


@R.add
class _add_field(Contract):
    name = '_add_field'

    def pre(self, c):
        return [('dict-valid', c.valid(c['interned_fields'], 48)), ('type-valid', c.valid(c['ftype'], 104)),
                ('CField_Type is an ordinary small type',
                 F(c, c.old, c.ex.global_addr('CField_Type'), 'tp_basicsize', 'PyTypeObject') == CF_SIZE)]

    def frame(self, c):
        return Frame(err=True, ghost=[EVENTS, 'dictsize'])

    def allocates(self, c):
        return [(c.result, BV(CF_SIZE, 64))]

    def post(self, c):
        r = c.result
        g = lambda f: F(c, c.new, r, f, CF)
        return [('a new field object carrying exactly the placement it was given',
                 z3.Implies(r != 0, z3.And(g('cf_type') == c['ftype'], g('cf_offset') == c['offset'],
                                           g('cf_bitshift') == z3.Extract(15, 0, c['bitshift']),
                                           g('cf_bitsize') == z3.Extract(15, 0, c['fbitsize']),
                                           g('cf_flags') == z3.Extract(7, 0, c['flags']),
                                           events(c.new) == events(c.old), c.new.err == c.old.err))),
                ('NULL only for an external failure or a duplicate member name, with an exception set',
                 z3.Implies(r == 0, z3.And(c.new.err != 0, events(c.new) != events(c.old))))]


# ---------------------------------------------------------------------------------------------------------------
# b_complete_struct_or_union_lock_held

def loop_inv(c, st, v):
    """the invariant of the field loop (v: values of the function's locals in state st)"""
    ct = c['ct']
    packed = (v['sflags'] & SF_PACKED) != 0
    pos_end = v['byteoffset'] + z3.ZeroExt(32, b2i(v['bitoffset'] > 0))
    return [('flag word: GCC-x86 bit-field rules, little endian', sflags_normal(v['sflags'])),
            ('pack is a power of two <= 2^30 under packing, else the huge default',
             z3.If(packed, L.is_pow2(v['pack']), v['pack'] == HUGE)),
            ('is_union is the union bit of the type', v['is_union'] == (F(c, st, ct, 'ct_flags') & CT_UNION)),
            ('0 <= bitoffset < 8', z3.And(v['bitoffset'] >= 0, v['bitoffset'] < 8)),
            ('0 <= byteoffset', v['byteoffset'] >= 0),
            ('alignment is a power of two <= 2^30', L.is_pow2(v['alignment'])),
            ('the bytes used so far cover the current position', z3.And(v['byteoffsetmax'] >= 0,
                                                                      pos_end <= v['byteoffsetmax'])),
            ('ct and the list stay valid', z3.And(c.valid(ct, 104), c.valid(c['fields'], 40))),
            ('previous points to a link slot', c.valid(v['previous'], 8)),
            ('the name dict exists', c.valid(v['interned_fields'], 48)),
            ('0 <= i', v['i'] >= 0),
            ('the module global ffi.error is not touched', c.global_value(st, 'FFIError') == c.global_value(c.old, 'FFIError'))]


LOCALS = ['sflags', 'pack', 'is_union', 'bitoffset', 'byteoffset', 'alignment', 'byteoffsetmax', 'previous',
          'interned_fields', 'i', 'nb_fields']


def locals_at(c, st):
    return {k: c.local(st, k) for k in LOCALS}


class Member:
    """the list item of iteration i, read through the real accessors' memory layout, and its spec-level description"""

    def __init__(self, c, st, v):
        self.c, self.st = c, st
        ob_item = c.field(st, c['fields'], 'PyListObject', 'ob_item')
        self.slot = ob_item + v['i'] * 8
        self.item = c.raw(st, self.slot, 8)
        it = self.item
        self.name, self.ftype, self.bits, self.off = f_name(it), f_type(it), f_bits(it), f_off(it)
        ft = self.ftype
        self.flags = F(c, st, ft, 'ct_flags')
        self.size = F(c, st, ft, 'ct_size')
        self.align32, self.align_defined, self.base = align_of(c, st, ft)
        self.named = ulen(self.name) > 0
        self.is_bf = self.bits >= 0
        self.is_aggr = (self.flags & (CT_STRUCT | CT_UNION)) != 0
        self.flexible = z3.And((self.flags & CT_ARRAY) != 0, self.size < 0)

    def in_class(self, v, forced=False):
        """the member is one the property speaks about (C01's class), bounded by 2^55 bytes; forced=True: the API-mode
        variant -- an ordinary member whose offset was measured by the C compiler and is handed in (C12)"""
        c, st, ft = self.c, self.st, self.ftype
        packed = (v['sflags'] & SF_PACKED) != 0
        intlike = (self.flags & (CT_PRIMITIVE_SIGNED | CT_PRIMITIVE_UNSIGNED | CT_PRIMITIVE_CHAR)) != 0
        last = v['i'] == v['nb_fields'] - 1
        one_kind = z3.And(*[z3.Not(z3.And(flag(self.flags, a), flag(self.flags, b)))
                            for k, a in enumerate(KIND_FLAGS) for b in KIND_FLAGS[k + 1:]])
        return z3.And(
            c.valid(self.item, 56), c.valid(ft, 104), c.valid(self.name, 16), c.valid(self.base, 104), one_kind,
            is_ctype(ft),
            self.align_defined, F(c, st, self.base, 'ct_lazy_field_list') == 0,
            # complete object types; an array of unknown length only as the last member
            z3.Or(z3.And(self.size >= 0, self.size < BOUND), z3.And(self.flexible, z3.Not(self.is_bf), last)),
            (self.flags & (CT_VOID | CT_IS_OPAQUE)) == 0,
            z3.Implies(self.is_aggr, z3.And(F(c, st, ft, 'ct_lazy_field_list') == 0,
                                            F(c, st, ft, 'ct_stuff') != 0,
                                            z3.Or(F(c, st, ft, 'ct_extra') == 0, cfield_ok(c, st, F(c, st, ft, 'ct_extra'))))),
            # bit-fields: integer or _Bool type, 0 <= width <= 8*sizeof, ':0' unnamed, never under packing
            z3.Implies(self.is_bf, z3.And(intlike, s64(self.bits) <= self.size * 8, self.size <= 8,
                                          s64(self.align32) == self.size,      # integer types are naturally aligned here (C06)
                                          z3.Implies(self.bits == 0, z3.Not(self.named)), z3.Not(packed))),
            (z3.And(self.off >= 0, self.off < BOUND, z3.Not(self.is_bf), z3.Not(self.flexible)) if forced
             else self.off == BV(-1, 64)),                 # no forced offsets in an ABI-mode declaration
            ulen(self.name) >= 0)

    def spec(self, v):
        pos = v['byteoffset'] * 8 + z3.ZeroExt(32, v['bitoffset'])
        s_eff = z3.If(self.size >= 0, self.size, BV(0, 64))
        return L.step(pos, s64(v['alignment']), v['byteoffsetmax'], v['is_union'] != 0, s64(v['pack']),
                      s_eff, s64(self.align32), s64(self.bits), self.named)


class FieldLoop(Contract):
    """b_complete_struct_or_union_lock_held, the loop over the field list: ONE iteration refines the ABI step"""
    name = 'b_complete_struct_or_union_lock_held#field-loop'
    function = 'b_complete_struct_or_union_lock_held'
    loop_ordinal = 0
    forced = False

    def _loop1_inv(self, c, st):
        # nested loop over the members of an anonymous struct/union: the layout state is not touched
        entry = getattr(c, 'entry', st)
        names = [k for k in LOCALS if k != 'previous'] + ['fflags', 'ftype', 'fname', 'fbitsize', 'foffset', 'falign',
                                                         'falignorg', 'do_align']
        same = [('%s unchanged' % k, c.local(st, k) == c.local(entry, k)) for k in names]
        ft = c.local(entry, 'ftype')
        src = c.local(st, 'cfsrc')
        prev = c.local(st, 'previous')
        return same + [
                ('previous points to a link slot outside this frame', z3.And(c.valid(prev, 8), c.off_stack(prev, 8))),
                ('the source is NULL or a field object of the anonymous member (valid, with a valid type)',
                 z3.Or(src == 0, cfield_ok(c, st, src)), [cfield_inv_def(c, st)]),
                ('field lists of completed aggregates stay well-formed', cfield_inv(c, st)),
                ('CField_Type is an ordinary small type',
                 F(c, st, c.ex.global_addr('CField_Type'), 'tp_basicsize', 'PyTypeObject') == CF_SIZE),
                ('the member type keeps its size', F(c, st, ft, 'ct_size') == F(c, entry, ft, 'ct_size')),
                ('the aggregate keeps its kind and flags',
                 z3.And(F(c, st, c['ct'], 'ct_flags') == F(c, entry, c['ct'], 'ct_flags'),
                        F(c, st, c['ct'], 'ct_flags_mut') == F(c, entry, c['ct'], 'ct_flags_mut'),
                        F(c, st, ft, 'ct_flags_mut') == F(c, entry, ft, 'ct_flags_mut'),
                        c.valid(c['ct'], 104), c.valid(ft, 104))),
                ('no error so far, no out-of-class event', z3.And(st.err == entry.err, events(st) == events(entry))),
                ('the module global ffi.error is not touched', c.global_value(st, 'FFIError') == c.global_value(entry, 'FFIError'))]

    loops = property(lambda self: {1: LoopSpec(invariant=self._loop1_inv)})

    def pre(self, c):
        st = c.old
        v = {k: c[k] for k in LOCALS}
        m = Member(c, st, v)
        return loop_inv(c, st, v) + [
            ('i < nb_fields, the list has nb_fields items', z3.And(v['i'] < v['nb_fields'], v['nb_fields'] < BV(1 << 40, 64),
                                                                   c.valid(m.slot, 8))),
            ('the aggregate so far is smaller than 2^55 bytes', z3.And(v['byteoffset'] < BOUND, v['byteoffsetmax'] < BOUND)),
            ('the member belongs to the class of the property', m.in_class(v, self.forced)),
            ('the aggregate is a struct or union being completed',
             z3.And((F(c, st, c['ct'], 'ct_flags') & (CT_STRUCT | CT_UNION)) != 0)),
            ('CField_Type is an ordinary small type',
             F(c, st, c.ex.global_addr('CField_Type'), 'tp_basicsize', 'PyTypeObject') == CF_SIZE),
            ('ctype invariant: item types of arrays are ctypes', ctype_inv(c, st)),
            ('field lists of completed aggregates are well-formed', cfield_inv(c, st)),
            ('no-pending-exception', st.err == 0)]

    def witness(self, c):
        v = {k: c[k] for k in LOCALS}
        m = Member(c, c.old, v)
        return {'byteoffset': v['byteoffset'], 'bitoffset': v['bitoffset'], 'alignment': v['alignment'],
                'byteoffsetmax': v['byteoffsetmax'], 'pack': v['pack'], 'is_union': v['is_union'],
                'member_size': m.size, 'member_align': m.align32, 'member_bits': m.bits, 'member_flags': m.flags,
                'member_named': z3.If(m.named, BV(1, 8), BV(0, 8))}

    def post(self, c):
        st0, st1 = c.old, c.new
        v0 = {k: c[k] for k in LOCALS}
        v1 = locals_at(c, st1)
        m = Member(c, st0, v0)
        sp = m.spec(v0)
        pos1 = v1['byteoffset'] * 8 + z3.ZeroExt(32, v1['bitoffset'])
        inv1 = loop_inv(c, st1, v1)
        newcf = c.raw(st1, v0['previous'], 8)            # what *previous (the old link slot) now points to
        g = lambda f: F(c, st1, newcf, f, CF)
        anon_aggr = z3.And(z3.Not(m.named), m.is_aggr, z3.Not(m.is_bf))
        added_plain = z3.And(z3.Not(m.is_bf), z3.Not(anon_aggr))
        added_bf = z3.And(m.is_bf, m.bits > 0, m.named)
        none_added = z3.And(m.is_bf, z3.Or(m.bits == 0, z3.Not(m.named)))
        bs_flag = z3.If(z3.And((m.flags & CT_ARRAY) != 0, F(c, st0, m.ftype, 'ct_length') <= 0), BV(-2, 16), BV(-1, 16))
        s_eff = z3.If(m.size >= 0, m.size, BV(0, 64))
        whole = L.total(sp['maxend'], sp['align'])
        return [(lab + ' (invariant preserved)', g_) for lab, g_ in inv1[:8]] + [
            ('previous still points to a link slot', inv1[8][1]), inv1[11],
        ] + [
            ('%s: %s afterwards = ABI step' % (kind, what), z3.Implies(case, got == sp[key]))
            for kind, case in (('ordinary member', z3.Not(m.is_bf)), ('T :0', z3.And(m.is_bf, m.bits == 0)),
                               ('bit-field of width > 0', z3.And(m.is_bf, m.bits > 0)))
            for what, got, key in (('first free bit', pos1, 'pos'), ('alignment', s64(v1['alignment']), 'align'),
                                   ('bytes used', v1['byteoffsetmax'], 'maxend'))
        ] + [
            ('ordinary member: one field object of the member type at the ABI byte offset',
             z3.Implies(added_plain, z3.And(newcf != 0, g('cf_type') == m.ftype, g('cf_offset') == sp['offset']))),
            ('ordinary member: marked as not a bit-field, linked into the list',
             z3.Implies(added_plain, z3.And(g('cf_bitshift') == bs_flag, g('cf_bitsize') == BV(-1, 16),
                                            v1['previous'] == newcf + CF_NEXT))),
            ('ordinary member lies inside the aggregate',
             z3.Implies(z3.Not(m.is_bf), sp['offset'] + s_eff <= whole)),
            ('named bit-field: storage unit offset and shift denote exactly the ABI bits',
             z3.Implies(added_bf, z3.And(newcf != 0, g('cf_type') == m.ftype,
                                         g('cf_offset') * 8 + s64(g('cf_bitshift')) == sp['start'],
                                         g('cf_offset') == sp['unit_offset'],
                                         g('cf_bitsize') == z3.Extract(15, 0, m.bits),
                                         g('cf_bitshift') >= 0,
                                         s64(g('cf_bitshift')) + s64(m.bits) <= m.size * 8,
                                         v1['previous'] == newcf + CF_NEXT))),
            ("named bit-field: the storage unit of the field's type lies inside the aggregate",
             z3.Implies(added_bf, sp['unit_offset'] + m.size <= whole)),
            ('unnamed bit-field and :0 add no field', z3.Implies(none_added, z3.And(v1['previous'] == v0['previous'],
                                                                                     newcf == c.raw(st0, v0['previous'], 8)))),
            ('no error, no out-of-class event', z3.And(st1.err == 0, events(st1) == events(st0))),
            ('the loop index advances by one', v1['i'] == v0['i'] + 1),
            ('loop-invariant locals unchanged', z3.And(v1['sflags'] == v0['sflags'], v1['pack'] == v0['pack'],
                                                       v1['is_union'] == v0['is_union'],
                                                       v1['nb_fields'] == v0['nb_fields'],
                                                       v1['interned_fields'] == v0['interned_fields']))]

    def post_goto(self, c, label):
        return [('a member of the class is rejected only after an external failure or a duplicate name',
                 z3.And(events(c.new) != events(c.old), c.new.err != 0))]


R.add(FieldLoop)


class VarFlagLoop(FieldLoop):
    """the same iteration, looked at for C20: the mark 'ends in a flexible array' (CT_WITH_VAR_ARRAY), which makes
    ffi.new size the allocation from the initializer, is propagated from members exactly"""
    name = 'b_complete_struct_or_union_lock_held#var-array-flag'

    def post(self, c):
        st0, st1 = c.old, c.new
        v0 = {k: c[k] for k in LOCALS}
        m = Member(c, st0, v0)
        mut0, mut1 = F(c, st0, c['ct'], 'ct_flags_mut'), F(c, st1, c['ct'], 'ct_flags_mut')
        member_var = z3.Or(m.flexible, z3.And(m.is_aggr, m.size >= 0,
                                              (F(c, st0, m.ftype, 'ct_flags_mut') & CT_WITH_VAR_ARRAY_MUT) != 0))
        return [('marked as ending in a flexible array iff it was, or the member is a flexible array or a struct/union so marked',
                 ((mut1 & CT_WITH_VAR_ARRAY_MUT) != 0) == z3.Or((mut0 & CT_WITH_VAR_ARRAY_MUT) != 0, member_var))]

    def post_goto(self, c, label):
        return []


R.add(VarFlagLoop)


class CheckedFieldLoop(FieldLoop):
    """the same iteration in API mode (C12): the member's offset measured by the C compiler is handed in.  A struct
    declared without '...' (SF_STD_FIELD_POS) raises ffi.error when the offset computed from the cdef differs; a
    struct declared with '...' adopts the compiler's offset silently"""
    name = 'b_complete_struct_or_union_lock_held#checked-field'
    forced = True

    def pre(self, c):
        return FieldLoop.pre(self, c) + [('module initialised: ffi.error exists', c.global_value(c.old, 'FFIError') != 0)]

    def _parts(self, c):
        st0 = c.old
        v0 = {k: c[k] for k in LOCALS}
        m = Member(c, st0, v0)
        sp = m.spec(v0)
        std = (v0['sflags'] & SF_STD) != 0
        return st0, v0, m, sp, std

    def post(self, c):
        st0, v0, m, sp, std = self._parts(c)
        st1 = c.new
        v1 = locals_at(c, st1)
        newcf = c.raw(st1, v0['previous'], 8)
        g = lambda f: F(c, st1, newcf, f, CF)
        anon_aggr = z3.And(z3.Not(m.named), m.is_aggr)
        end = m.off + m.size
        mut0, mut1 = F(c, st0, c['ct'], 'ct_flags_mut'), F(c, st1, c['ct'], 'ct_flags_mut')
        return [(lab + ' (invariant preserved)', g_) for lab, g_ in loop_inv(c, st1, v1)[:9]] + [loop_inv(c, st1, v1)[11]] + [
            ('a checked struct gets here only if the offset computed from the cdef is the compiler\'s',
             z3.Implies(std, sp['offset'] == m.off)),
            ('the field is placed at the offset the compiler measured',
             z3.Implies(z3.Not(anon_aggr), z3.And(newcf != 0, g('cf_type') == m.ftype, g('cf_offset') == m.off,
                                                  g('cf_bitsize') == BV(-1, 16)))),
            ('the layout continues after the member as the compiler placed it',
             z3.And(v1['byteoffset'] == end, v1['bitoffset'] == 0,
                    v1['byteoffsetmax'] == z3.If(end > v0['byteoffsetmax'], end, v0['byteoffsetmax']),
                    s64(v1['alignment']) == sp['align'])),
            ('a silently adopted different offset marks the type as having a custom layout',
             z3.Implies(sp['offset'] != m.off, (mut1 & CT_CUSTOM_FIELD_POS) != 0)),
            ('no error, no out-of-class event', z3.And(st1.err == 0, events(st1) == events(st0))),
            ('the loop index advances by one', v1['i'] == v0['i'] + 1)]

    def post_goto(self, c, label):
        st0, v0, m, sp, std = self._parts(c)
        return [('rejected only for an external failure, or -- in a checked struct -- with ffi.error because the '
                 'computed offset differs from the compiler\'s',
                 z3.Or(z3.And(events(c.new) != events(c.old), c.new.err != 0),
                       z3.And(std, sp['offset'] != m.off, c.new.err == c.global_value(c.old, 'FFIError'))))]


R.add(CheckedFieldLoop)


class AnonLoop(Contract):
    """the nested loop copying the members of an anonymous struct/union into the enclosing aggregate: one
    iteration adds one field object with the member's type and bit placement at byteoffset + its offset"""
    name = 'b_complete_struct_or_union_lock_held#anonymous-member-loop'
    function = 'b_complete_struct_or_union_lock_held'
    loop_ordinal = 1

    def pre(self, c):
        st = c.old
        src = c['cfsrc']
        return [('source field valid', z3.And(c.valid(src, CF_SIZE), c.valid(F(c, st, src, 'cf_type', CF), 104))),
                ('previous points to a link slot', c.valid(c['previous'], 8)),
                ('the name dict exists', c.valid(c['interned_fields'], 48)),
                ('member type valid', c.valid(c['ftype'], 104)),
                ('CField_Type is an ordinary small type',
                 F(c, st, c.ex.global_addr('CField_Type'), 'tp_basicsize', 'PyTypeObject') == CF_SIZE),
                ('no-pending-exception', st.err == 0)]

    def post(self, c):
        st0, st1 = c.old, c.new
        src = c['cfsrc']
        s = lambda f: F(c, st0, src, f, CF)
        newcf = c.raw(st1, c['previous'], 8)
        g = lambda f: F(c, st1, newcf, f, CF)
        return [('the copy has the inner placement shifted by the position of the anonymous member',
                 z3.And(newcf != 0, g('cf_type') == s('cf_type'), g('cf_offset') == c['byteoffset'] + s('cf_offset'),
                        g('cf_bitshift') == s('cf_bitshift'), g('cf_bitsize') == s('cf_bitsize'),
                        g('cf_flags') == (s('cf_flags') | z3.Extract(7, 0, c['fflags'])))),
                ('the list is extended by it and the source advances',
                 z3.And(c.local(st1, 'previous') == newcf + CF_NEXT, c.local(st1, 'cfsrc') == s('cf_next'))),
                ('layout state untouched', z3.And(*[c.local(st1, k) == c[k] for k in LOCALS if k != 'previous'])),
                ('no error, no out-of-class event', z3.And(st1.err == 0, events(st1) == events(st0)))]

    def post_goto(self, c, label):
        return [('left only after an external failure or a duplicate name',
                 z3.And(events(c.new) != events(c.old), c.new.err != 0))]


R.add(AnonLoop)


@R.add
class b_complete_struct_or_union_lock_held(Contract):
    """the function around its field loop.  The loop is summarised: its invariant is an obligation at loop entry
    (prologue), each iteration is the loop-body contract above (which restates the invariant in pre and post), and
    the invariant with the negated loop condition is what the epilogue starts from."""
    name = 'b_complete_struct_or_union_lock_held'

    def _inv(self, c, st):
        return loop_inv(c, st, locals_at(c, st))

    loops = property(lambda self: {0: LoopSpec(invariant=self._inv, summarise=True, assume_exit=True)})

    def pre(self, c):
        st = c.old
        ct = c['ct']
        pk = c['pack']
        fl = F(c, st, ct, 'ct_flags')
        return [('ct-valid', c.valid(ct, 104)), ('list-valid', c.valid(c['fields'], 40)),
                ('ct is a struct or union type that has not been completed yet',
                 z3.And((fl & (CT_STRUCT | CT_UNION)) != 0,
                        z3.Or(F(c, st, ct, 'ct_unrealized_struct_or_union') != 0, F(c, st, ct, 'ct_under_construction') != 0))),
                ('a cdef() declaration on this platform: no explicit bit-field/endianness flags, at most SF_PACKED',
                 z3.Or(c['sflags'] == 0, c['sflags'] == SF_PACKED)),
                ('pack is 0 (none) or a power of two (Parser.parse checks it)',
                 z3.Or(pk == 0, L.is_pow2(pk))),
                ('the size and alignment are left to the layout algorithm (-1, -1)',
                 z3.And(c['totalsize'] == BV(-1, 64), c['totalalignment'] == BV(-1, 32))),
                ('module initialised: ffi.error exists', c.global_value(st, 'FFIError') != 0),
                ('None is an object', c.valid(c.ex.global_addr('_Py_NoneStruct'), 16)),
                ('no-pending-exception', st.err == 0)]

    def frame(self, c):
        return None          # (calls into Python: everything may change; only the results below are claimed)

    def witness(self, c):
        return {'sflags': c['sflags'], 'pack': c['pack']}

    def post_witness(self, c):
        return {'bytes_used': c.local(c.new, 'byteoffsetmax'), 'alignment_final': c.local(c.new, 'alignment')}

    def post(self, c):
        st = c.new
        ct = c['ct']
        ok = c.result != 0
        maxend, align = c.local(st, 'byteoffsetmax'), c.local(st, 'alignment')
        small = z3.And(maxend >= 0, maxend < BOUND)
        whole = L.total(maxend, s64(align))
        return [('sizeof = bytes used rounded up to the alignment (GNU size 0 is reported as 1: recorded finding)',
                 z3.Implies(z3.And(ok, small), F(c, st, ct, 'ct_size') == z3.If(whole == 0, BV(1, 64), whole))),
                ('sizeof = bytes used rounded up to the alignment, exactly as the ABI says',
                 z3.Implies(z3.And(ok, small), F(c, st, ct, 'ct_size') == whole)),
                ('alignof = the largest member alignment', z3.Implies(ok, F(c, st, ct, 'ct_length') == s64(align))),
                ('the type is marked complete', z3.Implies(ok, F(c, st, ct, 'ct_unrealized_struct_or_union') == 0)),
                ('outside the loop nothing is rejected: failure only after an external failure',
                 z3.Implies(z3.Not(ok), z3.And(c.new.err != 0, events(c.new) != events(c.old))))]


class b_complete_checked(b_complete_struct_or_union_lock_held):
    """the function around its loop in API mode (C12): the total size and alignment measured by the C compiler are
    handed in; a checked struct (SF_STD_FIELD_POS) raises ffi.error when the numbers computed from the cdef differ,
    a struct declared with '...' adopts the compiler's numbers silently"""
    name = 'b_complete_struct_or_union_lock_held#checked'
    function = 'b_complete_struct_or_union_lock_held'

    def pre(self, c):
        base = [e for e in b_complete_struct_or_union_lock_held.pre(self, c)
                if not e[0].startswith(('a cdef() declaration', 'the size and alignment are left'))]
        sf = c['sflags']
        return base + [('API-mode flags: at most SF_STD_FIELD_POS and SF_PACKED', (sf & ~BV(SF_STD | SF_PACKED, 32)) == 0),
                       ('the compiler\'s size and alignment are handed in',
                        z3.And(c['totalsize'] >= 0, c['totalsize'] < BOUND, c['totalalignment'] >= 0))]

    def post(self, c):
        st = c.new
        ct = c['ct']
        ok = c.result != 0
        maxend, align = c.local(st, 'byteoffsetmax'), c.local(st, 'alignment')
        small = z3.And(maxend >= 0, maxend < BOUND)
        whole = L.total(maxend, s64(align))
        mine = z3.If(whole == 0, BV(1, 64), whole)
        std = (c['sflags'] & SF_STD) != 0
        same = z3.And(mine == c['totalsize'], s64(align) == s64(c['totalalignment']))
        ffierr = c.global_value(c.old, 'FFIError')
        nofail = events(c.new) == events(c.old)
        return [('checked struct whose computed size or alignment differs from the compiler\'s: ffi.error',
                 z3.Implies(z3.And(small, std, z3.Not(same), nofail), z3.And(z3.Not(ok), c.new.err == ffierr))),
                ('checked struct with the same numbers: accepted', z3.Implies(z3.And(small, std, same, nofail), ok)),
                ("struct declared with '...': a different size or alignment is no error; accepted unless the compiler's "
                 "size cannot hold the fields (then TypeError)",
                 z3.Implies(z3.And(small, z3.Not(std), nofail),
                            z3.And(ok == (c['totalsize'] >= maxend),
                                   z3.Implies(z3.Not(ok), c.new.err == exc(c.ex, 'TypeError'))))),
                ("accepted: sizeof and alignof are the compiler's numbers",
                 z3.Implies(ok, z3.And(F(c, st, ct, 'ct_size') == c['totalsize'],
                                       F(c, st, ct, 'ct_length') == s64(c['totalalignment']))))]


R.add(b_complete_checked)
