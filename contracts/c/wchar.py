"""Contracts for the str <-> char16_t/char32_t helpers (wchar_helper_3.h) -- C15."""
import z3

from .base import R, BV, B64, B8, Contract, Frame, LoopSpec, Ctx, exc, has_flag, TPFLAGS_UNICODE
from vf.cexec import NotSupported

R.inline |= {'PyUnicode_READ', 'PyUnicode_DATA', '_PyUnicode_COMPACT_DATA', '_PyUnicode_NONCOMPACT_DATA',
             'PyUnicode_GET_LENGTH', 'PyUnicode_IS_COMPACT', 'PyUnicode_IS_ASCII', 'PyUnicode_IS_COMPACT_ASCII',
             'PyUnicode_IS_READY', 'PyUnicode_READ_CHAR', 'PyUnicode_MAX_CHAR_VALUE'}

I = z3.IntSort()
# ghost: number of UTF-16 units of the first i code points of str object u (prefix sum; T-U16)
u16off = z3.Function('u16off', B64, B64, B64)


def ufields(c, st, u):
    F = lambda f: c.field(st, u, 'PyASCIIObject', f)
    return F('length'), F('state.kind'), F('state.compact'), F('state.ascii')


def udata(c, st, u):
    ln, kind, compact, ascii_ = ufields(c, st, u)
    return z3.If(compact != 0, z3.If(ascii_ != 0, u + 40, u + 56), c.field(st, u, 'PyUnicodeObject', 'data.any'))


def cp(c, st, u, i):
    """code point i of str object u (as the real PyUnicode_READ computes it from kind and data)"""
    ln, kind, compact, ascii_ = ufields(c, st, u)
    d = udata(c, st, u)
    b1 = z3.ZeroExt(24, z3.Select(st.raw, d + i))
    b2 = z3.ZeroExt(16, c.raw(st, d + 2 * i, 2))
    b4 = c.raw(st, d + 4 * i, 4)
    return z3.If(kind == 1, b1, z3.If(kind == 2, b2, b4))


def units_of(ch):
    return z3.If(z3.UGT(ch, BV(0xFFFF, 32)), BV(2, 64), BV(1, 64))


def str_wf(c, st, u):
    ln, kind, compact, ascii_ = ufields(c, st, u)
    d = udata(c, st, u)
    return z3.And(c.valid(u, 64), ln >= 0, ln < BV(1 << 40, 64), z3.Or(kind == 1, kind == 2, kind == 4),
                  c.valid(d, ln * 4), u16off(u, BV(0, 64)) == 0)


def off_step(c, st, u, i):
    """T-U16 unfold instance: off(i+1) = off(i) + (2 if code point i is astral else 1)"""
    return u16off(u, i + 1) == u16off(u, i) + units_of(cp(c, st, u, i))


def off_mono(c, st, u, i):
    """T-U16 monotonicity instance (prefix sums of positive numbers): for i < len, off(i+1) <= off(len)"""
    ln = ufields(c, st, u)[0]
    return z3.Implies(z3.And(i >= 0, i < ln), z3.And(u16off(u, i + 1) <= u16off(u, ln), u16off(u, i) >= 0,
                                                      u16off(u, i) <= 2 * i, u16off(u, i + 1) <= 2 * (i + 1)))


class AsChar16(Contract):
    """writes the UTF-16 units of the string at result[0..) and, when the destination has room for more
    than that (resultlen > number of units), one terminating zero unit; nothing else"""
    name = '_my_PyUnicode_AsChar16'

    def total(self, c):
        return u16off(c['unicode'], ufields(c, c.old, c['unicode'])[0])

    def pre(self, c):
        u = c['unicode']
        ln = ufields(c, c.old, u)[0]
        return [('str-wf', str_wf(c, c.old, u)), ('no-pending-exception', c.old.err == 0),
                ('destination holds resultlen units', z3.And(c['resultlen'] >= 0, c['resultlen'] < BV(1 << 41, 64),
                                                             c.valid(c['result'], 2 * c['resultlen']))),
                ('the units fit (checked by the caller)', z3.And(self.total(c) <= c['resultlen'], self.total(c) >= 0)),
                ('string data and destination do not overlap',
                 z3.Or(z3.UGE(udata(c, c.old, u), c['result'] + 2 * c['resultlen']),
                       z3.ULE(udata(c, c.old, u) + 4 * ln, c['result'])))]

    def frame(self, c):
        return Frame(raw=[(c['result'], 2 * c['resultlen'])], err=True)

    def witness(self, c):
        u = c['unicode']
        return {'len': ufields(c, c.old, u)[0], 'kind': ufields(c, c.old, u)[1], 'resultlen': c['resultlen'],
                'total_units': self.total(c)}

    def inv(self, c, st):
        u = c['unicode']
        ln = ufields(c, c.old, u)[0]
        i = c.local(st, 'i')
        res = c.local(st, 'result')
        out = [('0<=i<=len', z3.And(i >= 0, i <= ln)), ('no exception so far', st.err == c.old.err),
               ('result points after the units of the first i code points',
                res == c['result'] + 2 * u16off(u, i), [off_step(c, c.old, u, i - 1)])]
        return out

    @property
    def loops(self):
        return {0: LoopSpec(invariant=self.inv, raw=lambda c, st: [(c['result'], 2 * c['resultlen'])])}

    def accessible(self, c):
        def wr(st, addr, nbytes):
            u = c['unicode']
            inside = z3.And(z3.UGE(addr, c['result']), z3.ULE(addr + nbytes, c['result'] + 2 * c['resultlen']))
            did = c.ex.locals_by_name.get('i')
            if did is not None and did in st.env:
                i = st.env[did]
                # instances of T-U16 (unfold and monotonicity of the prefix sums) at the current index
                return z3.Implies(z3.And(off_step(c, c.old, u, i), off_mono(c, c.old, u, i)), inside)
            return inside
        def rd(st, addr, nbytes):
            d = udata(c, c.old, c['unicode'])
            ln = ufields(c, c.old, c['unicode'])[0]
            return z3.And(z3.UGE(addr, d), z3.ULE(addr + nbytes, d + 4 * ln))
        return {'read': rd, 'write': wr}

    def post(self, c):
        u = c['unicode']
        tot = self.total(c)
        term_unit = c.raw(c.new, c['result'] + 2 * tot, 2)
        astral_ok = z3.BoolVal(True)
        return [('succeeds (all code points <= 0x10FFFF) or ValueError',
                 z3.Or(z3.And(c.result == 0, c.new.err == 0),
                       z3.And(c.result == BV(-1, 32), c.new.err == exc(c.ex, 'ValueError')))),
                ('a terminating zero unit follows the string when it fits',
                 z3.Implies(z3.And(c.result == 0, c['resultlen'] > tot), term_unit == 0))]


R.add(AsChar16)


class AsChar16Body(Contract):
    """one iteration of the loop of _my_PyUnicode_AsChar16: code point i is written as its UTF-16 form"""
    name = '_my_PyUnicode_AsChar16#loop'
    function = '_my_PyUnicode_AsChar16'
    loop_ordinal = 0

    def pre(self, c):
        u = c['unicode']
        ln, kind, compact, ascii_ = ufields(c, c.old, u)
        return [('str-wf', str_wf(c, c.old, u)), ('0<=i<len', z3.And(c['i'] >= 0, c['i'] < c['len'], c['len'] == ln)),
                ('kind/data as computed before the loop', z3.And(c['kind'] == kind, c['data'] == udata(c, c.old, u))),
                ('room for two units', c.valid(c['result'], 4)), ('no-pending-exception', c.old.err == 0)]

    def witness(self, c):
        return {'code_point': cp(c, c.old, c['unicode'], c['i'])}

    def post(self, c):
        ch = cp(c, c.old, c['unicode'], c['i'])
        r = c['result']
        u0, u1 = c.raw(c.new, r, 2), c.raw(c.new, r + 2, 2)
        astral = z3.UGT(ch, BV(0xFFFF, 32))
        v = ch - 0x10000
        hi = z3.Extract(15, 0, BV(0xD800, 32) | z3.LShR(v, 10))
        lo = z3.Extract(15, 0, BV(0xDC00, 32) | (v & 0x3FF))
        a = z3.BitVec('a!fr', 64)
        n = units_of(ch)
        return [('BMP code point (<= 0xFFFF, including U+FFFF): one unit equal to it',
                 z3.Implies(z3.Not(astral), z3.And(u0 == z3.Extract(15, 0, ch), c.local(c.new, 'result') == r + 2))),
                ('astral code point (<= 0x10FFFF): high then low surrogate',
                 z3.Implies(astral, z3.And(u0 == hi, u1 == lo, c.local(c.new, 'result') == r + 4))),
                ('nothing but these units is written',
                 z3.Implies(z3.Not(z3.And(z3.UGE(a, r), z3.ULT(a, r + 2 * n))),
                            z3.Select(c.new.raw, a) == z3.Select(c.old.raw, a))),
                ('index advances', c.local(c.new, 'i') == c['i'] + 1)]


R.add(AsChar16Body)


@R.model('PyUnicode_AsUCS4', "copies the code points of the str into the buffer (plus a NUL if copy_null); fails with "
                             "SystemError if the buffer is too small; the source is not modified")
def _as_ucs4(ex, st, args, n):
    u, buf, buflen, copy_null = args
    c = Ctx(ex, {}, st)
    ln = ufields(c, st, u)[0]
    need = ln + z3.If(copy_null != 0, BV(1, 64), BV(0, 64))
    ok = buflen >= need
    a = z3.BitVec('a!ucs4', 64)
    old = st.raw
    k = z3.LShR(a - buf, 2)                # index of the code point this byte belongs to
    byte_of = lambda ch, a_: z3.Extract(7, 0, z3.LShR(ch, z3.Extract(31, 0, (a_ - buf) & 3) * 8))
    inside = z3.And(z3.UGE(a, buf), z3.ULT(a, buf + 4 * ln))
    term = z3.And(copy_null != 0, z3.UGE(a, buf + 4 * ln), z3.ULT(a, buf + 4 * ln + 4))
    st.raw = z3.If(ok, z3.Lambda([a], z3.If(inside, byte_of(cp(c, st, u, k), a), z3.If(term, BV(0, 8), z3.Select(old, a)))),
                   old)
    st.err = z3.If(ok, st.err, exc(ex, 'SystemError'))
    if ex.access_regions is not None:
        j = ex.fresh('j!ucs4', B64)
        ex.ob('memory', ex.cur_line, 'PyUnicode_AsUCS4-writes-inside-the-buffer', st,
              z3.Implies(z3.And(ok, z3.ULT(j, 4 * need)), ex.access_regions['write'](st, buf + j, 1)))
    return z3.If(ok, buf, BV(0, 64))


class AsChar32(Contract):
    name = '_my_PyUnicode_AsChar32'

    def pre(self, c):
        u = c['unicode']
        ln = ufields(c, c.old, u)[0]
        return [('str-wf', str_wf(c, c.old, u)), ('no-pending-exception', c.old.err == 0),
                ('destination holds resultlen units', z3.And(c['resultlen'] >= 0, c['resultlen'] < BV(1 << 41, 64),
                                                             c.valid(c['result'], 4 * c['resultlen']))),
                ('the units fit (checked by the caller)', ln <= c['resultlen']),
                ('string data and destination do not overlap',
                 z3.Or(z3.UGE(udata(c, c.old, u), c['result'] + 4 * c['resultlen']),
                       z3.ULE(udata(c, c.old, u) + 4 * ln, c['result'])))]

    def frame(self, c):
        return Frame(raw=[(c['result'], 4 * c['resultlen'])], err=True)

    def witness(self, c):
        return {'len': ufields(c, c.old, c['unicode'])[0], 'resultlen': c['resultlen']}

    def accessible(self, c):
        def wr(st, addr, nbytes):
            return z3.And(z3.UGE(addr, c['result']), z3.ULE(addr + nbytes, c['result'] + 4 * c['resultlen']))
        return {'read': lambda st, a, n: z3.BoolVal(True), 'write': wr}

    def post(self, c):
        u = c['unicode']
        ln = ufields(c, c.old, u)[0]
        k = z3.BitVec('k!c32', 64)
        return [('succeeds', z3.And(c.result == 0, c.new.err == 0)),
                # (that unit k is code point k is the assumed contract of PyUnicode_AsUCS4 itself, not re-proved)
                ('a terminating zero unit follows the string when it fits',
                 z3.Implies(c['resultlen'] > ln, c.raw(c.new, c['result'] + 4 * ln, 4) == 0))]


R.add(AsChar32)


class SizeAsChar16(Contract):
    """number of UTF-16 units of the string"""
    name = '_my_PyUnicode_SizeAsChar16'
    pure = True

    def pre(self, c):
        u = c['unicode']
        ln, kind, compact, ascii_ = ufields(c, c.old, u)
        return [('str-wf', str_wf(c, c.old, u)),
                # T-U16 with CPython's invariant "kind < 4  ==>  every code point <= 0xFFFF": one unit each
                ('narrow kinds have no astral code points', z3.Implies(kind != 4, u16off(u, ln) == ln))]

    def inv(self, c, st):
        u = c['unicode']
        ln = ufields(c, c.old, u)[0]
        i, res = c.local(st, 'i'), c.local(st, 'result')
        return [('0<=i<=len', z3.And(i >= 0, i <= ln)),
                ('result = len + number of astral code points among the first i',
                 res == ln + u16off(u, i) - i, [off_step(c, c.old, u, i - 1)])]

    @property
    def loops(self):
        return {0: LoopSpec(invariant=self.inv)}

    def post(self, c):
        u = c['unicode']
        return [('the number of UTF-16 units', c.result == u16off(u, ufields(c, c.old, u)[0]))]


R.add(SizeAsChar16)
R.inline |= {'_my_PyUnicode_SizeAsChar32', 'PyUnicode_4BYTE_DATA', 'PyUnicode_2BYTE_DATA', 'PyUnicode_1BYTE_DATA'}


# -- ffi.string(): scanning for the first zero unit (the four loops of b_string) -------------------------------
nz = z3.Function('nonzero_prefix', B64, B64, z3.BoolSort())     # ghost: units [0, n) at the address are all non-zero


def _mk_scan(ordinal, usize, bounded):
    nm = 'b_string#scan%d' % ordinal

    class K(Contract):
        """one iteration / the exit of a zero-unit scan: the loop invariant is 'no zero unit before `length`'
        (ghost nonzero_prefix with its unfolding instance at the current index)"""
        name = nm
        function = 'b_string'
        loop_ordinal = ordinal

        def unit(self, c, st, k):
            return c.raw(st, c['start'] + usize * k, usize)

        def unfold(self, c, k):
            return nz(c['start'], k + 1) == z3.And(nz(c['start'], k), self.unit(c, c.old, k) != 0)

        def pre(self, c):
            ln = c['length']
            pre = [('invariant: no zero unit among the first `length`', z3.And(ln >= 0, nz(c['start'], ln))),
                   ('unfolding of the ghost at the current index', self.unfold(c, ln)),
                   ('the scanned units are mapped', c.valid(c['start'] + usize * ln, usize))]
            if bounded:
                pre.append(('length <= maxlen', ln <= c['maxlen']))
            return pre

        def witness(self, c):
            return {'length': c['length']}

        def post(self, c):
            return [('invariant preserved: the unit just passed is non-zero, length advances by one',
                     z3.And(c.local(c.new, 'length') == c['length'] + 1, nz(c['start'], c['length'] + 1)))]

        def post_exit(self, c):
            ln = c['length']
            stop_zero = self.unit(c, c.old, ln) == 0
            if bounded:
                return [('stops at the first zero unit, or at maxlen if there is none before',
                         z3.And(nz(c['start'], ln), z3.Or(ln == c['maxlen'], z3.And(ln < c['maxlen'], stop_zero))))]
            return [('stops at the first zero unit', z3.And(nz(c['start'], ln), stop_zero))]
    K.__name__ = nm
    R.add(K)
    return nm


SCANS = [_mk_scan(0, 2, False), _mk_scan(1, 2, True), _mk_scan(2, 4, False), _mk_scan(3, 4, True)]
