"""Contracts for indexing, slicing and pointer arithmetic (C16)."""
import z3

from .base import (R, BV, B64, Contract, Frame, Ctx, int_w, int_m, is_long, wv, exc, py_type, pyint_axiom,
                   _havoc_unless, W)
from .ints import (flag, ctype_fields, CT_POINTER, CT_ARRAY, CT_IS_VOID_PTR)
from .cast import is_cdata, cdata_fields, DATAOFFSET
from vf.cfront import line_of
from specs import arith as A

CT_FLAGS = lambda c, st, ct: c.field(st, ct, 'CTypeDescrObject', 'ct_flags')


def fits_ssize(w):
    return z3.And(w >= wv(-(1 << 63)), w <= wv((1 << 63) - 1))


@R.model('PyNumber_AsSsize_t', "int object: the value if it fits Py_ssize_t, else -1 with the given exception class "
                               "(OverflowError clipping when NULL is not used by cffi); other objects: __index__ "
                               "runs arbitrary code (havoc)")
def _as_ssize(ex, st, args, n):
    o, e = args
    c = Ctx(ex, {}, st)
    il = is_long(c, st, o)
    st.assume(pyint_axiom(o))
    w = int_w(o)
    other_res = ex.fresh('ret_AsSsize_t', B64)
    res = z3.If(il, z3.If(fits_ssize(w), z3.Extract(63, 0, w), BV(-1, 64)), other_res)
    other = ex.fresh('err_index', B64)
    _havoc_unless(ex, st, il, 'PyNumber_AsSsize_t')
    st.err = z3.If(il, z3.If(fits_ssize(w), st.err, e), other)
    return res


@R.model('PyLong_AsSsize_t', "int object: value or -1 with OverflowError; any other object: -1 with TypeError")
def _long_as_ssize(ex, st, args, n):
    o = args[0]
    c = Ctx(ex, {}, st)
    il = is_long(c, st, o)
    st.assume(pyint_axiom(o))
    w = int_w(o)
    ok = z3.And(il, fits_ssize(w))
    st.err = z3.If(ok, st.err, z3.If(il, exc(ex, 'OverflowError'), exc(ex, 'TypeError')))
    return z3.If(ok, z3.Extract(63, 0, w), BV(-1, 64))


R.pure_models = set(getattr(R, 'pure_models', ())) | {'get_array_length'}


def arr_len(c, st, cd):
    ct, data = cdata_fields(c, st, cd)
    n = c.field(st, ct, 'CTypeDescrObject', 'ct_length')
    return z3.If(n < 0, c.field(st, cd, 'CDataObject_own_length', 'length'), n)


def item_size(c, st, cd):
    ct, data = cdata_fields(c, st, cd)
    item = c.field(st, ct, 'CTypeDescrObject', 'ct_itemdescr')
    return c.field(st, item, 'CTypeDescrObject', 'ct_size')


def cdata_wf(c, st, cd):
    """a cdata whose type is an array or pointer type with a valid item type; for arrays the data region
    holds length*itemsize bytes without wrap-around"""
    ct, data = cdata_fields(c, st, cd)
    fl = CT_FLAGS(c, st, ct)
    item = c.field(st, ct, 'CTypeDescrObject', 'ct_itemdescr')
    z = item_size(c, st, cd)
    n = arr_len(c, st, cd)
    isarr, isptr = flag(fl, CT_ARRAY), flag(fl, CT_POINTER)
    return z3.And(c.valid(cd, 64), c.valid(ct, 104), z3.Not(z3.And(isarr, isptr)),
                  z3.Implies(z3.Or(isarr, isptr), c.valid(item, 104)),
                  z3.Implies(isarr, c.valid(c.field(st, ct, 'CTypeDescrObject', 'ct_stuff'), 104)),
                  z3.Implies(isarr, z3.And(n >= 0, z >= 0, n < BV(1 << 40, 64), z < BV(1 << 20, 64),
                                           c.valid(data, n * z))))


def is_owning(c, st, cd):
    t = py_type(c, st, cd)
    return z3.Or(t == c.ex.global_addr('CDataOwning_Type'), t == c.ex.global_addr('CDataOwningGC_Type'))


@R.add
class get_array_length(Contract):
    name = 'get_array_length'
    pure = True

    def pre(self, c):
        ct, data = cdata_fields(c, c.old, c['cd'])
        return [('cd-valid', c.valid(c['cd'], 64)), ('ct-valid', c.valid(ct, 104))]

    def post(self, c):
        return [('declared length, or the stored length of an open array', c.result == arr_len(c, c.old, c['cd']))]


@R.add
class _cdata_get_indexed_ptr(Contract):
    name = '_cdata_get_indexed_ptr'

    def pre(self, c):
        return [('cdata-wf', cdata_wf(c, c.old, c['cd'])), ('key-valid', c.valid(c['key'], 16)),
                ('no-pending-exception', c.old.err == 0)]

    def scope(self, c):
        return [('key-is-python-int', is_long(c, c.old, c['key']))]

    def frame(self, c):
        return Frame(err=True, havoc_if=z3.Not(is_long(c, c.old, c['key'])))

    def witness(self, c):
        ct, data = cdata_fields(c, c.old, c['cd'])
        return {'index_sat80': int_w(c['key']), 'length': arr_len(c, c.old, c['cd']),
                'itemsize': item_size(c, c.old, c['cd']), 'flags': CT_FLAGS(c, c.old, ct),
                'owning': z3.If(is_owning(c, c.old, c['cd']), BV(1, 8), BV(0, 8))}

    def post(self, c):
        st = c.old
        cd = c['cd']
        ct, data = cdata_fields(c, st, cd)
        fl = CT_FLAGS(c, st, ct)
        isarr, isptr = flag(fl, CT_ARRAY), flag(fl, CT_POINTER)
        w = int_w(c['key'])
        n, z = arr_len(c, st, cd), item_size(c, st, cd)
        i64 = z3.Extract(63, 0, w)
        il = is_long(c, st, c['key'])
        in_arr = z3.And(w >= wv(0), w < z3.SignExt(W - 64, n))
        own = is_owning(c, st, cd)
        ok_ptr_own = w == wv(0)
        ok_ptr = z3.And(fits_ssize(w), data != 0)
        accepted = z3.If(isarr, in_arr, z3.If(isptr, z3.If(own, ok_ptr_own, ok_ptr), z3.BoolVal(False)))
        ie = exc(c.ex, 'IndexError')
        return [
            ('accepted index: address of item i, no error',
             z3.Implies(z3.And(il, accepted), z3.And(c.result == data + i64 * z, c.new.err == 0))),
            ('array: accepted address lies inside the array',
             z3.Implies(z3.And(il, isarr, in_arr, z > 0),
                        z3.And(z3.UGE(c.result, data), z3.ULE(c.result + z, data + n * z))),
             [A.mul_mono_step(i64, n, z)]),
            ('array: index outside 0 <= i < n raises IndexError',
             z3.Implies(z3.And(il, isarr, z3.Not(in_arr)), z3.And(c.result == 0, c.new.err == ie))),
            ('owning pointer: any index but 0 raises IndexError',
             z3.Implies(z3.And(il, isptr, own, z3.Not(ok_ptr_own)), z3.And(c.result == 0, c.new.err == ie))),
            ('rejected index: NULL and an exception is set',
             z3.Implies(z3.And(il, z3.Not(accepted)), z3.And(c.result == 0, c.new.err != 0))),
        ]


@R.add
class _cdata_getslicearg(Contract):
    name = '_cdata_getslicearg'

    def slice_fields(self, c):
        s = c['slice']
        return (c.field(c.old, s, 'PySliceObject', 'start'), c.field(c.old, s, 'PySliceObject', 'stop'),
                c.field(c.old, s, 'PySliceObject', 'step'))

    def pre(self, c):
        a, b, st_ = self.slice_fields(c)
        none = c.ex.global_addr('_Py_NoneStruct')
        return [('cdata-wf', cdata_wf(c, c.old, c['cd'])), ('slice-valid', c.valid(c['slice'], 40)),
                ('bounds-valid', c.valid(c['bounds'], 16)), ('no-pending-exception', c.old.err == 0),
                ('None-is-not-an-int', z3.Not(is_long(c, c.old, none))),
                ('slice-members-valid', z3.And(c.valid(a, 16), c.valid(b, 16), c.valid(st_, 16)))]

    def scope(self, c):
        a, b, st_ = self.slice_fields(c)
        none = c.ex.global_addr('_Py_NoneStruct')
        return [('start/stop are ints or None',
                 z3.And(z3.Or(is_long(c, c.old, a), a == none), z3.Or(is_long(c, c.old, b), b == none)))]

    def frame(self, c):
        return Frame(raw=[(c['bounds'], 16)], err=True)

    def witness(self, c):
        a, b, st_ = self.slice_fields(c)
        ct, data = cdata_fields(c, c.old, c['cd'])
        return {'start_sat80': int_w(a), 'stop_sat80': int_w(b), 'length': arr_len(c, c.old, c['cd']),
                'flags': CT_FLAGS(c, c.old, ct)}

    def accepted(self, c):
        a, b, st_ = self.slice_fields(c)
        none = c.ex.global_addr('_Py_NoneStruct')
        st = c.old
        ct, data = cdata_fields(c, st, c['cd'])
        fl = CT_FLAGS(c, st, ct)
        isarr, isptr = flag(fl, CT_ARRAY), flag(fl, CT_POINTER)
        wa, wb = int_w(a), int_w(b)
        n = arr_len(c, st, c['cd'])
        ints = z3.And(is_long(c, st, a), is_long(c, st, b), fits_ssize(wa), fits_ssize(wb))
        base = z3.And(ints, st_ == none, wa <= wb)
        arr_ok = z3.And(wa >= wv(0), wb <= z3.SignExt(W - 64, n))
        return z3.And(base, z3.Or(z3.And(isarr, arr_ok), isptr)), isarr, wa, wb

    def post(self, c):
        acc, isarr, wa, wb = self.accepted(c)
        st = c.old
        ct, data = cdata_fields(c, st, c['cd'])
        b0, b1 = c.raw(c.new, c['bounds'], 8), c.raw(c.new, c['bounds'] + 8, 8)
        stuff = c.field(st, ct, 'CTypeDescrObject', 'ct_stuff')
        return [
            ('accepted iff ints with no step and 0 <= start <= stop <= n (arrays) / start <= stop (pointers)',
             (c.result != 0) == acc),
            ('accepted: bounds = (start, stop-start), pointer type returned, no error',
             z3.Implies(acc, z3.And(b0 == z3.Extract(63, 0, wa), b1 == z3.Extract(63, 0, wb - wa), c.new.err == 0,
                                    c.result == z3.If(isarr, stuff, ct)))),
            ('rejected: an exception is set (IndexError unless start/stop is not an int)',
             z3.Implies(z3.Not(acc), c.new.err != 0)),
        ]


@R.add
class new_sized_cdata(Contract):
    name = 'new_sized_cdata'

    def pre(self, c):
        return [('ct-valid', c.valid(c['ct'], 104))]

    def allocates(self, c):
        return [(c.result, BV(DATAOFFSET, 64))]

    def post(self, c):
        r = c.result
        ctype, cdata = cdata_fields(c, c.new, r)
        return [('fresh-cdata-object', z3.And(r != 0, py_type(c, c.new, r) == c.ex.global_addr('CData_Type'))),
                ('c_type-is-ct', ctype == c['ct']), ('c_data-is-the-address-given', cdata == c['data']),
                ('length-stored', c.field(c.new, r, 'CDataObject_own_length', 'length') == c['length']),
                ('error-indicator-untouched', c.new.err == c.old.err)]


@R.add
class _cdata_add_or_sub(Contract):
    name = '_cdata_add_or_sub'

    def pre(self, c):
        return [('v-is-wf-cdata', z3.And(is_cdata(c, c.old, c['v']), cdata_wf(c, c.old, c['v']))),
                ('w-valid', c.valid(c['w'], 16)), ('no-pending-exception', c.old.err == 0),
                ('sign-is-plus-or-minus-one', z3.Or(c['sign'] == 1, c['sign'] == -1)),
                ('pointer type of an array type is valid',
                 c.valid(c.field(c.old, cdata_fields(c, c.old, c['v'])[0], 'CTypeDescrObject', 'ct_stuff'), 104))]

    def in_scope(self, c):
        st = c.old
        ct, data = cdata_fields(c, st, c['v'])
        fl = CT_FLAGS(c, st, ct)
        return z3.And(is_long(c, st, c['w']), z3.Or(flag(fl, CT_POINTER), flag(fl, CT_ARRAY)),
                      fits_ssize(int_w(c['w'])))

    def scope(self, c):
        return [('pointer-or-array cdata plus a Python int that fits Py_ssize_t', self.in_scope(c))]

    def frame(self, c):
        return Frame(err=True, havoc_if=z3.Not(self.in_scope(c)))

    def allocates(self, c):
        return [(c.result, BV(40, 64))]

    def witness(self, c):
        return {'i_sat80': int_w(c['w']), 'sign': c['sign'], 'itemsize': item_size(c, c.old, c['v'])}

    def post(self, c):
        st = c.old
        ct, data = cdata_fields(c, st, c['v'])
        fl = CT_FLAGS(c, st, ct)
        ctptr = z3.If(flag(fl, CT_POINTER), ct, c.field(st, ct, 'CTypeDescrObject', 'ct_stuff'))
        item = c.field(st, ctptr, 'CTypeDescrObject', 'ct_itemdescr')
        z0 = c.field(st, item, 'CTypeDescrObject', 'ct_size')
        pfl = CT_FLAGS(c, st, ctptr)
        z = z3.If(z0 < 0, BV(1, 64), z0)
        known = z3.Or(z0 >= 0, flag(pfl, CT_IS_VOID_PTR))
        i = z3.Extract(63, 0, int_w(c['w'])) * z3.SignExt(32, c['sign'])
        r = c.result
        rct, rdata = cdata_fields(c, c.new, r)
        sc = self.in_scope(c)
        return [('p +/- i: a pointer cdata i*sizeof(item) bytes from p',
                 z3.Implies(z3.And(sc, known), z3.And(r != 0, rct == ctptr, rdata == data + i * z, c.new.err == 0))),
                ('unknown item size: TypeError', z3.Implies(z3.And(sc, z3.Not(known)),
                                                            z3.And(r == 0, c.new.err == exc(c.ex, 'TypeError'))))]
