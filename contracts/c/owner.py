"""Contracts for ownership, destructors and handles (C21): allocate_gcp_object, cdatagcp_finalize, cdatagcp_dealloc
(with gcp_finalize expanded in both), b_gcp, explicit_release_case, cdata_exit, cdatafrombuf_dealloc/clear,
newp_handle, b_from_handle.

Per ffi.gc() wrapper `cd` the state is `armed(cd) := cd->destructor != NULL`.  Each operation is specified by what it
does to `armed` and by the engine's trace of destructor calls (count, latest arguments):
   created (allocate_gcp_object)   armed with the destructor given
   release / with-exit / finalize  calls the destructor exactly once iff armed, with the original object; disarms --
                                   and disarms BEFORE the call, so a destructor that releases again finds nothing
   ffi.gc(p, None)                 disarms without a call
   dealloc                         calls the destructor exactly once iff still armed
so over any history of these operations ending with dealloc the destructor runs exactly once per wrapper unless it
was removed (the sum  calls so far + [armed]  is 1 from creation on, 0 after removal).  An exception raised by the
destructor never replaces the exception that was pending.
"""
import z3

from . import allc                     # noqa: F401
from .base import R as R0, BV, B64, B8, Contract, Frame, Ctx, LoopSpec, b2i, exc, py_type
from vf.cexec import Exec
from vf.cfront import line_of

R = R0.fork()
GCP = 'CDataObject_gcp'
DT = 'tmp:calls:destructor'


TRACE_D = [DT, 'tmp:arg:destructor:0', 'tmp:arg:destructor:1', 'tmp:arg:destructor:heap']
TRACE_B = ['tmp:calls:buffer_release', 'tmp:arg:buffer_release:obj', 'tmp:calls:buffer_acquire']
Exec.GHOST_SORTS['tmp:arg:destructor:heap'] = z3.ArraySort(B64, B64)
#   (a contract whose post-condition speaks about the trace of a callee's calls lists those trace variables in its
#    frame: at a call site they are then arbitrary before the post-condition is assumed)


def dcalls(st):
    return st.gvar(DT, B64)


def darg(st, k):
    return st.gvar('tmp:arg:destructor:%d' % k, B64)


def armed(c, st, cd):
    return c.field(st, cd, GCP, 'destructor') != 0


@R.model('PyObject_CallFunctionObjArgs', "calls the callable with the given objects: arbitrary Python code runs (every "
                                         "shared state may change); NULL comes with an exception set.  The call is "
                                         "recorded in the engine's trace (count, callable, first argument, and the "
                                         "destructor fields of all ffi.gc wrappers as they are at the call)")
def _callobj(ex, st, args, n):
    st.ghost[DT] = dcalls(st) + 1
    st.ghost['tmp:arg:destructor:0'] = args[0]
    st.ghost['tmp:arg:destructor:1'] = args[1]
    c = Ctx(ex, {}, st)
    probe = c.field(st, BV(0, 64), GCP, 'destructor')          # Select(heap, 0): arg(0) is the heap at the call
    st.ghost['tmp:arg:destructor:heap'] = probe.arg(0)
    ex.callee_havoc(st, 'destructor', args)
    res = ex.fresh('ret_destructor', B64)
    e = ex.fresh('err_destructor', B64)
    st.err = e
    st.assume(z3.Implies(res == 0, e != 0))
    st.assume(z3.Implies(res != 0, e == 0))
    return res


@R.model('PyErr_Fetch', "moves the pending exception (class, or NULL) into *ptype and clears the indicator")
def _fetch(ex, st, args, n):
    ex.store_raw(st, args[0], st.err, 8)
    ex.store_raw(st, args[1], ex.fresh('exc_value', B64), 8)
    ex.store_raw(st, args[2], ex.fresh('exc_tb', B64), 8)
    st.err = BV(0, 64)
    return None


@R.model('PyErr_Restore', "sets the error indicator from (type, value, traceback); type NULL clears it")
def _restore(ex, st, args, n):
    st.err = args[0]
    return None


@R.model('PyUnicode_FromFormat', "a new str, or NULL with an exception (the arguments' __repr__ may run: arbitrary code)")
def _fromformat(ex, st, args, n):
    ex.callee_havoc(st, 'fromformat', args)
    r = ex.fresh('formatted', B64)
    e = ex.fresh('err_format', B64)
    st.assume(z3.Implies(r == 0, e != 0))
    st.err = z3.If(r == 0, e, st.err)
    return r


for _nm in ('_PyErr_WriteUnraisableMsg', 'PyErr_WriteUnraisable', 'PyErr_FormatUnraisable'):
    def _unraisable(ex, st, args, n, _nm=_nm):
        # prints the pending exception through sys.unraisablehook: arbitrary Python code; whatever is pending afterwards
        ex.callee_havoc(st, 'unraisable', args)
        st.err = ex.fresh('err_after_unraisable', B64)
        return None
    R.models[_nm] = _unraisable
    R.assumed[_nm] = "prints the pending exception (sys.unraisablehook: arbitrary code runs); any error state afterwards"
R.models['PyUnicode_AsUTF8'] = lambda ex, st, args, n: ex.fresh('utf8', B64)
R.assumed['PyUnicode_AsUTF8'] = "some C string (contents not modelled)"


@R.add
class _my_PyErr_WriteUnraisable(Contract):
    """prints the exception it is handed ("From callback for ffi.gc ..."): whatever happens while printing, no exception
    is left pending"""
    name = '_my_PyErr_WriteUnraisable'

    def pre(self, c):
        return [('objdescr-valid', c.valid(c['objdescr'], 2))]

    def frame(self, c):
        return Frame(all_raw=True, all_fields=True, err=True, trace=[])

    def post(self, c):
        return [('no exception is left pending', c.new.err == 0)]


R.inline = set(R.inline) | {'gcp_finalize', 'Py_REFCNT', '_Py_REFCNT'}


@R.add
class cdata_dealloc(Contract):
    """releases the cdata object itself -- assumed: no effect on other objects"""
    name = 'cdata_dealloc'
    trusted = True

    def frame(self, c):
        return Frame(trace=[])


@R.add
class allocate_gcp_object(Contract):
    name = 'allocate_gcp_object'

    def pre(self, c):
        return [('origobj-valid', c.valid(c['origobj'], 40)), ('ct-valid', c.valid(c['ct'], 104))]

    def frame(self, c):
        return Frame(trace=[])

    def allocates(self, c):
        return [(c.result, BV(64, 64))]

    def post(self, c):
        r = c.result
        F = lambda f, rec=GCP: c.field(c.new, r, rec, f)
        return [('a new ffi.gc wrapper: armed with the destructor given, holding the original object, viewing its data',
                 z3.And(r != 0, py_type(c, c.new, r) == c.ex.global_addr('CDataGCP_Type'), F('destructor') == c['destructor'],
                        F('origobj') == c['origobj'], F('c_type', 'CDataObject') == c['ct'],
                        F('c_data', 'CDataObject') == c.field(c.old, c['origobj'], 'CDataObject', 'c_data')))]


def finalize_post(c, cd, what):
    """shared by cdatagcp_finalize / cdatagcp_dealloc: the destructor call"""
    st0, st1 = c.old, c.new
    d0 = c.field(st0, cd, GCP, 'destructor')
    o0 = c.field(st0, cd, GCP, 'origobj')
    was = d0 != 0
    heap_at_call = st1.gvar('tmp:arg:destructor:heap', z3.ArraySort(B64, B64))
    out = [('armed: the destructor is called exactly once, with the original object',
            z3.Implies(was, z3.And(dcalls(st1) == dcalls(st0) + 1, darg(st1, 0) == d0, darg(st1, 1) == o0))),
           ('not armed (already released, or removed with ffi.gc(p, None)): no call', z3.Implies(z3.Not(was), dcalls(st1) == dcalls(st0))),
           ('an exception raised by the destructor does not escape: the error indicator is as before', st1.err == st0.err)]
    if what == 'finalize':
        out.append(('the wrapper is disarmed before the destructor runs (a re-entrant release finds nothing to call)',
                    z3.Implies(was, z3.Select(heap_at_call, cd) == 0)))
    return out


@R.add
class cdatagcp_finalize(Contract):
    name = 'cdatagcp_finalize'

    def pre(self, c):
        return [('cd-valid', c.valid(c['cd'], 64))]

    def frame(self, c):
        return Frame(all_raw=True, all_fields=True, err=True, trace=TRACE_D)

    def post(self, c):
        return finalize_post(c, c['cd'], 'finalize')


@R.add
class cdatagcp_dealloc(Contract):
    name = 'cdatagcp_dealloc'

    def pre(self, c):
        return [('cd-valid', c.valid(c['cd'], 64))]

    def frame(self, c):
        return Frame(all_raw=True, all_fields=True, err=True)

    def post(self, c):
        return finalize_post(c, c['cd'], 'dealloc')


@R.add
class explicit_release_case(Contract):
    name = 'explicit_release_case'

    def pre(self, c):
        cd = c['cd']
        return [('cd-valid', c.valid(cd, 40)), ('type-valid', c.valid(c.field(c.old, cd, 'CDataObject', 'c_type'), 104)),
                ('no-pending-exception', c.old.err == 0)]

    def frame(self, c):
        return Frame(err=True, trace=[])

    def post(self, c):
        st = c.old
        cd = c['cd']
        t = py_type(c, st, cd)
        T = lambda nm: t == c.ex.global_addr(nm)
        fl = c.field(st, c.field(st, cd, 'CDataObject', 'c_type'), 'CTypeDescrObject', 'ct_flags')
        ptrarr = (fl & 0x30) != 0
        r = c.result
        return [('ffi.new() pointer or array: 0', z3.Implies(z3.And(T('CDataOwning_Type'), ptrarr), z3.And(r == 0, c.new.err == 0))),
                ('ffi.from_buffer(): 1', z3.Implies(T('CDataFromBuf_Type'), z3.And(r == 1, c.new.err == 0))),
                ('ffi.gc(): 2', z3.Implies(T('CDataGCP_Type'), z3.And(r == 2, c.new.err == 0))),
                ('anything else: -1 and ValueError',
                 z3.Implies(z3.Not(z3.Or(z3.And(T('CDataOwning_Type'), ptrarr), T('CDataFromBuf_Type'), T('CDataGCP_Type'))),
                            z3.And(r == BV(-1, 32), c.new.err == exc(c.ex, 'ValueError'))))]


@R.model('PyBuffer_Release', "releases the view: the exporter's export lock is dropped if view->obj is not NULL, and "
                             "view->obj becomes NULL (so a second release does nothing); counted in the trace")
def _release(ex, st, args, n):
    view = args[0]
    obj = ex.read_field(st, view, 'Py_buffer', 'obj')
    st.ghost['tmp:calls:buffer_release'] = st.gvar('tmp:calls:buffer_release', B64) + z3.If(obj != 0, BV(1, 64), BV(0, 64))
    st.ghost['tmp:arg:buffer_release:obj'] = z3.If(obj != 0, obj, st.gvar('tmp:arg:buffer_release:obj', B64))
    ex.write_field(st, view, 'Py_buffer', 'obj', BV(0, 64))
    return None


def releases(st):
    return st.gvar('tmp:calls:buffer_release', B64)


@R.add
class cdata_exit(Contract):
    """ffi.release(x) / leaving `with x:`"""
    name = 'cdata_exit'

    def parts(self, c):
        st = c.old
        cd = c['cd']
        t = py_type(c, st, cd)
        T = lambda nm: t == c.ex.global_addr(nm)
        ct = c.field(st, cd, 'CDataObject', 'c_type')
        fl = c.field(st, ct, 'CTypeDescrObject', 'ct_flags')
        return cd, T, ct, fl

    def pre(self, c):
        st = c.old
        cd, T, ct, fl = self.parts(c)
        so = c.field(st, cd, 'CDataObject_own_structptr', 'structobj')
        view = c.field(st, cd, 'CDataObject_frombuf', 'bufferview')
        return [('cd-valid', c.valid(cd, 64)), ('type-valid', c.valid(ct, 104)),
                ('a pointer-to-owned cdata holds a valid struct object',
                 z3.Implies(z3.And(T('CDataOwning_Type'), (fl & 0x10000) != 0), c.valid(so, 64))),
                ('a from_buffer cdata holds a valid view', z3.Implies(T('CDataFromBuf_Type'), c.valid(view, 80))),
                ('None is an object', c.valid(c.ex.global_addr('_Py_NoneStruct'), 16)),
                ('no-pending-exception', st.err == 0)]

    def frame(self, c):
        return Frame(all_raw=True, all_fields=True, err=True)

    def post(self, c):
        st0, st1 = c.old, c.new
        cd, T, ct, fl = self.parts(c)
        view = c.field(st0, cd, 'CDataObject_frombuf', 'bufferview')
        vobj = c.field(st0, view, 'Py_buffer', 'obj')
        so = c.field(st0, cd, 'CDataObject_own_structptr', 'structobj')
        isgc = T('CDataGCP_Type')
        out = [('ffi.gc() object: ' + lab, z3.Implies(isgc, f)) for lab, f in finalize_post(c, cd, 'finalize')]
        return out + [
            ('ffi.from_buffer() object: the view is released exactly once if it still holds its source, never twice',
             z3.Implies(T('CDataFromBuf_Type'), z3.And(releases(st1) == releases(st0) + z3.If(vobj != 0, BV(1, 64), BV(0, 64)),
                                                       dcalls(st1) == dcalls(st0)))),
            ('ffi.new() pointer/array to a plain type: nothing happens',
             z3.Implies(z3.And(T('CDataOwning_Type'), (fl & 0x30) != 0, (fl & 0x10000) == 0),
                        z3.And(dcalls(st1) == dcalls(st0), releases(st1) == releases(st0)))),
            ('ffi.new_allocator()("struct *") object (the struct object inside is the ffi.gc wrapper): ' + 'released the same way',
             z3.Implies(z3.And(T('CDataOwning_Type'), (fl & 0x30) != 0, (fl & 0x10000) != 0, py_type(c, st0, so) == c.ex.global_addr('CDataGCP_Type')),
                        z3.And(*[f for _l, f in finalize_post(c, so, 'finalize')]))),
            ('anything else: ValueError, nothing is called',
             z3.Implies(z3.Not(z3.Or(isgc, T('CDataFromBuf_Type'), z3.And(T('CDataOwning_Type'), (fl & 0x30) != 0))),
                        z3.And(c.result == 0, st1.err == exc(c.ex, 'ValueError'), dcalls(st1) == dcalls(st0), releases(st1) == releases(st0)))),
            ('accepted kinds return None',
             z3.Implies(z3.Or(isgc, T('CDataFromBuf_Type'), z3.And(T('CDataOwning_Type'), (fl & 0x30) != 0)),
                        c.result == c.ex.global_addr('_Py_NoneStruct')))]


@R.add
class cdatafrombuf_dealloc(Contract):
    name = 'cdatafrombuf_dealloc'

    def pre(self, c):
        view = c.field(c.old, c['cd'], 'CDataObject_frombuf', 'bufferview')
        return [('cd-valid', c.valid(c['cd'], 64)), ('view-valid', c.valid(view, 80))]

    def frame(self, c):
        return Frame(fields=[('Py_buffer', 'obj')])

    def post(self, c):
        view = c.field(c.old, c['cd'], 'CDataObject_frombuf', 'bufferview')
        vobj = c.field(c.old, view, 'Py_buffer', 'obj')
        return [('the source is released exactly once if it was not released before (ffi.release), not at all otherwise',
                 releases(c.new) == releases(c.old) + z3.If(vobj != 0, BV(1, 64), BV(0, 64)))]


@R.add
class newp_handle(Contract):
    name = 'newp_handle'

    def pre(self, c):
        return [('ct-valid', c.valid(c['ct_voidp'], 104)), ('x-valid', c.valid(c['x'], 16))]

    def frame(self, c):
        return Frame()

    def allocates(self, c):
        return [(c.result, BV(64, 64))]

    def post(self, c):
        r = c.result
        return [('a new handle: its address is the handle object itself, and it holds x',
                 z3.And(r != 0, py_type(c, c.new, r) == c.ex.global_addr('CDataOwningGC_Type'),
                        c.field(c.new, r, 'CDataObject', 'c_data') == r,
                        c.field(c.new, r, 'CDataObject_own_structptr', 'structobj') == c['x'],
                        c.field(c.new, r, 'CDataObject', 'c_type') == c['ct_voidp']))]


@R.add
class b_from_handle(Contract):
    name = 'b_from_handle'

    def parts(self, c):
        st = c.old
        arg = c['arg']
        ct = c.field(st, arg, 'CDataObject', 'c_type')
        h = c.field(st, arg, 'CDataObject', 'c_data')
        return arg, ct, h

    def pre(self, c):
        st = c.old
        arg, ct, h = self.parts(c)
        from .cast import is_cdata
        return [('arg-valid', c.valid(arg, 40)), ('a cdata has a valid type', z3.Implies(is_cdata(c, st, arg), c.valid(ct, 104))),
                ('no-pending-exception', st.err == 0)]

    def scope(self, c):
        st = c.old
        arg, ct, h = self.parts(c)
        from .cast import is_cdata
        live_handle = z3.And(c.valid(h, 64), py_type(c, st, h) == c.ex.global_addr('CDataOwningGC_Type'),
                             c.field(st, h, 'PyObject', 'ob_refcnt') > 0)
        return [("a 'void *' / 'char *' cdata whose address is NULL or that of a LIVE handle object (anything else is "
                 "the caller's error: Py_FatalError or undefined)",
                 z3.And(is_cdata(c, st, arg), z3.Implies(z3.And((c.field(st, ct, 'CTypeDescrObject', 'ct_flags') & 0x1000) != 0, h != 0),
                                                         live_handle)))]

    def frame(self, c):
        return Frame(err=True)

    def post(self, c):
        st = c.old
        arg, ct, h = self.parts(c)
        voidchar = (c.field(st, ct, 'CTypeDescrObject', 'ct_flags') & 0x1000) != 0
        return [('the address of a live handle: the very object given to the new_handle() call that made it',
                 z3.Implies(z3.And(voidchar, h != 0), z3.And(c.result == c.field(st, h, 'CDataObject_own_structptr', 'structobj'),
                                                             c.new.err == 0))),
                ('NULL pointer: RuntimeError', z3.Implies(z3.And(voidchar, h == 0), z3.And(c.result == 0, c.new.err == exc(c.ex, 'RuntimeError')))),
                ('another pointer type: TypeError', z3.Implies(z3.Not(voidchar), z3.And(c.result == 0, c.new.err == exc(c.ex, 'TypeError'))))]


@R.add
class cdatafrombuf_clear(Contract):
    name = 'cdatafrombuf_clear'

    def pre(self, c):
        view = c.field(c.old, c['cd'], 'CDataObject_frombuf', 'bufferview')
        return [('cd-valid', c.valid(c['cd'], 64)), ('view-valid', c.valid(view, 80))]

    def frame(self, c):
        return Frame(fields=[('Py_buffer', 'obj')])

    def post(self, c):
        view = c.field(c.old, c['cd'], 'CDataObject_frombuf', 'bufferview')
        vobj = c.field(c.old, view, 'Py_buffer', 'obj')
        return [('(cycle collection) the source is released exactly once if it was not released before',
                 releases(c.new) == releases(c.old) + z3.If(vobj != 0, BV(1, 64), BV(0, 64))),
                ('and the view no longer holds it, so the deallocation that follows does not release it again',
                 c.field(c.new, view, 'Py_buffer', 'obj') == 0)]


@R.add
class cdata_enter(Contract):
    name = 'cdata_enter'

    def pre(self, c):
        return explicit_release_case.pre(self, c)

    def frame(self, c):
        return Frame(err=True)

    def post(self, c):
        st = c.old
        cd = c['cd']
        t = py_type(c, st, cd)
        T = lambda nm: t == c.ex.global_addr(nm)
        fl = c.field(st, c.field(st, cd, 'CDataObject', 'c_type'), 'CTypeDescrObject', 'ct_flags')
        accepted = z3.Or(z3.And(T('CDataOwning_Type'), (fl & 0x30) != 0), T('CDataFromBuf_Type'), T('CDataGCP_Type'))
        return [('`with x:` gives x itself, for the kinds ffi.release() accepts', z3.Implies(accepted, z3.And(c.result == cd, c.new.err == 0))),
                ('and refuses exactly what ffi.release() refuses', z3.Implies(z3.Not(accepted), z3.And(c.result == 0, c.new.err == exc(c.ex, 'ValueError'))))]


from .dl import _parse_tuple                                    # noqa: E402


def _parse_gc(ex, st, args, n):
    """PyArg_ParseTupleAndKeywords(args, kwds, "O!O|n:gc", ..., &CData_Type, &origobj, &destructor, &ignored): the
    generic assumed contract; the two parsed objects are kept in the trace"""
    ok = _parse_tuple(ex, st, [args[0], args[1]] + list(args[4:]), n, fmt_index=3)
    st.ghost['tmp:arg:parsed:origobj'] = o = ex.load_raw(st, args[5], 8)
    st.ghost['tmp:arg:parsed:destructor'] = ex.load_raw(st, args[6], 8)
    st.ghost['tmp:arg:parsed:ok'] = z3.ZeroExt(32, ok)
    c = Ctx(ex, {}, st)
    prev, ex.collecting_regions = ex.collecting_regions, True
    try:
        fact = c.valid(c.field(st, o, 'CDataObject', 'c_type'), 104)
    finally:
        ex.collecting_regions = prev
    st.assume(z3.Implies(ok == 1, fact))          # (a cdata has a valid type)
    return ok


R.models['PyArg_ParseTupleAndKeywords'] = _parse_gc
R.models['_PyArg_ParseTupleAndKeywords_SizeT'] = _parse_gc
R.contracts['allocate_gcp_object'].record_calls = True


@R.add
class b_gcp(Contract):
    """ffi.gc(cdata, destructor)"""
    name = 'b_gcp'

    def pre(self, c):
        return [('None is an object', c.valid(c.ex.global_addr('_Py_NoneStruct'), 16)), ('no-pending-exception', c.old.err == 0)]

    def frame(self, c):
        return Frame(err=True, fields=[(GCP, 'destructor')])

    def allocates(self, c):
        return [(c.result, BV(64, 64))]

    def post(self, c):
        st0, st1 = c.old, c.new
        o = st1.gvar('tmp:arg:parsed:origobj', B64)
        d = st1.gvar('tmp:arg:parsed:destructor', B64)
        ok = st1.gvar('tmp:arg:parsed:ok', B64) == 1
        none = c.ex.global_addr('_Py_NoneStruct')
        sub = R.ghost('is_subtype', B64, B64, z3.BoolSort())
        t = py_type(c, st0, o)
        gcp_t = c.ex.global_addr('CDataGCP_Type')
        isgcp = z3.Or(t == gcp_t, sub(t, gcp_t))
        x = z3.BitVec('any_wrapper', 64)
        made = st1.gvar('tmp:calls:allocate_gcp_object', B64) == st0.gvar('tmp:calls:allocate_gcp_object', B64) + 1
        A = lambda k: st1.gvar('tmp:arg:allocate_gcp_object:' + k, B64)
        return [('ffi.gc(p, None) on an ffi.gc() object: its destructor is REMOVED -- without being called -- and no other wrapper changes',
                 z3.Implies(z3.And(ok, d == none, isgcp),
                            z3.And(c.field(st1, o, GCP, 'destructor') == 0, dcalls(st1) == dcalls(st0), c.result == none, st1.err == 0,
                                   z3.Implies(x != o, c.field(st1, x, GCP, 'destructor') == c.field(st0, x, GCP, 'destructor'))))),
                ('ffi.gc(p, None) on anything else: TypeError, nothing changes',
                 z3.Implies(z3.And(ok, d == none, z3.Not(isgcp)),
                            z3.And(c.result == 0, st1.err == exc(c.ex, 'TypeError'), dcalls(st1) == dcalls(st0),
                                   c.field(st1, x, GCP, 'destructor') == c.field(st0, x, GCP, 'destructor')))),
                ('ffi.gc(p, destructor): a NEW wrapper over p armed with that destructor; existing wrappers (of p too) keep theirs; nothing is called',
                 z3.Implies(z3.And(ok, d != none),
                            z3.And(made, A('origobj') == o, A('destructor') == d, A('ct') == c.field(st0, o, 'CDataObject', 'c_type'),
                                   dcalls(st1) == dcalls(st0),
                                   z3.Implies(x != c.result, c.field(st1, x, GCP, 'destructor') == c.field(st0, x, GCP, 'destructor'))))),
                ('arguments refused: NULL with the exception', z3.Implies(z3.Not(ok), z3.And(c.result == 0, st1.err != 0, dcalls(st1) == dcalls(st0))))]


@R.model('PyObject_CallFunction', "calls the callable with arguments built from the format: arbitrary Python code runs; "
                                  "NULL comes with an exception set, anything else is a valid object.  Count, callable "
                                  "and result are kept in the trace")
def _callfn(ex, st, args, n):
    st.ghost['tmp:calls:alloc'] = st.gvar('tmp:calls:alloc', B64) + 1
    st.ghost['tmp:arg:alloc:callable'] = args[0]
    st.ghost['tmp:arg:alloc:size'] = args[2]
    # (the allocator record is a local of the caller's caller, or the static default: allocator_writers() below checks
    #  over the whole TU that nothing else writes one)
    ex.callee_havoc(st, 'alloc', args, keep_records=(ex.tu.parse_type('cffi_allocator_t').name,))
    res = ex.fresh('ret_alloc', B64)
    e = ex.fresh('err_alloc', B64)
    st.err = e
    st.assume(z3.Implies(res == 0, e != 0))
    st.assume(z3.Implies(res != 0, e == 0))
    c = Ctx(ex, {}, st)
    st.assume(z3.Implies(res != 0, c.valid(res, 40)))
    st.ghost['tmp:arg:alloc:ret'] = res
    return res


R.models['_PyObject_CallFunction_SizeT'] = _callfn
R.assumed['_PyObject_CallFunction_SizeT'] = R.assumed['PyObject_CallFunction']


class allocate_with_custom_allocator(Contract):
    """ffi.new_allocator(alloc, free)(...): the other case of allocate_with_allocator (contracts/c/newp.py has the default one)"""
    name = 'allocate_with_allocator#custom'
    function = 'allocate_with_allocator'

    def pre(self, c):
        return [('sizes', z3.And(c['basesize'] >= 40, c['basesize'] <= 64, c['datasize'] >= 0)),
                ('ct-valid', c.valid(c['ct'], 104)), ('allocator-valid', c.valid(c['allocator'], 24)),
                ('no-pending-exception', c.old.err == 0)]

    def scope(self, c):
        st = c.old
        return [('a custom allocator', c.field(st, c['allocator'], 'cffi_allocator_t', 'ca_alloc') != 0),
                ('what alloc() returns, if a cdata, has a valid type and (if a non-NULL pointer) datasize accessible bytes',
                 z3.BoolVal(True))]

    def frame(self, c):
        return Frame(all_raw=True, all_fields=True, err=True)

    def post(self, c):
        st0, st1 = c.old, c.new
        al = c['allocator']
        res = st1.gvar('tmp:arg:alloc:ret', B64)
        made = st1.gvar('tmp:calls:allocate_gcp_object', B64) == st0.gvar('tmp:calls:allocate_gcp_object', B64) + 1
        A = lambda k: st1.gvar('tmp:arg:allocate_gcp_object:' + k, B64)
        return [('alloc(datasize) is called exactly once',
                 z3.And(st1.gvar('tmp:calls:alloc', B64) == st0.gvar('tmp:calls:alloc', B64) + 1,
                        st1.gvar('tmp:arg:alloc:callable', B64) == c.field(st0, al, 'cffi_allocator_t', 'ca_alloc'),
                        st1.gvar('tmp:arg:alloc:size', B64) == c['datasize'])),
                ('success: the result is an ffi.gc wrapper around the very object alloc() returned, armed with the free '
                 'function (which may be NULL: no free function given) -- so the exactly-once discipline of ffi.gc wrappers '
                 'is the exactly-once discipline of free()',
                 z3.Implies(c.result != 0, z3.And(made, A('origobj') == res, A('destructor') == c.field(st0, al, 'cffi_allocator_t', 'ca_free'),
                                                  A('ct') == c['ct'], res != 0))),
                ('failure: no wrapper is made (what alloc() returned is simply dropped) and an exception is set',
                 z3.Implies(c.result == 0, z3.And(st1.gvar('tmp:calls:allocate_gcp_object', B64) == st0.gvar('tmp:calls:allocate_gcp_object', B64),
                                                  st1.err != 0))),
                ('free() is not called here', dcalls(st1) == dcalls(st0))]


R.contracts['allocate_with_allocator#custom'] = allocate_with_custom_allocator()


def acquires(st):
    return st.gvar('tmp:calls:buffer_acquire', B64)


@R.model('PyObject_GetBuffer', "asks the exporter for a view: arbitrary code may run; 0 with *view filled in -- view->obj is "
                               "the exporter, which is thereby kept alive and export-locked until PyBuffer_Release(view) "
                               "-- or -1 with an exception and view->obj NULL.  Successful acquisitions are counted in the trace")
def _getbuffer(ex, st, args, n):
    x, view = args[0], args[1]
    ex.callee_havoc(st, 'getbuffer', args)
    ok = ex.fresh('getbuffer_ok', z3.BoolSort())
    e = ex.fresh('getbuffer_err', B64)
    st.assume(e != 0)
    st.assume(x != 0)
    st.ghost['tmp:calls:buffer_acquire'] = acquires(st) + z3.If(ok, BV(1, 64), BV(0, 64))
    ex.write_field(st, view, 'Py_buffer', 'obj', z3.If(ok, x, BV(0, 64)))
    ex.write_field(st, view, 'Py_buffer', 'buf', ex.fresh('view_buf', B64))
    ln = ex.fresh('view_len', B64)
    st.assume(ln >= 0)
    ex.write_field(st, view, 'Py_buffer', 'len', ln)
    st.err = z3.If(ok, st.err, e)
    return z3.If(ok, BV(0, 32), BV(-1, 32))


@R.model('PyBuffer_IsContiguous', "1 or 0; no effect")
def _iscontig(ex, st, args, n):
    r = ex.fresh('contiguous', z3.BitVecSort(32))
    st.assume(z3.Or(r == 0, r == 1))
    return r


@R.add
class _my_PyObject_GetContiguousBuffer(Contract):
    name = '_my_PyObject_GetContiguousBuffer'

    def pre(self, c):
        return [('view-valid', c.valid(c['view'], 80)), ('x-valid', c.valid(c['x'], 16)), ('no-pending-exception', c.old.err == 0)]

    def frame(self, c):
        return Frame(all_raw=True, all_fields=True, err=True, trace=TRACE_B)

    def post(self, c):
        st0, st1 = c.old, c.new
        held = acquires(st1) - releases(st1) == acquires(st0) - releases(st0) + 1
        return [('0: the view holds x (one more acquisition than releases)',
                 z3.Implies(c.result == 0, z3.And(held, c.field(st1, c['view'], 'Py_buffer', 'obj') == c['x'], st1.err == 0,
                                                  c.field(st1, c['view'], 'Py_buffer', 'len') >= 0))),
                ('-1: nothing is held (not acquired, or released again), and an exception is set',
                 z3.Implies(c.result != 0, z3.And(acquires(st1) - releases(st1) == acquires(st0) - releases(st0), st1.err != 0,
                                                  c.result == BV(-1, 32))))]


@R.add
class direct_from_buffer(Contract):
    name = 'direct_from_buffer'

    def pre(self, c):
        st = c.old
        ct = c['ct']
        item = c.field(st, ct, 'CTypeDescrObject', 'ct_itemdescr')
        fl = c.field(st, ct, 'CTypeDescrObject', 'ct_flags')
        return [('ct-valid', c.valid(ct, 104)), ('x-valid', c.valid(c['x'], 16)),
                ('an array type has a valid item type', z3.Implies((fl & 0x20) != 0, c.valid(item, 104))),
                ('no-pending-exception', st.err == 0)]

    def frame(self, c):
        return Frame(all_raw=True, all_fields=True, err=True)

    def post(self, c):
        st0, st1 = c.old, c.new
        r = c.result
        view = c.field(st1, r, 'CDataObject_frombuf', 'bufferview')
        bal0 = acquires(st0) - releases(st0)
        bal1 = acquires(st1) - releases(st1)
        return [('success: a from_buffer cdata whose view holds the source x -- acquired once, not released: x stays alive '
                 'and export-locked -- and whose data is the view\'s buffer',
                 z3.Implies(r != 0, z3.And(py_type(c, st1, r) == c.ex.global_addr('CDataFromBuf_Type'), view != 0,
                                           c.field(st1, view, 'Py_buffer', 'obj') == c['x'], bal1 == bal0 + 1,
                                           c.field(st1, r, 'CDataObject', 'c_data') == c.field(st1, view, 'Py_buffer', 'buf'),
                                           c.field(st1, r, 'CDataObject', 'c_type') == c['ct'], st1.err == 0))),
                ('failure: every view acquired on the way has been released again (x is not left locked), with an exception',
                 z3.Implies(r == 0, z3.And(bal1 == bal0, st1.err != 0)))]


def bufferview_users(tu):
    out = set()

    def walk(n, fn):
        if not isinstance(n, dict):
            return
        if n.get('kind') == 'MemberExpr' and n.get('name') == 'bufferview':
            out.add(fn)
        for ch in n.get('inner', []) or []:
            walk(ch, fn)

    for name, fd in tu.functions.items():
        if fd.get('inner'):
            walk(fd, name)
    return out


class owned_subscript(Contract):
    """p[0] for p = ffi.new("struct foo *"): the OWNING struct object itself, not a new view of its memory -- so the
    memory lives while p (which holds the only initial reference to that object: direct_newp#struct, C20) or p[0] does"""
    name = 'cdataowning_subscript#owned'
    function = 'cdataowning_subscript'

    def pre(self, c):
        from .index2 import item_pre
        from .index import cdata_wf
        return [('cdata-wf', cdata_wf(c, c.old, c['cd'])), ('key-valid', c.valid(c['key'], 40)),
                ('no-pending-exception', c.old.err == 0)] + item_pre(c)

    def scope(self, c):
        from .index2 import is_slice
        from .base import is_long
        st = c.old
        fl = c.field(st, c.field(st, c['cd'], 'CDataObject', 'c_type'), 'CTypeDescrObject', 'ct_flags')
        return [('integer key, pointer to an owned struct/union', z3.And(z3.Not(is_slice(c, st, c['key'])), is_long(c, st, c['key']),
                                                                       (fl & 0x10000) != 0, (fl & 0x10) != 0,
                                                                       py_type(c, st, c['cd']) == c.ex.global_addr('CDataOwning_Type')))]

    def frame(self, c):
        return Frame(err=True)

    def post(self, c):
        from .base import int_w, wv
        st = c.old
        so = c.field(st, c['cd'], 'CDataObject_own_structptr', 'structobj')
        zero = int_w(c['key']) == wv(0)
        return [('p[0] is the owning struct object', z3.Implies(zero, z3.And(c.result == so, c.new.err == 0))),
                ('p[i], i != 0: IndexError', z3.Implies(z3.Not(zero), z3.And(c.result == 0, c.new.err == exc(c.ex, 'IndexError'))))]


R.contracts['cdataowning_subscript#owned'] = owned_subscript()


def history_lemmas():
    """the history argument over the operation contracts above, per ffi.gc wrapper.  Abstract state (armed, calls,
    removed); each step relation is the post-condition of the operation's contract restricted to one wrapper:
       release / with-exit / tp_finalize  (cdata_exit, cdatagcp_finalize):  calls' = calls + [armed], armed' = false
       ffi.gc(p, None)  (b_gcp):                                            calls' = calls, armed' = false, removed' = true
       any other operation (frame of every other contract + the write scan): unchanged
       dealloc  (cdatagcp_dealloc), the last step:                          calls' = calls + [armed]
    Invariant  calls + [armed] == 1  or  (removed and calls + [armed] <= 1 and not armed);  at the end: calls == 1 unless
    removed, and never a call after removal."""
    from vf.smt import Ob
    armed, armed2, removed, removed2 = z3.Bools('armed armed_ removed removed_')
    calls, calls2, calls_at_removal = z3.Ints('calls calls_ calls_at_removal')
    b = lambda x: z3.If(x, 1, 0)
    inv = lambda a, k, r, k0: z3.And(k >= 0, z3.If(r, z3.And(z3.Not(a), k == k0), k + b(a) == 1))
    steps = {
        'release': z3.And(calls2 == calls + b(armed), z3.Not(armed2), removed2 == removed),
        'remove': z3.And(calls2 == calls, z3.Not(armed2), removed2),
        'other': z3.And(calls2 == calls, armed2 == armed, removed2 == removed),
    }
    out = [Ob('contracts/c/owner.py:lemma:history[created: the invariant holds]', [], inv(z3.BoolVal(True), z3.IntVal(0), z3.BoolVal(False), calls_at_removal),
              kind='lemma')]
    for nm, rel in steps.items():
        k0 = z3.If(z3.And(removed2, z3.Not(removed)), calls, calls_at_removal)
        out.append(Ob('contracts/c/owner.py:lemma:history[%s preserves the invariant]' % nm, [inv(armed, calls, removed, calls_at_removal), rel],
                      inv(armed2, calls2, removed2, k0), kind='lemma'))
    out.append(Ob('contracts/c/owner.py:lemma:history[dealloc: exactly one call in total, or none after the removal]',
                  [inv(armed, calls, removed, calls_at_removal), calls2 == calls + b(armed)],
                  z3.If(removed, calls2 == calls_at_removal, calls2 == 1), kind='lemma'))
    out.append(Ob('contracts/c/owner.py:lemma:history[release is idempotent: a second release changes nothing]',
                  [inv(armed, calls, removed, calls_at_removal), z3.Not(armed), steps['release']],
                  z3.And(calls2 == calls, armed2 == armed), kind='lemma'))
    return out


def destructor_writers(tu):
    """whole-TU frame obligation: the functions in which the destructor member of an ffi.gc wrapper is written or has its
    address taken (every MemberExpr 'destructor' that is not immediately read)"""
    out = set()

    def walk(n, fn, parent_reads):
        if not isinstance(n, dict):
            return
        k = n.get('kind')
        if k == 'MemberExpr' and n.get('name') == 'destructor' and not parent_reads:
            out.add(fn)
        reads = (k == 'ImplicitCastExpr' and n.get('castKind') == 'LValueToRValue') or (k == 'ParenExpr' and parent_reads)
        for ch in n.get('inner', []) or []:
            walk(ch, fn, reads)

    for name, fd in tu.functions.items():
        if fd.get('inner'):
            walk(fd, name, False)
    return out


def allocator_writers(tu):
    """functions that write a member of a cffi_allocator_t (ca_alloc / ca_free / ca_dont_clear not immediately read)"""
    out = set()

    def walk(n, fn, parent_reads):
        if not isinstance(n, dict):
            return
        k = n.get('kind')
        if k == 'MemberExpr' and n.get('name') in ('ca_alloc', 'ca_free', 'ca_dont_clear') and not parent_reads:
            out.add(fn)
        reads = (k == 'ImplicitCastExpr' and n.get('castKind') == 'LValueToRValue') or (k == 'ParenExpr' and parent_reads)
        for ch in n.get('inner', []) or []:
            walk(ch, fn, reads)

    for name, fd in tu.functions.items():
        if fd.get('inner'):
            walk(fd, name, False)
    return out


def flow_obligations(tu):
    from vf.smt import Ob
    aw = allocator_writers(tu)
    yield Ob("_cffi_backend.c:flow[an allocator record is written only in the frame that owns it (a local of _ffi_new_with_allocator; the default one is a static initialiser); found: %s]" % ', '.join(sorted(aw)),
             [], z3.BoolVal(aw == {'_ffi_new_with_allocator'}), kind='flow')
    bu = bufferview_users(tu)
    yield Ob("_cffi_backend.c:flow[the view of a from_buffer cdata is reached only from its creation, release, traverse, clear and "
             "dealloc, and from the buffer-size query; found: %s]" % ', '.join(sorted(bu)), [],
             z3.BoolVal(bu == {'direct_from_buffer', 'cdata_exit', 'cdatafrombuf_dealloc', 'cdatafrombuf_clear', 'cdatafrombuf_traverse',
                               '_frombuf_repr'}), kind='flow')
    got = destructor_writers(tu)
    want = {'allocate_gcp_object', 'cdatagcp_finalize', 'b_gcp'}
    yield Ob("_cffi_backend.c:flow[the destructor of an ffi.gc wrapper is written only by allocate_gcp_object, cdatagcp_finalize and b_gcp; found: %s]"
               % ', '.join(sorted(got)), [], z3.BoolVal(got == want), kind='flow')


C21_FUNCS = ['_my_PyErr_WriteUnraisable', 'allocate_gcp_object', 'cdatagcp_finalize', 'cdatagcp_dealloc', 'explicit_release_case', 'cdata_exit',
             'cdatafrombuf_dealloc', 'cdatafrombuf_clear', 'cdata_enter', 'b_gcp', 'allocate_with_allocator#custom',
             'cdataowning_subscript#owned', '_my_PyObject_GetContiguousBuffer', 'direct_from_buffer', 'newp_handle', 'b_from_handle']
