"""Contracts for the raw integer readers/writers and the bit-field accessors
(_cffi_backend.c).  Used by C02, C03, C04, C18.
"""
import z3

from .base import *          # noqa: F401,F403  (R, ghost vocabulary)
from .base import R, int_w, int_m, is_long, sx, zx, wv, W, exc, py_type
from specs import ints as S

CT_PRIMITIVE_SIGNED = 0x001
CT_PRIMITIVE_UNSIGNED = 0x002
CT_PRIMITIVE_CHAR = 0x004
CT_PRIMITIVE_FLOAT = 0x008
CT_POINTER = 0x010
CT_ARRAY = 0x020
CT_STRUCT = 0x040
CT_UNION = 0x080
CT_FUNCTIONPTR = 0x100
CT_VOID = 0x200
CT_PRIMITIVE_COMPLEX = 0x400
CT_IS_VOIDCHAR_PTR = 0x00001000
CT_PRIMITIVE_FITS_LONG = 0x00002000
CT_IS_OPAQUE = 0x00004000
CT_IS_ENUM = 0x00008000
CT_IS_PTR_TO_OWNED = 0x00010000
CT_IS_LONGDOUBLE = 0x00040000
CT_IS_BOOL = 0x00080000
CT_IS_FILE = 0x00100000
CT_IS_VOID_PTR = 0x00200000
CT_WITH_VAR_ARRAY = 0x00400000
CT_WITH_PACKED_CHANGE = 0x01000000
CT_IS_SIGNED_WCHAR = 0x04000000


def flag(flags, bit):
    return (flags & BV(bit, flags.size())) != BV(0, flags.size())


def size_ok(size):
    return z3.Or(size == 1, size == 2, size == 4, size == 8)


def byte_reader(st):
    return lambda a: z3.Select(st.raw, a)


def s64(size32):
    return z3.SignExt(32, size32)


@R.add
class read_raw_signed_data(Contract):
    name = 'read_raw_signed_data'
    pure = True

    def pre(self, c):
        return [('size-in-1-2-4-8', size_ok(c['size'])),
                ('target-valid', c.valid(c['target'], s64(c['size'])))]

    def post(self, c):
        unit = S.le_unit(byte_reader(c.old), c['target'], s64(c['size']))
        return [('result-is-sign-extended-le-load', c.result == S.signed_of_unit(unit, s64(c['size'])))]


@R.add
class read_raw_unsigned_data(Contract):
    name = 'read_raw_unsigned_data'
    pure = True

    def pre(self, c):
        return [('size-in-1-2-4-8', size_ok(c['size'])),
                ('target-valid', c.valid(c['target'], s64(c['size'])))]

    def post(self, c):
        return [('result-is-zero-extended-le-load',
                 c.result == S.le_unit(byte_reader(c.old), c['target'], s64(c['size'])))]


@R.add
class write_raw_integer_data(Contract):
    name = 'write_raw_integer_data'

    def pre(self, c):
        return [('size-in-1-2-4-8', size_ok(c['size'])),
                ('target-valid', c.valid(c['target'], s64(c['size'])))]

    def frame(self, c):
        return Frame(raw=[(c['target'], s64(c['size']))])

    def post(self, c):
        size = s64(c['size'])
        src = c['source']
        low = z3.If(size == 1, z3.ZeroExt(56, z3.Extract(7, 0, src)),
                    z3.If(size == 2, z3.ZeroExt(48, z3.Extract(15, 0, src)),
                          z3.If(size == 4, z3.ZeroExt(32, z3.Extract(31, 0, src)), src)))
        return [('stored-bytes-are-low-size-bytes-le',
                 S.le_unit(byte_reader(c.new), c['target'], size) == low)]


KIND_FLAGS = [CT_PRIMITIVE_SIGNED, CT_PRIMITIVE_UNSIGNED, CT_PRIMITIVE_CHAR, CT_PRIMITIVE_FLOAT, CT_POINTER,
              CT_ARRAY, CT_STRUCT, CT_UNION, CT_FUNCTIONPTR, CT_VOID, CT_PRIMITIVE_COMPLEX]

R.inline |= {'_convert_overflow', 'CDataObject_Or_PyFloat_Check', 'read_raw_float_data'}


def ctype_fields(c, st, ct):
    return (c.field(st, ct, 'CTypeDescrObject', 'ct_size'), c.field(st, ct, 'CTypeDescrObject', 'ct_flags'))


def ctype_wf(c, st, ct):
    """type invariant of a ctype descriptor (established by the constructors, see C06/C27)"""
    size, flags = ctype_fields(c, st, ct)
    kinds = [flag(flags, k) for k in KIND_FLAGS]
    one_hot = z3.And(z3.Or(*kinds), z3.And(*[z3.Not(z3.And(a, b)) for i, a in enumerate(kinds) for b in kinds[i + 1:]]))
    sgn, uns = flag(flags, CT_PRIMITIVE_SIGNED), flag(flags, CT_PRIMITIVE_UNSIGNED)
    isint = z3.Or(sgn, uns)
    return z3.And(
        c.valid(ct, 104), one_hot,
        z3.Implies(isint, size_ok(size)),
        z3.Implies(z3.And(isint, flag(flags, CT_PRIMITIVE_FITS_LONG)), z3.Or(sgn, size < 8)),
        z3.Implies(flag(flags, CT_IS_BOOL), z3.And(uns, size == 1, flag(flags, CT_PRIMITIVE_FITS_LONG))),
        z3.Implies(z3.And(flag(flags, CT_PRIMITIVE_FLOAT), z3.Not(flag(flags, CT_IS_LONGDOUBLE))),
                   z3.Or(size == 4, size == 8)),
        z3.Implies(flag(flags, CT_IS_LONGDOUBLE), z3.And(flag(flags, CT_PRIMITIVE_FLOAT), size == 16)))


def is_int_ctype(c, st, ct):
    size, flags = ctype_fields(c, st, ct)
    return z3.Or(flag(flags, CT_PRIMITIVE_SIGNED), flag(flags, CT_PRIMITIVE_UNSIGNED))


def int_in_range(v_wide, size, flags):
    sgn = flag(flags, CT_PRIMITIVE_SIGNED)
    return z3.If(flag(flags, CT_IS_BOOL), z3.Or(v_wide == S.W(0), v_wide == S.W(1)),
                 z3.And(v_wide >= S.int_lo(size, sgn), v_wide <= S.int_hi(size, sgn)))


def unit_of(v_wide, size):
    """two's-complement little-endian storage unit (zero-extended to 64 bits) of v in `size` bytes"""
    low = z3.Extract(63, 0, v_wide)
    return z3.If(size == 8, low, low & ((BV(1, 64) << (8 * size)) - 1))


def bitfield_pre(c, data, cf, need_data=True):
    ct = c.field(c.old, cf, 'CFieldObject', 'cf_type')
    size = c.field(c.old, ct, 'CTypeDescrObject', 'ct_size')
    flags = c.field(c.old, ct, 'CTypeDescrObject', 'ct_flags')
    bs = c.field(c.old, cf, 'CFieldObject', 'cf_bitsize')
    sh = c.field(c.old, cf, 'CFieldObject', 'cf_bitshift')
    sgn, uns = flag(flags, CT_PRIMITIVE_SIGNED), flag(flags, CT_PRIMITIVE_UNSIGNED)
    pre = [
        ('cf-valid', c.valid(cf, 48)), ('ctype-wf', ctype_wf(c, c.old, ct)),
        ('bitfield-wf', S.bitfield_wf(size, bs, sh)),
        ('integer-type', z3.Xor(sgn, uns)),
        # type invariant established by new_primitive_type (C06): FITS_LONG only if every value fits a C long
        ('fits-long-flag-sound', z3.Implies(flag(flags, CT_PRIMITIVE_FITS_LONG), z3.Or(sgn, size < 8))),
        ('data-valid', c.valid(data, size)),
    ]
    return pre, (ct, size, flags, bs, sh, sgn)


@R.add
class convert_to_object_bitfield(Contract):
    name = 'convert_to_object_bitfield'

    def pre(self, c):
        return bitfield_pre(c, c['data'], c['cf'])[0]

    def witness(self, c):
        _, (ct, size, flags, bs, sh, sgn) = bitfield_pre(c, c['data'], c['cf'])
        return {'size': size, 'bitsize': bs, 'bitshift': sh, 'flags': flags,
                'unit': S.le_unit(byte_reader(c.old), c['data'], size)}

    def frame(self, c):
        return Frame()

    def post(self, c):
        _, (ct, size, flags, bs, sh, sgn) = bitfield_pre(c, c['data'], c['cf'])
        unit = S.le_unit(byte_reader(c.old), c['data'], size)
        spec = S.bf_read(unit, bs, sh, sgn)
        r = c.result
        return [('returns-int-object', z3.And(r != 0, is_long(c, c.new, r))),
                ('value-is-the-field-C-reads', S.wide(int_w(r), True) == spec)]


def bitfield_store_post(c, data, cf, init):
    _, (ct, size, flags, bs, sh, sgn) = bitfield_pre(c, data, cf)
    v = S.wide(int_w(init), True)
    ok = S.bf_in_range(v, bs, sgn)
    unit0 = S.le_unit(byte_reader(c.old), data, size)
    unit1 = S.le_unit(byte_reader(c.new), data, size)
    want = S.bf_write(unit0, v, bs, sh)
    mask_sz = z3.If(size == 8, BV(-1, 64), (BV(1, 64) << (8 * size)) - 1)
    return [
        ('accepts-iff-in-range', (c.result == 0) == ok),
        ('returns-0-or-minus-1', z3.Or(c.result == 0, c.result == BV(-1, 32))),
        ('accepted-store-writes-exactly-the-field-bits', z3.Implies(ok, unit1 == (want & mask_sz))),
        ('accepted-store-leaves-error-indicator', z3.Implies(ok, c.new.err == c.old.err)),
        ('rejected-store-raises-OverflowError', z3.Implies(z3.Not(ok), c.new.err == exc(c.ex, 'OverflowError'))),
        ('rejected-store-changes-nothing', z3.Implies(z3.Not(ok), unit1 == unit0)),
    ]


def bitfield_witness(c, data, cf, init=None):
    _, (ct, size, flags, bs, sh, sgn) = bitfield_pre(c, data, cf)
    w = {'size': size, 'bitsize': bs, 'bitshift': sh, 'flags': flags,
         'unit': S.le_unit(byte_reader(c.old), data, size)}
    if init is not None:
        w['v_sat80'] = int_w(init)
    return w


@R.add
class convert_from_object_bitfield(Contract):
    name = 'convert_from_object_bitfield'

    def pre(self, c):
        pre, _ = bitfield_pre(c, c['data'], c['cf'])
        return pre + [('init-is-python-int', is_long(c, c.old, c['init'])), ('init-valid', c.valid(c['init'], 16)),
                      ('no-pending-exception', c.old.err == 0)]

    def witness(self, c):
        return bitfield_witness(c, c['data'], c['cf'], c['init'])

    def frame(self, c):
        _, (ct, size, flags, bs, sh, sgn) = bitfield_pre(c, c['data'], c['cf'])
        return Frame(raw=[(c['data'], size)], err=True)

    def post(self, c):
        return bitfield_store_post(c, c['data'], c['cf'], c['init'])


@R.add
class convert_field_from_object(Contract):
    """dispatch: a field with cf_bitshift >= 0 is stored through the bit-field writer at data + cf_offset"""
    name = 'convert_field_from_object'

    def _data(self, c):
        return c['data'] + c.field(c.old, c['cf'], 'CFieldObject', 'cf_offset')

    def pre(self, c):
        pre, _ = bitfield_pre(c, self._data(c), c['cf'])
        return pre + [('is-a-bit-field', c.field(c.old, c['cf'], 'CFieldObject', 'cf_bitshift') >= 0),
                      ('init-is-python-int', is_long(c, c.old, c['value'])), ('init-valid', c.valid(c['value'], 16)),
                      ('no-pending-exception', c.old.err == 0)]

    def witness(self, c):
        return bitfield_witness(c, self._data(c), c['cf'], c['value'])

    def frame(self, c):
        _, (ct, size, flags, bs, sh, sgn) = bitfield_pre(c, self._data(c), c['cf'])
        return Frame(raw=[(self._data(c), size)], err=True)

    def post(self, c):
        return bitfield_store_post(c, self._data(c), c['cf'], c['value'])


# ---------------------------------------------------------------------------
# plain integer conversion (C03 core; also what full-width bit-fields delegate to)

@R.add
class _my_PyLong_AsLongLong(Contract):
    name = '_my_PyLong_AsLongLong'

    def pre(self, c):
        return [('ob-valid', c.valid(c['ob'], 16))]

    def frame(self, c):
        return Frame(err=True, havoc_if=z3.Not(is_long(c, c.old, c['ob'])))

    def witness(self, c):
        return {'v_sat80': int_w(c['ob'])}

    def post(self, c):
        il = is_long(c, c.old, c['ob'])
        w = int_w(c['ob'])
        fits = z3.And(w >= wv(-(1 << 63)), w <= wv((1 << 63) - 1))
        return [('int-fits: value, error indicator untouched',
                 z3.Implies(z3.And(il, fits), z3.And(c.result == z3.Extract(63, 0, w), c.new.err == c.old.err))),
                ('int-too-big: -1 with OverflowError',
                 z3.Implies(z3.And(il, z3.Not(fits)),
                            z3.And(c.result == BV(-1, 64), c.new.err == exc(c.ex, 'OverflowError'))))]


@R.add
class _my_PyLong_AsUnsignedLongLong(Contract):
    name = '_my_PyLong_AsUnsignedLongLong'

    def pre(self, c):
        return [('ob-valid', c.valid(c['ob'], 16))]

    def frame(self, c):
        return Frame(err=True, havoc_if=z3.Not(is_long(c, c.old, c['ob'])))

    def witness(self, c):
        return {'v_sat80': int_w(c['ob']), 'strict': c['strict']}

    def post(self, c):
        il = is_long(c, c.old, c['ob'])
        w = int_w(c['ob'])
        strict = c['strict'] != 0
        fits = z3.And(w >= wv(0), w <= wv((1 << 64) - 1))
        return [('strict, 0 <= v < 2^64: value, error indicator untouched',
                 z3.Implies(z3.And(il, strict, fits),
                            z3.And(c.result == z3.Extract(63, 0, w), c.new.err == c.old.err))),
                ('strict, out of range: (unsigned)-1 with OverflowError',
                 z3.Implies(z3.And(il, strict, z3.Not(fits)),
                            z3.And(c.result == BV(-1, 64), c.new.err == exc(c.ex, 'OverflowError')))),
                ('not strict: v mod 2^64, no error',
                 z3.Implies(z3.And(il, z3.Not(strict)),
                            z3.And(c.result == int_m(c['ob']), c.new.err == c.old.err)))]


class _ConvFrom(Contract):
    """convert_from_object: proved for integer ctypes (incl. _Bool, enums) and Python-int sources."""
    name = 'convert_from_object'

    def pre(self, c):
        size, flags = ctype_fields(c, c.old, c['ct'])
        return [('ctype-wf', ctype_wf(c, c.old, c['ct'])),
                ('init-valid', c.valid(c['init'], 16)),
                ('no-pending-exception', c.old.err == 0),
                ('data-valid-for-integers', z3.Implies(is_int_ctype(c, c.old, c['ct']), c.valid(c['data'], size)))]

    def in_scope(self, c):
        return z3.And(is_int_ctype(c, c.old, c['ct']), is_long(c, c.old, c['init']))

    def scope(self, c):
        return [('integer-ctype-and-python-int', self.in_scope(c))]

    def frame(self, c):
        size, flags = ctype_fields(c, c.old, c['ct'])
        return Frame(raw=[(c['data'], size)], err=True, havoc_if=z3.Not(self.in_scope(c)))

    def witness(self, c):
        size, flags = ctype_fields(c, c.old, c['ct'])
        return {'size': size, 'flags': flags, 'v_sat80': int_w(c['init']),
                'unit': S.le_unit(byte_reader(c.old), c['data'], size)}

    def post(self, c):
        size, flags = ctype_fields(c, c.old, c['ct'])
        sc = self.in_scope(c)
        v = S.wide(int_w(c['init']), True)
        ok = int_in_range(v, size, flags)
        unit0 = S.le_unit(byte_reader(c.old), c['data'], size)
        unit1 = S.le_unit(byte_reader(c.new), c['data'], size)
        return [
            ('accepts-iff-in-range', z3.Implies(sc, (c.result == 0) == ok)),
            ('returns-0-or-minus-1', z3.Implies(sc, z3.Or(c.result == 0, c.result == BV(-1, 32)))),
            ('accepted-store-writes-twos-complement-le', z3.Implies(z3.And(sc, ok), unit1 == unit_of(v, size))),
            ('accepted-store-leaves-error-indicator', z3.Implies(z3.And(sc, ok), c.new.err == c.old.err)),
            ('rejected-store-raises-OverflowError',
             z3.Implies(z3.And(sc, z3.Not(ok)), c.new.err == exc(c.ex, 'OverflowError'))),
            ('rejected-store-changes-nothing', z3.Implies(z3.And(sc, z3.Not(ok)), unit1 == unit0)),
        ]


R.add(_ConvFrom)


float_val = z3.Function('float_val', B64, z3.Float64())     # ghost: the value of a Python float object


def stored_float(c, st, addr, size):
    """the double a float (size 4) or double (size 8) stored at addr converts to"""
    f32 = z3.fpFPToFP(z3.RNE(), z3.fpBVToFP(c.raw(st, addr, 4), z3.Float32()), z3.Float64())
    return z3.If(size == 4, f32, z3.fpBVToFP(c.raw(st, addr, 8), z3.Float64()))


@R.model('PyFloat_FromDouble', "new float object with that value (allocation succeeds: A-ALLOC)")
def _float_from(ex, st, args, n):
    o = ex.fresh('newfloat', B64)
    c = Ctx(ex, {}, st)
    st.assume(z3.And(o != 0, c.valid(o, 24), py_type(c, st, o) == ex.global_addr('PyFloat_Type'),
                     z3.Not(is_long(c, st, o)),          # (float is not a subclass of int)
                     float_val(o) == args[0]))
    return o


class _ConvTo(Contract):
    """convert_to_object: proved for integer ctypes (incl. _Bool)."""
    name = 'convert_to_object'

    def pre(self, c):
        size, flags = ctype_fields(c, c.old, c['ct'])
        return [('ctype-wf', ctype_wf(c, c.old, c['ct'])),
                ('data-valid-for-integers', z3.Implies(self.in_scope(c), c.valid(c['data'], size)))]

    def is_float(self, c):
        size, flags = ctype_fields(c, c.old, c['ct'])
        return z3.And(flag(flags, CT_PRIMITIVE_FLOAT), z3.Not(flag(flags, CT_IS_LONGDOUBLE)))

    def in_scope(self, c):
        return z3.Or(is_int_ctype(c, c.old, c['ct']), self.is_float(c))

    def scope(self, c):
        return [('integer, float or double ctype', self.in_scope(c))]

    def frame(self, c):
        return Frame(err=True, havoc_if=z3.Not(self.in_scope(c)))

    def witness(self, c):
        size, flags = ctype_fields(c, c.old, c['ct'])
        return {'size': size, 'flags': flags, 'unit': S.le_unit(byte_reader(c.old), c['data'], size)}

    def post(self, c):
        size, flags = ctype_fields(c, c.old, c['ct'])
        sc = is_int_ctype(c, c.old, c['ct'])
        unit = S.le_unit(byte_reader(c.old), c['data'], size)
        sgn = flag(flags, CT_PRIMITIVE_SIGNED)
        isb = flag(flags, CT_IS_BOOL)
        val = z3.If(sgn, S.wide(S.signed_of_unit(unit, size), True), S.wide(unit, False))
        r = c.result
        true_, false_ = c.ex.global_addr('_Py_TrueStruct'), c.ex.global_addr('_Py_FalseStruct')
        return [
            ('integer: returns an int object with the stored value',
             z3.Implies(z3.And(sc, z3.Not(isb)),
                        z3.And(r != 0, is_long(c, c.new, r), S.wide(int_w(r), True) == val,
                               py_type(c, c.new, r) == c.ex.global_addr('PyLong_Type'),
                               c.new.err == c.old.err))),
            ('_Bool 0/1: returns False/True',
             z3.Implies(z3.And(sc, isb, z3.ULE(unit, 1)),
                        z3.And(r == z3.If(unit == 1, true_, false_), c.new.err == c.old.err))),
            ('_Bool other byte: ValueError',
             z3.Implies(z3.And(sc, isb, z3.UGT(unit, 1)),
                        z3.And(r == 0, c.new.err == exc(c.ex, 'ValueError')))),
            ('float/double: returns a float object with the stored value (widened exactly)',
             z3.Implies(self.is_float(c),
                        z3.And(r != 0, float_val(r) == stored_float(c, c.old, c['data'], size),
                               py_type(c, c.new, r) == c.ex.global_addr('PyFloat_Type'), z3.Not(is_long(c, c.new, r)),
                               c.new.err == c.old.err))),
        ]


R.add(_ConvTo)


# ---------------------------------------------------------------------------
# API-mode converters exported to generated modules (C03)

def _mk_to_c(bits, signed):
    nm = '_cffi_to_c_%s%d' % ('i' if signed else 'u', bits)
    lo = -(1 << (bits - 1)) if signed else 0
    hi = (1 << (bits - 1)) - 1 if signed else (1 << bits) - 1

    class K(Contract):
        name = nm

        def pre(self, c):
            return [('obj-valid', c.valid(c['obj'], 16)), ('no-pending-exception', c.old.err == 0)]

        def frame(self, c):
            return Frame(err=True, havoc_if=z3.Not(is_long(c, c.old, c['obj'])))

        def witness(self, c):
            return {'v_sat80': int_w(c['obj'])}

        def post(self, c):
            il = is_long(c, c.old, c['obj'])
            w = int_w(c['obj'])
            ok = z3.And(w >= wv(lo), w <= wv(hi))
            rb = c.result.size()
            low = z3.Extract(min(rb, 64) - 1, 0, w)
            return [('in-range: returns the value, no error',
                     z3.Implies(z3.And(il, ok), z3.And(c.result == low, c.new.err == 0))),
                    ('out-of-range: OverflowError and the error value (T)-1',
                     z3.Implies(z3.And(il, z3.Not(ok)),
                                z3.And(c.new.err == exc(c.ex, 'OverflowError'), c.result == BV(-1, rb))))]
    K.__name__ = nm
    R.add(K)
    return nm


TO_C_FUNCS = [_mk_to_c(b, s) for s in (True, False) for b in (8, 16, 32, 64)]


@R.add
class _cffi_to_c__Bool(Contract):
    name = '_cffi_to_c__Bool'

    def pre(self, c):
        return [('obj-valid', c.valid(c['obj'], 16)), ('no-pending-exception', c.old.err == 0)]

    def frame(self, c):
        return Frame(err=True, havoc_if=z3.Not(is_long(c, c.old, c['obj'])))

    def witness(self, c):
        return {'v_sat80': int_w(c['obj'])}

    def post(self, c):
        il = is_long(c, c.old, c['obj'])
        w = int_w(c['obj'])
        ok = z3.Or(w == wv(0), w == wv(1))
        return [('0 or 1: returned, no error',
                 z3.Implies(z3.And(il, ok), z3.And(c.result == z3.Extract(7, 0, w), c.new.err == 0))),
                ('anything else: OverflowError', z3.Implies(z3.And(il, z3.Not(ok)),
                                                            c.new.err == exc(c.ex, 'OverflowError')))]


@R.add
class convert_from_object_fficallback(Contract):
    """callback result widening: integer results narrower than ffi_arg fill a whole 8-byte ffi_arg"""
    name = 'convert_from_object_fficallback'

    def _w(self, c):
        size, flags = ctype_fields(c, c.old, c['ctype'])
        widen = z3.And(c['encode_result_for_libffi'] != 0, size < 8)
        return size, flags, widen

    def pre(self, c):
        size, flags, widen = self._w(c)
        return [('ctype-wf', ctype_wf(c, c.old, c['ctype'])), ('pyobj-valid', c.valid(c['pyobj'], 16)),
                ('no-pending-exception', c.old.err == 0),
                ('result-buffer-valid', z3.Implies(is_int_ctype(c, c.old, c['ctype']),
                                                   c.valid(c['result'], z3.If(widen, BV(8, 64), size))))]

    def in_scope(self, c):
        return z3.And(is_int_ctype(c, c.old, c['ctype']), is_long(c, c.old, c['pyobj']))

    def scope(self, c):
        return [('integer-result-type-and-python-int', self.in_scope(c))]

    def frame(self, c):
        size, flags, widen = self._w(c)
        return Frame(raw=[(c['result'], z3.If(widen, BV(8, 64), size))], err=True, havoc_if=z3.Not(self.in_scope(c)))

    def witness(self, c):
        size, flags, widen = self._w(c)
        return {'size': size, 'flags': flags, 'v_sat80': int_w(c['pyobj']), 'encode': c['encode_result_for_libffi']}

    def post(self, c):
        size, flags, widen = self._w(c)
        sc = self.in_scope(c)
        v = S.wide(int_w(c['pyobj']), True)
        ok = int_in_range(v, size, flags)
        full = c.raw(c.new, c['result'], 8)
        unit1 = S.le_unit(byte_reader(c.new), c['result'], size)
        return [
            ('accepts-iff-in-range', z3.Implies(sc, (c.result == 0) == ok)),
            ('widened: the whole ffi_arg holds v (sign- or zero-extended)',
             z3.Implies(z3.And(sc, ok, widen), full == z3.Extract(63, 0, v))),
            ('not widened: size bytes hold v', z3.Implies(z3.And(sc, ok, z3.Not(widen)), unit1 == unit_of(v, size))),
            ('rejected: OverflowError', z3.Implies(z3.And(sc, z3.Not(ok)),
                                                   z3.And(c.result == BV(-1, 32),
                                                          c.new.err == exc(c.ex, 'OverflowError')))),
        ]
