"""Contracts for the raw integer readers/writers and the bit-field accessors
(_cffi_backend.c).  Used by C02, C03, C04, C18.
"""
import z3

from .base import *          # noqa: F401,F403  (R, ghost vocabulary)
from .base import R, int_w, int_m, is_long, sx, zx, wv, W, exc
from specs import ints as S

CT_PRIMITIVE_SIGNED = 0x001
CT_PRIMITIVE_UNSIGNED = 0x002
CT_PRIMITIVE_CHAR = 0x004
CT_PRIMITIVE_FLOAT = 0x008
CT_POINTER = 0x010
CT_ARRAY = 0x020
CT_STRUCT = 0x040
CT_UNION = 0x080
CT_FUNCTIONPTR = 0x100
CT_VOID = 0x200
CT_PRIMITIVE_COMPLEX = 0x400
CT_IS_VOIDCHAR_PTR = 0x00001000
CT_PRIMITIVE_FITS_LONG = 0x00002000
CT_IS_OPAQUE = 0x00004000
CT_IS_ENUM = 0x00008000
CT_IS_PTR_TO_OWNED = 0x00010000
CT_IS_LONGDOUBLE = 0x00040000
CT_IS_BOOL = 0x00080000
CT_IS_FILE = 0x00100000
CT_IS_VOID_PTR = 0x00200000
CT_WITH_VAR_ARRAY = 0x00400000
CT_WITH_PACKED_CHANGE = 0x01000000
CT_IS_SIGNED_WCHAR = 0x04000000


def flag(flags, bit):
    return (flags & BV(bit, flags.size())) != BV(0, flags.size())


def size_ok(size):
    return z3.Or(size == 1, size == 2, size == 4, size == 8)


def byte_reader(st):
    return lambda a: z3.Select(st.raw, a)


def s64(size32):
    return z3.SignExt(32, size32)


@R.add
class read_raw_signed_data(Contract):
    name = 'read_raw_signed_data'
    pure = True

    def pre(self, c):
        return [('size-in-1-2-4-8', size_ok(c['size'])),
                ('target-valid', c.valid(c['target'], s64(c['size'])))]

    def post(self, c):
        unit = S.le_unit(byte_reader(c.old), c['target'], s64(c['size']))
        return [('result-is-sign-extended-le-load', c.result == S.signed_of_unit(unit, s64(c['size'])))]


@R.add
class read_raw_unsigned_data(Contract):
    name = 'read_raw_unsigned_data'
    pure = True

    def pre(self, c):
        return [('size-in-1-2-4-8', size_ok(c['size'])),
                ('target-valid', c.valid(c['target'], s64(c['size'])))]

    def post(self, c):
        return [('result-is-zero-extended-le-load',
                 c.result == S.le_unit(byte_reader(c.old), c['target'], s64(c['size'])))]


@R.add
class write_raw_integer_data(Contract):
    name = 'write_raw_integer_data'

    def pre(self, c):
        return [('size-in-1-2-4-8', size_ok(c['size'])),
                ('target-valid', c.valid(c['target'], s64(c['size'])))]

    def frame(self, c):
        return Frame(raw=[(c['target'], s64(c['size']))])

    def post(self, c):
        size = s64(c['size'])
        src = c['source']
        low = z3.If(size == 1, z3.ZeroExt(56, z3.Extract(7, 0, src)),
                    z3.If(size == 2, z3.ZeroExt(48, z3.Extract(15, 0, src)),
                          z3.If(size == 4, z3.ZeroExt(32, z3.Extract(31, 0, src)), src)))
        return [('stored-bytes-are-low-size-bytes-le',
                 S.le_unit(byte_reader(c.new), c['target'], size) == low)]


def bitfield_pre(c, data, cf, need_data=True):
    ct = c.field(c.old, cf, 'CFieldObject', 'cf_type')
    size = c.field(c.old, ct, 'CTypeDescrObject', 'ct_size')
    flags = c.field(c.old, ct, 'CTypeDescrObject', 'ct_flags')
    bs = c.field(c.old, cf, 'CFieldObject', 'cf_bitsize')
    sh = c.field(c.old, cf, 'CFieldObject', 'cf_bitshift')
    sgn, uns = flag(flags, CT_PRIMITIVE_SIGNED), flag(flags, CT_PRIMITIVE_UNSIGNED)
    pre = [
        ('cf-valid', c.valid(cf, 48)), ('ct-valid', c.valid(ct, 104)),
        ('bitfield-wf', S.bitfield_wf(size, bs, sh)),
        ('integer-type', z3.Xor(sgn, uns)),
        # type invariant established by new_primitive_type (C06): FITS_LONG only if every value fits a C long
        ('fits-long-flag-sound', z3.Implies(flag(flags, CT_PRIMITIVE_FITS_LONG), z3.Or(sgn, size < 8))),
        ('data-valid', c.valid(data, size)),
    ]
    return pre, (ct, size, flags, bs, sh, sgn)


@R.add
class convert_to_object_bitfield(Contract):
    name = 'convert_to_object_bitfield'

    def pre(self, c):
        return bitfield_pre(c, c['data'], c['cf'])[0]

    def witness(self, c):
        _, (ct, size, flags, bs, sh, sgn) = bitfield_pre(c, c['data'], c['cf'])
        return {'size': size, 'bitsize': bs, 'bitshift': sh, 'flags': flags,
                'unit': S.le_unit(byte_reader(c.old), c['data'], size)}

    def frame(self, c):
        return Frame()

    def post(self, c):
        _, (ct, size, flags, bs, sh, sgn) = bitfield_pre(c, c['data'], c['cf'])
        unit = S.le_unit(byte_reader(c.old), c['data'], size)
        spec = S.bf_read(unit, bs, sh, sgn)
        r = c.result
        return [('returns-int-object', z3.And(r != 0, is_long(c, c.new, r))),
                ('value-is-the-field-C-reads', S.wide(int_w(r), True) == spec)]


def bitfield_store_post(c, data, cf, init):
    _, (ct, size, flags, bs, sh, sgn) = bitfield_pre(c, data, cf)
    v = S.wide(int_w(init), True)
    ok = S.bf_in_range(v, bs, sgn)
    unit0 = S.le_unit(byte_reader(c.old), data, size)
    unit1 = S.le_unit(byte_reader(c.new), data, size)
    want = S.bf_write(unit0, v, bs, sh)
    mask_sz = z3.If(size == 8, BV(-1, 64), (BV(1, 64) << (8 * size)) - 1)
    return [
        ('accepts-iff-in-range', (c.result == 0) == ok),
        ('returns-0-or-minus-1', z3.Or(c.result == 0, c.result == BV(-1, 32))),
        ('accepted-store-writes-exactly-the-field-bits', z3.Implies(ok, unit1 == (want & mask_sz))),
        ('accepted-store-leaves-error-indicator', z3.Implies(ok, c.new.err == c.old.err)),
        ('rejected-store-raises-OverflowError', z3.Implies(z3.Not(ok), c.new.err == exc(c.ex, 'OverflowError'))),
        ('rejected-store-changes-nothing', z3.Implies(z3.Not(ok), unit1 == unit0)),
    ]


def bitfield_witness(c, data, cf, init=None):
    _, (ct, size, flags, bs, sh, sgn) = bitfield_pre(c, data, cf)
    w = {'size': size, 'bitsize': bs, 'bitshift': sh, 'flags': flags,
         'unit': S.le_unit(byte_reader(c.old), data, size)}
    if init is not None:
        w['v_sat80'] = int_w(init)
    return w


@R.add
class convert_from_object_bitfield(Contract):
    name = 'convert_from_object_bitfield'

    def pre(self, c):
        pre, _ = bitfield_pre(c, c['data'], c['cf'])
        return pre + [('init-is-python-int', is_long(c, c.old, c['init'])),
                      ('no-pending-exception', c.old.err == 0)]

    def witness(self, c):
        return bitfield_witness(c, c['data'], c['cf'], c['init'])

    def frame(self, c):
        _, (ct, size, flags, bs, sh, sgn) = bitfield_pre(c, c['data'], c['cf'])
        return Frame(raw=[(c['data'], size)], err=True)

    def post(self, c):
        return bitfield_store_post(c, c['data'], c['cf'], c['init'])


@R.add
class convert_field_from_object(Contract):
    """dispatch: a field with cf_bitshift >= 0 is stored through the bit-field writer at data + cf_offset"""
    name = 'convert_field_from_object'

    def _data(self, c):
        return c['data'] + c.field(c.old, c['cf'], 'CFieldObject', 'cf_offset')

    def pre(self, c):
        pre, _ = bitfield_pre(c, self._data(c), c['cf'])
        return pre + [('is-a-bit-field', c.field(c.old, c['cf'], 'CFieldObject', 'cf_bitshift') >= 0),
                      ('init-is-python-int', is_long(c, c.old, c['value'])),
                      ('no-pending-exception', c.old.err == 0)]

    def witness(self, c):
        return bitfield_witness(c, self._data(c), c['cf'], c['value'])

    def frame(self, c):
        _, (ct, size, flags, bs, sh, sgn) = bitfield_pre(c, self._data(c), c['cf'])
        return Frame(raw=[(self._data(c), size)], err=True)

    def post(self, c):
        return bitfield_store_post(c, self._data(c), c['cf'], c['value'])
