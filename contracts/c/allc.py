"""all C contract modules loaded into the shared registry"""
from .base import R          # noqa: F401
from . import ints           # noqa: F401
