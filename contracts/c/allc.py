"""all C contract modules loaded into the shared registry"""
from .base import R          # noqa: F401
from . import ints           # noqa: F401
from . import cast           # noqa: F401
from . import strings        # noqa: F401
from . import lookup         # noqa: F401
from . import index          # noqa: F401
from . import index2         # noqa: F401
from . import cdl            # noqa: F401
from . import wchar          # noqa: F401
from . import dl             # noqa: F401
from . import errno_         # noqa: F401
from . import compare        # noqa: F401
from . import unpack         # noqa: F401
from . import prims          # noqa: F401
from . import buffers        # noqa: F401
from . import layout         # noqa: F401
