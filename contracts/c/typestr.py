"""C30, compiled FFIs: ffi.typeof(string) & co. go through _ffi_type (ffi_obj.c), which hands the UTF-8 text of the
string to the type-string parser.  Contract: whatever the argument is, the function returns a ctype or NULL with an
exception -- and the parser is given a string (its precondition, an obligation at the call site)."""
import z3

from . import allc                                   # noqa: F401
from .base import R as R0, BV, B64, Contract, Frame, Ctx, exc

R = R0.fork()


@R.model('PyUnicode_AsUTF8', "the UTF-8 text of a str object -- or NULL with an exception (UnicodeEncodeError: lone "
                             "surrogates cannot be encoded; MemoryError)")
def _asutf8(ex, st, args, n):
    r = ex.fresh('utf8', B64)
    e = ex.fresh('err_utf8', B64)
    c = Ctx(ex, {}, st)
    st.assume(z3.Implies(r == 0, e != 0))
    st.assume(z3.Implies(r != 0, c.valid(r, 1)))
    st.err = z3.If(r == 0, e, st.err)
    return r


@R.model('PyDict_GetItem', "the value filed under the key, or NULL (no exception)")
def _dict_get(ex, st, args, n):
    return ex.fresh('dict_item', B64)


@R.model('PyMem_Malloc', "a fresh region (allocation succeeds: A-ALLOC)")
def _pymem_malloc(ex, st, args, n):
    return ex.alloc(st, args[0], 'PyMem_Malloc')


R.models['PyMem_Free'] = lambda ex, st, args, n: None
R.assumed['PyMem_Free'] = "releases memory; no effect on the modelled state"


@R.model('PyDict_SetDefault', "the value now filed under the key (the given one, or an earlier one), or NULL with an exception")
def _setdefault(ex, st, args, n):
    r = ex.fresh('setdefault', B64)
    e = ex.fresh('err_setdefault', B64)
    c = Ctx(ex, {}, st)
    st.assume(z3.Implies(r == 0, e != 0))
    st.assume(z3.Implies(r != 0, c.valid(r, 104)))
    st.err = z3.If(r == 0, e, st.err)
    return r


class _T(Contract):
    trusted = True

    def frame(self, c):
        return Frame(all_raw=True, all_fields=True, err=True, trace=[])


class parse_c_type(_T):
    """the type-string parser (its tokenizer's memory safety: the C part of this check / C25): requires a C string"""
    name = 'parse_c_type'

    def pre(self, c):
        return [('the input is a C string, not NULL', c['input'] != 0)]

    def frame(self, c):
        # (the parser reports errors through info->error_message, never through the Python error indicator)
        return Frame(all_raw=True, all_fields=True, trace=[])

    def post(self, c):
        return [('an index into the output, or a negative error code with the error recorded in info', z3.BoolVal(True))]


class _obj_or_null(_T):
    def post(self, c):
        return [('an object, or NULL with an exception', z3.And(z3.Implies(c.result == 0, c.new.err != 0),
                                                             z3.Implies(c.result != 0, z3.And(c.new.err == c.old.err, c.valid(c.result, 104)))))]


class _ffi_bad_type(_obj_or_null):
    """builds the ffi.error for a type string that does not parse: always NULL with that exception"""
    name = '_ffi_bad_type'

    def post(self, c):
        return [('NULL with ffi.error', z3.And(c.result == 0, c.new.err != 0))]


class realize_c_type_or_func(_obj_or_null):
    name = 'realize_c_type_or_func'


class unwrap_fn_as_fnptr(_obj_or_null):
    name = 'unwrap_fn_as_fnptr'


class unexpected_fn_type(_obj_or_null):
    name = 'unexpected_fn_type'

    def post(self, c):
        return [('NULL with an exception', z3.And(c.result == 0, c.new.err != 0))]


for _k in (parse_c_type, _ffi_bad_type, realize_c_type_or_func, unwrap_fn_as_fnptr, unexpected_fn_type):
    R.add(_k)


@R.add
class _ffi_type(Contract):
    name = '_ffi_type'

    def pre(self, c):
        return [('ffi-valid', c.valid(c['ffi'], 160)), ('arg-valid', c.valid(c['arg'], 40)),
                ('the type of arg is valid', c.valid(c.field(c.old, c['arg'], 'PyObject', 'ob_type'), 416)),
                ('a cdata object has a (non-NULL) ctype', c.field(c.old, c['arg'], 'CDataObject', 'c_type') != 0),
                ('no-pending-exception', c.old.err == 0)]

    def frame(self, c):
        return None

    def post(self, c):
        return [('a ctype, or NULL with an exception -- for ANY argument, of any type and any content',
                 z3.And(z3.Implies(c.result == 0, c.new.err != 0), z3.Implies(c.result != 0, c.new.err == 0)))]


C30_C_FUNCS = ['_ffi_type']
