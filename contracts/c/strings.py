"""C strings in the byte heap: ghost vocabulary, assumed libc contracts (strncmp, strlen, memcmp,
strcmp) and the order facts they rest on (T-STR).

Ghost functions (all relative to the byte heap at function entry, which these read-only
functions never change -- checked: the models refuse to run after a write):
  slen(a)            length of the NUL-terminated string at a
  keycmp(a, k, n)    three-way comparison (-1, 0, 1) of the NUL-terminated string at a with the
                     n-byte key at k (a key contains no NUL), in unsigned-byte lexicographic
                     order with a proper prefix ordered first  (= strcmp order)
T-STR, the facts assumed about them (elementary consequences of the definition of lexicographic
order; validated by exhaustive enumeration over short strings in selftest/strfacts.py and listed in
the evidence):
  d = strncmp(a, k, n), key without NUL:
      d < 0  ==> keycmp = -1        d > 0 ==> keycmp = 1
      d == 0 ==> n <= slen(a)  and  (a[n] == 0 ==> keycmp = 0)  and  (a[n] != 0 ==> keycmp = 1)
      keycmp = 0 ==> d == 0 and a[n] == 0
  strncmp reads a[0 .. min(n, slen(a))] and k[0 .. n)  -- never beyond.
"""
import z3

from .base import R, BV, B64, Ctx, b2i
from vf.cexec import NotSupported, _same
from vf.cfront import line_of

R.pure_models = set(getattr(R, 'pure_models', ())) | {'strncmp', 'strlen', 'memcmp', 'strcmp', 'PyErr_Occurred'}

I = z3.IntSort()
readable = z3.Function('readable', B64, z3.BoolSort())
writable = z3.Function('writable', B64, z3.BoolSort())
slen = z3.Function('slen', B64, B64)
keycmp = z3.Function('keycmp', B64, B64, B64, I)


def cstring(c, st, a):
    """a points to a NUL-terminated string inside mapped memory"""
    n = slen(a)
    k = z3.BitVec('k!cs', 64)
    return z3.And(c.valid(a, n + 1), z3.ULT(n, BV(1 << 32, 64)), z3.Select(st.raw, a + n) == 0,
                  z3.ForAll([k], z3.Implies(z3.ULT(k, n), z3.Select(st.raw, a + k) != 0)),
                  z3.ForAll([k], z3.Implies(z3.ULE(k, n), readable(a + k))))


def readable_region(a, n):
    k = z3.BitVec('k!rr', 64)
    return z3.ForAll([k], z3.Implies(z3.ULT(k, n), readable(a + k)))


def key_nonul(c, st, k, n):
    j = z3.BitVec('j!kn', 64)
    return z3.ForAll([j], z3.Implies(z3.ULT(j, n), z3.Select(st.raw, k + j) != 0))


def _need_unchanged(ex, st, what):
    if not _same(st.raw, ex.raw0):
        raise NotSupported("%s after a write to the byte heap (string ghosts refer to the entry heap)" % what)


@R.model('strncmp', "C11 7.24.4.4 through T-STR (see contracts/c/strings.py): sign facts about keycmp/slen; "
                    "reads only a[0..min(n,slen a)] and k[0..n)")
def _strncmp(ex, st, args, n):
    a, k, cnt = args
    _need_unchanged(ex, st, 'strncmp')
    d = ex.fresh('strncmp', z3.BitVecSort(32))
    kc = keycmp(a, k, cnt)
    an = z3.Select(st.raw, a + cnt)
    st.assume(z3.And(z3.Or(kc == -1, kc == 0, kc == 1),
                     z3.Implies(d < 0, kc == -1), z3.Implies(d > 0, kc == 1),
                     z3.Implies(d == 0, z3.And(z3.ULE(cnt, slen(a)),
                                               z3.Implies(an == 0, kc == 0), z3.Implies(an != 0, kc == 1))),
                     z3.Implies(kc == 0, z3.And(d == 0, an == 0))))
    if ex.access_regions is not None:
        # strncmp's own reads: the key's n bytes (the string is read up to its NUL at most, covered by cstring)
        j = ex.fresh('j!rd', B64)
        ex.ob('memory', line_of(n), 'strncmp-key-bytes-are-readable', st,
              z3.Implies(z3.ULT(j, cnt), ex.access_regions['read'](st, k + j, 1)))
    return d


@R.model('strlen', "length of the NUL-terminated string (ghost slen)")
def _strlen(ex, st, args, n):
    _need_unchanged(ex, st, 'strlen')
    return slen(args[0])


@R.model('memcmp', "zero iff the bytes are equal (sign not modelled): for a constant length <= 32; for a symbolic "
                   "length, exactly that for the lengths 0, 1, 2, 4, 8, 16 and an arbitrary result for any other length")
def _memcmp(ex, st, args, n):
    a, b, cnt = args
    k = z3.simplify(cnt)
    if not z3.is_bv_value(k):
        # a symbolic length (a ctype's size): decided for the sizes primitive types have; any other length leaves the
        # result arbitrary (an over-approximation: nothing can be proved from it, refutations need such a length)
        d = ex.fresh('memcmp', z3.BitVecSort(32))
        for size in (0, 1, 2, 4, 8, 16):
            eq = z3.And(*[z3.Select(st.raw, a + BV(i, 64)) == z3.Select(st.raw, b + BV(i, 64)) for i in range(size)]) \
                if size else z3.BoolVal(True)
            st.assume(z3.Implies(cnt == size, (d == 0) == eq))
        if ex.access_regions is not None:
            raise NotSupported("memcmp with a symbolic length under memory-safety obligations")
        return d
    if k.as_long() > 32:
        raise NotSupported("memcmp with a long constant length")
    eq = z3.And(*[z3.Select(st.raw, a + BV(i, 64)) == z3.Select(st.raw, b + BV(i, 64)) for i in range(k.as_long())])
    d = ex.fresh('memcmp', z3.BitVecSort(32))
    st.assume((d == 0) == eq)
    if ex.access_regions is not None:
        ex.check_access(st, a, k.as_long(), 'read')
    return d
