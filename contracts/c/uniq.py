"""Contracts for the cache of unique non-aggregate ctypes (C27): get_or_insert_unique_type, get_unique_type,
remove_dead_unique_reference, ctypedescr_dealloc, and the key construction of new_pointer_type / new_array_type /
new_void_type -- under an invariant over ghost state, preserved by every operation (so it holds after any history):

   uc_map    : key value -> weakref object (0: no entry)        the dict `unique_cache`
   wr_target : weakref object -> referent (0: dead)
   ct_live   : object -> Bool                                   ctype objects not yet deallocated

   I1  an entry whose weakref is alive is filed under the key of its referent, and the referent is live
   I2  every live ctype that has a unique key is the referent of the entry filed under that key
From I2: two live ctypes with the same key are the same object.  Keys are compared by CONTENT (dict semantics for
bytes keys): key value = (length, first word, second word) for keys of one or two words (void, primitive, pointer,
array); longer keys (function types) are an opaque value of their content.
"""
import z3

from . import allc                     # noqa: F401
from .base import R as R0, BV, B64, B8, Contract, Frame, Ctx, LoopSpec, b2i, exc
from .buffers import blen, bbyte
from vf.cexec import Exec, QuantifierFree
from vf.cfront import line_of

R = R0.fork()
KV = z3.BitVecSort(136)
MAP = z3.ArraySort(KV, B64)
TGT = z3.ArraySort(B64, B64)
LIVE = z3.ArraySort(B64, z3.BoolSort())
for _k, _s in (('uc_map', MAP), ('wr_target', TGT), ('ct_live', LIVE)):
    Exec.GHOST_SORTS[_k] = _s
GH = ['uc_map', 'wr_target', 'ct_live']
keyval = R.ghost('keyval', B64, KV)          # the content of a bytes object used as a dict key
CT = 'CTypeDescrObject'


def g(st, key):
    return st.gvar(key, Exec.GHOST_SORTS[key])


def ukey(c, st, ct):
    return c.field(st, ct, CT, 'ct_unique_key')


def cache(c, st):
    return c.global_value(st, 'unique_cache', 64)


def kv_words(n, w0, w1):
    return z3.Concat(z3.Extract(7, 0, n), w0, z3.If(n == 16, w1, BV(0, 64)))


def INV(c, st, split=False):
    m, t, live = g(st, 'uc_map'), g(st, 'wr_target'), g(st, 'ct_live')
    k = z3.BitVec('k!uc', 136)
    x = z3.BitVec('x!uc', 64)
    wr = z3.Select(m, k)
    ref = z3.Select(t, wr)
    kx = keyval(ukey(c, st, x))
    parts = [
        ('I1: a live entry is filed under the key of its referent, which is a live ctype',
         z3.ForAll([k], z3.Implies(z3.And(wr != 0, ref != 0),
                                   z3.And(z3.Select(live, ref), ukey(c, st, ref) != 0, keyval(ukey(c, st, ref)) == k)))),
        ('I2: a live ctype with a unique key is the referent of the entry under that key',
         z3.ForAll([x], z3.Implies(z3.And(z3.Select(live, x), ukey(c, st, x) != 0),
                                   z3.And(z3.Select(m, kx) != 0, z3.Select(t, z3.Select(m, kx)) == x)))),
        ('NULL is not a live object', z3.Not(z3.Select(live, BV(0, 64)))),
        ('a dead weakref stays dead: weakrefs of no entry point to dead objects',
         z3.ForAll([x], z3.Implies(z3.Select(t, x) != 0, z3.Select(live, z3.Select(t, x))))),
    ]
    return parts if split else z3.And(*[p for _l, p in parts])


def is_cache(ex, st, d):
    return d == st.gvar('g:unique_cache', B64)


@R.model('PyDict_GetItemRef', "looks the key up by content: 1 and *result = the value, or 0 and *result = NULL; -1 with an "
                              "exception if hashing fails (not for bytes keys)")
def _getitemref(ex, st, args, n):
    d, key, out = args
    v = z3.Select(g(st, 'uc_map'), keyval(key))
    ex.store_raw(st, out, v, 8)
    return z3.If(v != 0, BV(1, 32), BV(0, 32))


@R.model('PyDict_GetItemWithError', "the value stored under the key (by content) or NULL without an exception")
def _getitemwe(ex, st, args, n):
    return z3.Select(g(st, 'uc_map'), keyval(args[1]))


@R.model('PyWeakref_GetRef', "1 and *pobj = the referent if it is alive, 0 and *pobj = NULL if it is dead")
def _getref(ex, st, args, n):
    wr, out = args
    ref = z3.Select(g(st, 'wr_target'), wr)
    ex.store_raw(st, out, ref, 8)
    return z3.If(ref != 0, BV(1, 32), BV(0, 32))


@R.model('PyWeakref_NewRef', "a new weak reference to the object (its referent is the object), or NULL with an exception")
def _newref(ex, st, args, n):
    o = args[0]
    wr = ex.fresh('newweakref', B64)
    c = Ctx(ex, {}, st)
    e = ex.fresh('err_newref', B64)
    t = g(st, 'wr_target')
    m = g(st, 'uc_map')
    k = z3.BitVec('k!nw', 136)
    st.assume(z3.Implies(wr == 0, e != 0))
    # a fresh object: not yet the value of any entry, not yet anything's weakref
    st.assume(z3.Implies(wr != 0, z3.And(c.valid(wr, 48), z3.Select(t, wr) == 0,
                                         z3.ForAll([k], z3.Select(m, k) != wr))))
    st.ghost['wr_target'] = z3.If(wr != 0, z3.Store(t, wr, o), t)
    st.err = z3.If(wr == 0, e, st.err)
    return wr


def _setitem(ex, st, args, n):
    """PyDict_SetItem(unique_cache, key, value): 0 and the entry under the key's content becomes value, or -1 with an
    exception (nothing changes)"""
    d, key, val = args
    r = ex.fresh('dictset', z3.BitVecSort(32))
    e = ex.fresh('err_dictset', B64)
    st.assume(z3.Or(r == 0, r == BV(-1, 32)))
    st.assume(z3.Implies(r != 0, e != 0))
    m = g(st, 'uc_map')
    st.ghost['uc_map'] = z3.If(r == 0, z3.Store(m, keyval(key), val), m)
    st.err = z3.If(r != 0, e, st.err)
    return r


R.models['PyDict_SetItem'] = _setitem
R.assumed['PyDict_SetItem (unique_cache)'] = _setitem.__doc__


@R.model('PyDict_DelItem', "0 and the entry under the key's content is removed, or -1 with an exception")
def _delitem(ex, st, args, n):
    d, key = args
    r = ex.fresh('dictdel', z3.BitVecSort(32))
    e = ex.fresh('err_dictdel', B64)
    st.assume(z3.Or(r == 0, r == BV(-1, 32)))
    st.assume(z3.Implies(r != 0, e != 0))
    m = g(st, 'uc_map')
    st.ghost['uc_map'] = z3.If(r == 0, z3.Store(m, keyval(key), BV(0, 64)), m)
    st.err = z3.If(r != 0, e, st.err)
    return r


@R.model('PyErr_WriteUnraisable', "reports and clears the pending exception")
def _unraisable(ex, st, args, n):
    st.err = BV(0, 64)
    return None


@R.add
class get_or_insert_unique_type(Contract):
    name = 'get_or_insert_unique_type'

    def pre(self, c):
        st = c.old
        x = c['x']
        return [('the cache invariant', INV(c, st)), ('x-valid', c.valid(x, 104)), ('key-valid', c.valid(c['key'], 40)),
                ('x is a live ctype that is not in the cache yet', z3.And(z3.Select(g(st, 'ct_live'), x), ukey(c, st, x) == 0)),
                ('no-pending-exception', st.err == 0)]

    def frame(self, c):
        return Frame(err=True, fields=[(CT, 'ct_unique_key', c['x'])], ghost=GH)

    def witness(self, c):
        st = c.old
        wr = z3.Select(g(st, 'uc_map'), keyval(c['key']))
        return {'entry': wr, 'referent': z3.Select(g(st, 'wr_target'), wr), 'x': c['x']}

    def post(self, c):
        st0, st1 = c.old, c.new
        x, key = c['x'], c['key']
        kv = keyval(key)
        m0, t0 = g(st0, 'uc_map'), g(st0, 'wr_target')
        wr0 = z3.Select(m0, kv)
        ref0 = z3.Select(t0, wr0)
        live_entry = z3.And(wr0 != 0, ref0 != 0)
        r = c.result
        m1, t1 = g(st1, 'uc_map'), g(st1, 'wr_target')
        return [(lab + ' (invariant re-established)', f) for lab, f in INV(c, st1, split=True)] + [
            ('a live ctype is filed under the key: it is returned, x is not installed, nothing changes',
             z3.Implies(live_entry, z3.And(r == ref0, m1 == m0, t1 == t0, ukey(c, st1, x) == 0, st1.err == 0))),
            ('no live ctype under the key: x is installed under it and returned (or NULL with an exception, nothing installed)',
             z3.Implies(z3.Not(live_entry),
                        z3.Or(z3.And(r == x, z3.Select(t1, z3.Select(m1, kv)) == x, ukey(c, st1, x) == key, st1.err == 0),
                              z3.And(r == 0, st1.err != 0, ukey(c, st1, x) == 0)))),
            ('the set of live ctypes is not changed here', g(st1, 'ct_live') == g(st0, 'ct_live'))]


@R.add
class remove_dead_unique_reference(Contract):
    """called by ctypedescr_dealloc after the dying ctype's weak references were cleared"""
    name = 'remove_dead_unique_reference'

    def pre(self, c):
        st = c.old
        return [('the cache invariant except for dead entries', INV(c, st)), ('key-valid', c.valid(c['unique_key'], 40)),
                ('no-pending-exception', st.err == 0)]

    def frame(self, c):
        return Frame(err=True, ghost=GH)

    def post(self, c):
        st0, st1 = c.old, c.new
        kv = keyval(c['unique_key'])
        m0, t0 = g(st0, 'uc_map'), g(st0, 'wr_target')
        wr0 = z3.Select(m0, kv)
        live_entry = z3.And(wr0 != 0, z3.Select(t0, wr0) != 0)
        m1 = g(st1, 'uc_map')
        return [(lab + ' (invariant re-established)', f) for lab, f in INV(c, st1, split=True)] + [
            ('an entry whose referent is alive (the type was rebuilt under the same key) is NOT removed',
             z3.Implies(live_entry, m1 == m0)),
            ('only the entry under this key can change', z3.Or(m1 == m0, m1 == z3.Store(m0, kv, BV(0, 64)))),
            ('weak references and live ctypes are not changed', z3.And(g(st1, 'wr_target') == t0, g(st1, 'ct_live') == g(st0, 'ct_live'))),
            ('no exception is left pending', st1.err == 0)]


C27_FUNCS = ['get_or_insert_unique_type', 'remove_dead_unique_reference']


@R.model('PyObject_ClearWeakRefs', "the object is being destroyed: every weak reference to it becomes dead, and it is no "
                                   "longer a live object (ghost ct_live)")
def _clearweak(ex, st, args, n):
    o = args[0]
    t = g(st, 'wr_target')
    w = z3.BitVec('w!cw', 64)
    st.ghost['wr_target'] = z3.Lambda([w], z3.If(z3.Select(t, w) == o, BV(0, 64), z3.Select(t, w)))
    st.ghost['ct_live'] = z3.Store(g(st, 'ct_live'), o, False)
    return None


_prev_indirect = R.models.get('<indirect>')


def _indirect(ex, st, args, n):
    if "'tp_free'" in str(n['inner'][0]):
        return None            # releases the object's memory: no effect on the modelled state
    return _prev_indirect(ex, st, args, n)


R.models['<indirect>'] = _indirect
R.assumed['<indirect> tp_free'] = "Py_TYPE(ct)->tp_free(ct) releases the memory of the object; no effect on the modelled state"


@R.add
class ctypedescr_dealloc(Contract):
    """a ctype dies: afterwards it is not live, its own (now dead) cache entry is gone, and a live type that was
    rebuilt under the same key in the meantime keeps its entry"""
    name = 'ctypedescr_dealloc'

    def pre(self, c):
        st = c.old
        ct = c['ct']
        return [('the cache invariant', INV(c, st)), ('ct is a live ctype', z3.And(c.valid(ct, 104), z3.Select(g(st, 'ct_live'), ct), ct != 0)),
                ('its key, if any, is a bytes object', z3.Or(ukey(c, st, ct) == 0, c.valid(ukey(c, st, ct), 40))),
                ('ob_type valid', c.valid(c.field(st, ct, 'PyObject', 'ob_type'), 400)),
                ('no-pending-exception', st.err == 0)]

    def frame(self, c):
        return Frame(err=True, ghost=GH)

    def post(self, c):
        st0, st1 = c.old, c.new
        ct = c['ct']
        m0, m1 = g(st0, 'uc_map'), g(st1, 'uc_map')
        t1, live1 = g(st1, 'wr_target'), g(st1, 'ct_live')
        k = z3.BitVec('k!dd', 136)
        return [(lab + ' (invariant re-established)', f) for lab, f in INV(c, st1, split=True)] + [
            ('the ctype is no longer live, every other object keeps its status', live1 == z3.Store(g(st0, 'ct_live'), ct, False)),
            ('no cache entry refers to it any more', z3.ForAll([k], z3.Select(t1, z3.Select(m1, k)) != ct)),
            ('entries of live ctypes are untouched',
             z3.ForAll([k], z3.Implies(z3.And(z3.Select(m0, k) != 0, z3.Select(g(st0, 'wr_target'), z3.Select(m0, k)) != 0,
                                              z3.Select(g(st0, 'wr_target'), z3.Select(m0, k)) != ct),
                                       z3.Select(m1, k) == z3.Select(m0, k))))]


C27_FUNCS.append('ctypedescr_dealloc')


# ---------------------------------------------------------------------------------------------------------------
# key construction

def _bytes_key(ex, st, args, n):
    """PyBytes_FromStringAndSize(words, size) used as a dict key: a new bytes object whose key value is its content --
    (length, first word, second word) for one- and two-word keys; or NULL with an exception"""
    addr, size = args
    o = ex.fresh('newkey', B64)
    e = ex.fresh('err_newkey', B64)
    c = Ctx(ex, {}, st)
    w0 = ex.load_raw(st, addr, 8)
    w1 = ex.load_raw(st, addr + 8, 8)
    st.assume(z3.Implies(o == 0, e != 0))
    st.assume(z3.Implies(o != 0, z3.And(c.valid(o, 40), blen(o) == size,
                                        z3.Implies(z3.Or(size == 8, size == 16), keyval(o) == kv_words(size, w0, w1)))))
    st.err = z3.If(o == 0, e, st.err)
    return o


R.models['PyBytes_FromStringAndSize'] = _bytes_key
R.assumed['PyBytes_FromStringAndSize (key)'] = _bytes_key.__doc__


def lookup_post(c, st0, st1, x, kv, r):
    m0, t0 = g(st0, 'uc_map'), g(st0, 'wr_target')
    wr0 = z3.Select(m0, kv)
    ref0 = z3.Select(t0, wr0)
    live_entry = z3.And(wr0 != 0, ref0 != 0)
    m1, t1 = g(st1, 'uc_map'), g(st1, 'wr_target')
    return live_entry, ref0, [
        ('a live ctype is filed under the key: it is returned and nothing is installed (or NULL with an exception when '
         'the key object cannot be allocated; nothing changes then either)',
         z3.Implies(live_entry, z3.And(m1 == m0, t1 == t0, z3.Or(z3.And(r == ref0, st1.err == 0), z3.And(r == 0, st1.err != 0))))),
        ('no live ctype under the key: x is installed under it and returned (or NULL with an exception)',
         z3.Implies(z3.Not(live_entry),
                    z3.Or(z3.And(r == x, z3.Select(t1, z3.Select(m1, kv)) == x, ukey(c, st1, x) != 0,
                                 keyval(ukey(c, st1, x)) == kv, st1.err == 0),
                          z3.And(r == 0, st1.err != 0))))]


@R.add
class get_unique_type(Contract):
    name = 'get_unique_type'
    record_calls = True
    record_words = {'unique_key': 2}

    def kv(self, c):
        uk = c['unique_key']
        return kv_words(c['keylength'] * 8, c.raw(c.old, uk, 8), c.raw(c.old, uk + 8, 8))

    def pre(self, c):
        st = c.old
        x = c['x']
        return [('the cache invariant', INV(c, st)), ('x-valid', c.valid(x, 104)),
                ('key words valid', z3.And(c['keylength'] >= 1, c['keylength'] < BV(1 << 20, 64), c.valid(c['unique_key'], c['keylength'] * 8))),
                ('x is a live ctype that is not in the cache yet', z3.And(z3.Select(g(st, 'ct_live'), x), ukey(c, st, x) == 0)),
                ('no-pending-exception', st.err == 0)]

    def scope(self, c):
        return [('a key of one or two words (void, primitive, pointer, array types)', c['keylength'] <= 2)]

    def frame(self, c):
        return Frame(err=True, fields=[(CT, 'ct_unique_key', c['x'])], ghost=GH, havoc_if=c['keylength'] > 2)

    def post(self, c):
        small = c['keylength'] <= 2
        live_entry, ref0, posts = lookup_post(c, c.old, c.new, c['x'], self.kv(c), c.result)
        return [(lab + ' (invariant re-established)', z3.Implies(small, f)) for lab, f in INV(c, c.new, split=True)] + \
               [(lab, z3.Implies(small, f)) for lab, f in posts] + \
               [('the set of live ctypes is not changed here', z3.Implies(small, g(c.new, 'ct_live') == g(c.old, 'ct_live')))]


@R.add
class ctypedescr_new_on_top(Contract):
    """allocates a new ctype object named after its base type -- assumed (its name splicing is C08's subject):
    NULL with an exception, or a new live ctype without a unique key whose item type is ct_base"""
    name = 'ctypedescr_new_on_top'
    trusted = True

    def frame(self, c):
        return Frame(err=True, ghost=['ct_live'])

    def allocates(self, c):
        return [(c.result, BV(104 + 64, 64))]

    def post(self, c):
        r = c.result
        live0, live1 = g(c.old, 'ct_live'), g(c.new, 'ct_live')
        return [('NULL with an exception, or a new live ctype',
                 z3.If(r == 0, z3.And(c.new.err != 0, live1 == live0),
                       z3.And(c.new.err == c.old.err, z3.Not(z3.Select(live0, r)), live1 == z3.Store(live0, r, True),
                              ukey(c, c.new, r) == 0, c.field(c.new, r, CT, 'ct_itemdescr') == c['ct_base'])))]


def _mk_newtype(nm, words):
    class K(Contract):
        """the constructor looks the new type up under a key that is exactly its defining components"""
        name = nm

        def pre(self, c):
            st = c.old
            first = list(c.args.values())[0]
            return [('the cache invariant', INV(c, st)), ('argument is a valid ctype', c.valid(first, 104)),
                    ('its item type, if any, is valid', c.valid(c.field(st, first, CT, 'ct_itemdescr'), 104)),
                    ('no-pending-exception', st.err == 0)]

        def frame(self, c):
            return Frame(err=True, all_fields=True, all_raw=True, ghost=GH)

        def post(self, c):
            st0, st1 = c.old, c.new
            r = c.result
            n, w0, w1 = words(c)
            kv = kv_words(BV(n, 64), w0, w1)
            m0, t0 = g(st0, 'uc_map'), g(st0, 'wr_target')
            wr0 = z3.Select(m0, kv)
            ref0 = z3.Select(t0, wr0)
            live_entry = z3.And(wr0 != 0, ref0 != 0)
            return [(lab + ' (invariant re-established)', f) for lab, f in INV(c, st1, split=True)] + [
                ('a live ctype already filed under (these components): that very object is returned',
                 z3.Implies(z3.And(live_entry, r != 0), r == ref0)),
                ('otherwise a new live ctype, filed under exactly these components',
                 z3.Implies(z3.And(z3.Not(live_entry), r != 0),
                            z3.And(z3.Not(z3.Select(g(st0, 'ct_live'), r)), z3.Select(g(st1, 'ct_live'), r),
                                   ukey(c, st1, r) != 0, keyval(ukey(c, st1, r)) == kv))),
                ('failure only with an exception', z3.Implies(r == 0, st1.err != 0)),
                # (quantifier-free companion of the two clauses above: decidable also when they fail)
                ('the cache is consulted exactly once, under a key made of exactly these components (%d bytes)' % n,
                 z3.Implies(r != 0, z3.And(
                     st1.gvar('tmp:calls:get_unique_type', B64) == st0.gvar('tmp:calls:get_unique_type', B64) + 1,
                     z3.Extract(31, 0, st1.gvar('tmp:arg:get_unique_type:keylength', B64)) == n // 8,
                     st1.gvar('tmp:arg:get_unique_type:unique_key[0]', B64) == w0,
                     *([st1.gvar('tmp:arg:get_unique_type:unique_key[1]', B64) == w1] if n == 16 else []))),
                 QuantifierFree())]
    K.__name__ = nm
    R.add(K)
    C27_FUNCS.append(nm)


_mk_newtype('new_pointer_type', lambda c: (8, c['ctitem'], BV(0, 64)))
_mk_newtype('new_array_type', lambda c: (16, c['ctptr'], z3.If(c['length'] < 0, BV(-1, 64), c['length'])))
C27_FUNCS.insert(2, 'get_unique_type')


def nonvacuity(tu):
    """the cache invariant is not vacuous: it holds of the empty cache with no live ctype"""
    from vf.cexec import State
    from vf.smt import Ob
    ex = Exec(tu, R, 'get_or_insert_unique_type', R.contracts['get_or_insert_unique_type'])
    st = State()
    st.raw = z3.Array('RAW0', B64, B8)
    st.err = BV(0, 64)
    st.ghost['uc_map'] = z3.K(KV, BV(0, 64))
    st.ghost['wr_target'] = z3.K(B64, BV(0, 64))
    st.ghost['ct_live'] = z3.K(B64, z3.BoolVal(False))
    c = Ctx(ex, {}, st)
    return [Ob('_cffi_backend.c:unique_cache:INV:non-vacuity[the invariant holds of the empty cache with no live ctype]',
               [], INV(c, st), kind='lemma')]
