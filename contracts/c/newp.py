"""Contracts for ffi.new (C20): allocate_owning_object, allocate_with_allocator, get_new_array_length,
add_varsize_length, convert_vfield_from_object, one iteration of convert_struct_from_object's list loop, direct_newp,
and the accepted branch of item assignment (cdata_ass_sub) -- in a registry forked from the shared one, in which
convert_from_object is a *recording* contract: each call leaves (count, data, ctype, value, byte heap before the
call) in ghost variables, so that "ffi.new(T, init) leaves exactly the bytes of ffi.new(T) followed by p[0] = init"
becomes: both run the same convert_from_object call on the same all-zero bytes.
"""
import z3

from . import allc                     # noqa: F401  (everything registered before the fork)
from .base import (R as R0, BV, B64, B8, Contract, Frame, Ctx, LoopSpec, exc, b2i, py_type, is_long, int_w, wv,
                   has_flag, TPFLAGS_LIST, TPFLAGS_TUPLE, TPFLAGS_BYTES, TPFLAGS_UNICODE, TPFLAGS_DICT, pyint_axiom,
                   kind_flags_exclusive)
from .ints import (flag, CT_POINTER, CT_ARRAY, CT_STRUCT, CT_UNION, CT_PRIMITIVE_CHAR, CT_IS_PTR_TO_OWNED)
from .index import fits_ssize
from .layout import F, s64, CF, CT, events, EVENTS
from vf.cexec import Exec, NotSupported, CaseOf
from vf.cfront import line_of
from specs import arith as A

R = R0.fork()
RAW = z3.ArraySort(B64, B8)
CT_WITH_VAR_ARRAY = 2                  # in ct_flags_mut
BF_IGNORE_IN_CTOR = 1
BOUND = 1 << 55
ALLOC_MAX = 1 << 46            # A-ALLOC is consistent with the address-space model only below this size
OWN_NOLEN, OWN_LEN, OWN_STRUCTPTR = 48, 64, 48     # offsetof(.., alignment) / sizeof: checked by obligations below
for _k, _s in (('cfo_count', B64), ('cfo_data', B64), ('cfo_ct', B64), ('cfo_init', B64), ('cfo_raw_before', RAW)):
    Exec.GHOST_SORTS[_k] = _s
CFO = ['cfo_count', 'cfo_data', 'cfo_ct', 'cfo_init', 'cfo_raw_before']


def g(st, key):
    return st.gvar(key, Exec.GHOST_SORTS[key])


def none(c):
    return c.ex.global_addr('_Py_NoneStruct')


def zero_region(raw, lo, n):
    a = z3.BitVec('a!z', 64)
    return z3.ForAll([a], z3.Implies(z3.And(z3.ULE(lo, a), z3.ULT(a, lo + n)), z3.Select(raw, a) == 0))


@R.model('calloc', "returns a fresh region of n*m bytes, all zero (allocation succeeds: A-ALLOC)")
def _calloc(ex, st, args, n):
    size = args[0] * args[1]
    p = ex.alloc(st, size, 'calloc')
    a = z3.BitVec('a!cz', 64)
    old = st.raw
    st.raw = z3.Lambda([a], z3.If(z3.And(z3.ULE(p, a), z3.ULT(a, p + size)), BV(0, 8), z3.Select(old, a)))
    return p


class convert_from_object_rec(Contract):
    """RECORDING contract (trace abstraction, not a functional contract): the conversion writes bytes and may set an
    exception; it does not change ctype / cdata headers (values that run arbitrary code through __int__ etc. are
    outside the scope).  What the call was made with, and the byte heap it found, are kept in ghost variables."""
    name = 'convert_from_object'
    trusted = True

    def frame(self, c):
        return Frame(all_raw=True, err=True, ghost=CFO, trace=[])

    def post(self, c):
        return [('recorded', z3.And(g(c.new, 'cfo_count') == g(c.old, 'cfo_count') + 1,
                                    g(c.new, 'cfo_data') == c['data'], g(c.new, 'cfo_ct') == c['ct'],
                                    g(c.new, 'cfo_init') == c['init'], g(c.new, 'cfo_raw_before') == c.old.raw)),
                ('failure is -1 with an exception, success leaves the error indicator alone',
                 z3.And(z3.Or(c.result == 0, c.result == BV(-1, 32)), z3.Implies(c.result != 0, c.new.err != 0),
                        z3.Implies(c.result == 0, c.new.err == c.old.err)))]


R.add(convert_from_object_rec)


def cfo_unchanged(c):
    return z3.And(*[g(c.new, k) == g(c.old, k) for k in CFO])


@R.add
class allocate_owning_object(Contract):
    name = 'allocate_owning_object'

    def pre(self, c):
        return [('size covers the header', z3.And(c['size'] >= 40, c['size'] < 2 * BOUND)), ('ct-valid', c.valid(c['ct'], 104))]

    def frame(self, c):
        return Frame(trace=[])

    def allocates(self, c):
        return [(c.result, c['size'])]

    def post(self, c):
        r = c.result
        return [('a new owning cdata of the given type', z3.And(r != 0, py_type(c, c.new, r) == c.ex.global_addr('CDataOwning_Type'),
                                                                F(c, c.new, r, 'c_type', 'CDataObject') == c['ct'])),
                ('unless dont_clear, every byte of the object is zero (calloc)',
                 z3.Implies(c['dont_clear'] == 0, zero_region(c.new.raw, r, c['size'])))]


@R.add
class allocate_with_allocator(Contract):
    name = 'allocate_with_allocator'
    record_calls = True

    def default(self, c):
        return F(c, c.old, c['allocator'], 'ca_alloc', 'cffi_allocator_t') == 0

    def pre(self, c):
        return [('sizes', z3.And(c['basesize'] >= 40, c['basesize'] <= 64, c['datasize'] >= 0)),
                ('ct-valid', c.valid(c['ct'], 104)), ('allocator-valid', c.valid(c['allocator'], 24))]

    def in_scope(self, c):
        return z3.And(self.default(c), c['datasize'] < ALLOC_MAX)

    def scope(self, c):
        return [('the default allocator (ffi.new_allocator() objects call user code); a request below 2^46 bytes '
                 '(A-ALLOC: such an allocation succeeds)', self.in_scope(c))]

    def frame(self, c):
        return Frame(err=True, havoc_if=z3.Not(self.in_scope(c)), trace=[])

    def allocates(self, c):
        return [(c.result, c['basesize'] + c['datasize'])]

    def post(self, c):
        r = c.result
        d = self.in_scope(c)
        clear = F(c, c.old, c['allocator'], 'ca_dont_clear', 'cffi_allocator_t') == 0
        return [('a new owning cdata whose data area of datasize bytes follows the header',
                 z3.Implies(d, z3.And(r != 0, F(c, c.new, r, 'c_type', 'CDataObject') == c['ct'],
                                      F(c, c.new, r, 'c_data', 'CDataObject') == r + c['basesize'],
                                      py_type(c, c.new, r) == c.ex.global_addr('CDataOwning_Type'),
                                      c.new.err == c.old.err))),
                ('the data area is zero-filled', z3.Implies(z3.And(d, clear), zero_region(c.new.raw, r + c['basesize'], c['datasize'])))]


def seq_size(c, st, o):
    return F(c, st, o, 'ob_size', 'PyVarObject')


@R.add
class _my_PyUnicode_SizeAsChar32(Contract):
    name = '_my_PyUnicode_SizeAsChar32'
    trusted = True
    pure = True

    def post(self, c):
        return [('number of code points', z3.And(c.result >= 0, c.result < BV(1 << 31, 64)))]


@R.add
class get_new_array_length(Contract):
    """the length of the array that an initializer asks for: len(list/tuple), len(bytes)+1, units(str)+1, or the
    integer itself -- in which case *pvalue becomes None (nothing to copy)"""
    name = 'get_new_array_length'

    def kinds(self, c, st):
        v = c.raw(st, c['pvalue'], 8)
        return v, z3.Or(has_flag(c, st, v, TPFLAGS_LIST), has_flag(c, st, v, TPFLAGS_TUPLE)), \
            has_flag(c, st, v, TPFLAGS_BYTES), has_flag(c, st, v, TPFLAGS_UNICODE), is_long(c, st, v)

    def pre(self, c):
        v, isseq, isbytes, isstr, isint = self.kinds(c, c.old)
        return [('pvalue-valid', c.valid(c['pvalue'], 8)), ('value-valid', c.valid(v, 24)),
                ('item-type-valid', c.valid(c['ctitem'], 104)),
                ('a type is a subclass of at most one builtin kind', kind_flags_exclusive(c, c.old, v)),
                ('container sizes are sane', z3.And(seq_size(c, c.old, v) >= 0, seq_size(c, c.old, v) < BV(1 << 60, 64))),
                ('no-pending-exception', c.old.err == 0)]

    def scope(self, c):
        v, isseq, isbytes, isstr, isint = self.kinds(c, c.old)
        return [('initializer is a list, tuple, bytes or int (str lengths: C15)', z3.Or(isseq, isbytes, isint))]

    def frame(self, c):
        v, isseq, isbytes, isstr, isint = self.kinds(c, c.old)
        return Frame(raw=[(c['pvalue'], 8)], err=True, havoc_if=z3.Not(z3.Or(isseq, isbytes, isint)))

    def post(self, c):
        v, isseq, isbytes, isstr, isint = self.kinds(c, c.old)
        v1 = c.raw(c.new, c['pvalue'], 8)
        w = int_w(v)
        return [('list/tuple: its length, the initializer is kept',
                 z3.Implies(isseq, z3.And(c.result == seq_size(c, c.old, v), v1 == v, c.new.err == 0))),
                ('bytes: its length plus the terminator', z3.Implies(isbytes, z3.And(c.result == seq_size(c, c.old, v) + 1,
                                                                                 v1 == v, c.new.err == 0))),
                ('a non-negative int n that fits: n, and there is nothing to copy (None)',
                 z3.Implies(z3.And(isint, w >= wv(0), fits_ssize(w)),
                            z3.And(c.result == z3.Extract(63, 0, w), v1 == none(c), c.new.err == 0))),
                ('a negative or huge int: -1 and an exception',
                 z3.Implies(z3.And(isint, z3.Not(z3.And(w >= wv(0), fits_ssize(w)))),
                            z3.And(c.result == BV(-1, 64), c.new.err != 0, v1 == v)))]


@R.add
class add_varsize_length(Contract):
    name = 'add_varsize_length'

    def pre(self, c):
        return [('optvarsize-valid', c.valid(c['optvarsize'], 8)),
                ('offset and item size are those of a laid-out member', z3.And(c['offset'] >= 0, c['offset'] < BOUND,
                                                                            c['itemsize'] >= 0, c['itemsize'] < BOUND)),
                ('length >= 0', c['varsizelength'] >= 0), ('no-pending-exception', c.old.err == 0)]

    def scope(self, c):
        return [('items are not zero-sized (the overflow test divides by the item size: recorded divergence)',
                 c['itemsize'] > 0)]

    def frame(self, c):
        return Frame(raw=[(c['optvarsize'], 8)], err=True, havoc_if=c['itemsize'] <= 0)

    def witness(self, c):
        return {'offset': c['offset'], 'itemsize': c['itemsize'], 'length': c['varsizelength'],
                'size_before': c.raw(c.old, c['optvarsize'], 8)}

    def post(self, c):
        off, z, n = c['offset'], c['itemsize'], c['varsizelength']
        W = 130
        wide = z3.SignExt(W - 64, off) + z3.SignExt(W - 64, z) * z3.SignExt(W - 64, n)
        fits = wide <= z3.BitVecVal((1 << 63) - 1, W)
        o0, o1 = c.raw(c.old, c['optvarsize'], 8), c.raw(c.new, c['optvarsize'], 8)
        need = off + z * n
        sc = z > 0
        return [('accepted exactly when offset + itemsize*length fits a Py_ssize_t',
                 z3.Implies(sc, (c.result == 0) == fits), [A.mul_tdiv_overflow(z, n, W)]),
                ('accepted: the required size is the larger of the old one and offset + itemsize*length',
                 z3.Implies(z3.And(sc, c.result == 0), z3.And(o1 == z3.If(need > o0, need, o0), c.new.err == 0)),
                 [A.mul_tdiv_overflow(z, n, W)]),
                ('rejected: OverflowError, size untouched',
                 z3.Implies(z3.And(sc, c.result != 0), z3.And(c.result == BV(-1, 32), o1 == o0,
                                                              c.new.err == exc(c.ex, 'OverflowError'))))]


# ---------------------------------------------------------------------------------------------------------------
# fields

class convert_from_object_bitfield_any(Contract):
    """bit-field stores are C02's subject; here only: writes bytes, may set an exception"""
    name = 'convert_from_object_bitfield'
    trusted = True

    def frame(self, c):
        return Frame(all_raw=True, err=True)

    def post(self, c):
        return [('0 (error indicator untouched) or -1 with an exception',
                 z3.And(z3.Or(c.result == 0, c.result == BV(-1, 32)), z3.Implies(c.result != 0, c.new.err != 0),
                        z3.Implies(c.result == 0, c.new.err == c.old.err)))]


R.add(convert_from_object_bitfield_any)
R.contracts.pop('convert_field_from_object', None)
R.inline = set(R.inline) | {'convert_field_from_object'}


obj_extent = R.ghost('obj_extent', B64, B64)     # ghost argument: the size of the object that `data` points to


def is_cdata_obj(c, st, o):
    t = py_type(c, st, o)
    return z3.Or(*[t == c.ex.global_addr(n) for n in ('CData_Type', 'CDataOwning_Type', 'CDataOwningGC_Type',
                                                       'CDataFromBuf_Type', 'CDataGCP_Type')])


def field_parts(c, st, cf):
    ft = F(c, st, cf, 'cf_type', CF)
    return {'ft': ft, 'off': F(c, st, cf, 'cf_offset', CF), 'shift': F(c, st, cf, 'cf_bitshift', CF),
            'flags': F(c, st, ft, 'ct_flags'), 'size': F(c, st, ft, 'ct_size'),
            'item': F(c, st, ft, 'ct_itemdescr'), 'mut': F(c, st, ft, 'ct_flags_mut')}


@R.add
class _convert_error(Contract):
    """formats a TypeError 'initializer for ctype ... must be a ..., not ...' -- assumed"""
    name = '_convert_error'
    trusted = True

    def frame(self, c):
        return Frame(err=True)

    def post(self, c):
        return [('-1 with TypeError', z3.And(c.result == BV(-1, 32), c.new.err == exc(c.ex, 'TypeError')))]


dict_entry = R.ghost('dict_entry', B64, B64, B64, z3.BoolSort())     # (dict, key, value) is an item of the dict


@R.model('PyDict_Next', "iteration over a dict: 0 at the end, else 1 with *pkey / *pvalue set to some entry (borrowed)")
def _dictnext(ex, st, args, n):
    r = ex.fresh('dict_next', z3.BitVecSort(32))
    st.assume(z3.Or(r == 0, r == 1))
    c = Ctx(ex, {}, st)
    vals = {}
    for dst, nm, size in ((args[1], 'pos', 8), (args[2], 'key', 8), (args[3], 'value', 8)):
        v = vals[nm] = ex.fresh('dict_' + nm, B64)
        if nm != 'pos':
            st.assume(z3.Implies(r == 1, c.valid(v, 24)))
        old = ex.load_raw(st, dst, size)
        ex.store_raw(st, dst, z3.If(r == 1, v, old), size)
    st.assume(z3.Implies(r == 1, dict_entry(args[0], vals['key'], vals['value'])))
    return r


dict_lookup = R.ghost('dict_lookup', B64, B64, B64)


@R.model('PyDict_GetItem', "the value stored under the key (ghost dict_lookup(d, key)), or NULL; no exception is raised "
                           "or kept; hashing a str key runs no user code")
def _dictget(ex, st, args, n):
    return dict_lookup(args[0], args[1])


@R.model('PyErr_SetObject', "sets the error indicator to the given class")
def _seto(ex, st, args, n):
    st.err = args[0]
    return None


@R.add
class convert_struct_from_object(Contract):
    """function level (its list loop is verified one iteration at a time below; the dict loop is summarised):
    the sizing pass never shrinks the required size"""
    name = 'convert_struct_from_object'

    def _inv(self, c, st):
        ov = c['optvarsize']
        return [('the required size never shrinks',
                 z3.Implies(ov != 0, c.raw(st, ov, 8) >= c.raw(c.old, ov, 8))),
                ('the sizing pass converts nothing', z3.Implies(ov != 0, z3.And(*[g(st, k) == g(c.old, k) for k in CFO]))),
                ('optvarsize stays a valid slot', z3.Implies(ov != 0, c.valid(ov, 8)))]

    loops = property(lambda self: {0: LoopSpec(invariant=self._inv, summarise=True, assume_exit=True, keep_fields=True),
                                   2: LoopSpec(invariant=self._inv, summarise=True, assume_exit=True, keep_fields=True)})

    def pre(self, c):
        ov = c['optvarsize']
        return [('ct-valid', c.valid(c['ct'], 104)), ('init-valid', c.valid(c['init'], 24)),
                ('optvarsize NULL or valid', z3.Or(ov == 0, c.valid(ov, 8)))]

    def lazy(self, c):
        return F(c, c.old, c['ct'], 'ct_lazy_field_list') != 0

    def in_scope(self, c):
        return z3.And(z3.Not(self.lazy(c)), R.ghost('initializers_in_scope', B64, B64, z3.BoolSort())(c['ct'], c['init']))

    def scope(self, c):
        return [('not an API-mode struct waiting to be realised; every (field, initializer) pair visited satisfies the '
                 'preconditions of the loop-body contracts (ghost predicate initializers_in_scope)', self.in_scope(c))]

    def frame(self, c):
        return Frame(all_raw=True, err=True, ghost=CFO + [EVENTS], havoc_if=z3.Not(self.in_scope(c)))

    def post(self, c):
        ov = c['optvarsize']
        sc = self.in_scope(c)
        return [('sizing pass: the required size never shrinks',
                 z3.Implies(z3.And(sc, ov != 0, c.result == 0), c.raw(c.new, ov, 8) >= c.raw(c.old, ov, 8))),
                ('the sizing pass converts nothing', z3.Implies(z3.And(sc, ov != 0), cfo_unchanged(c))),
                ('0, or -1 with an exception', z3.Implies(sc, z3.Or(c.result == 0, z3.And(c.result == BV(-1, 32), c.new.err != 0))))]


@R.add
class convert_vfield_from_object(Contract):
    name = 'convert_vfield_from_object'

    def parts(self, c):
        st = c.old
        p = field_parts(c, st, c['cf'])
        p['vararr'] = z3.And((p['flags'] & CT_ARRAY) != 0, p['size'] < 0)
        p['z'] = F(c, st, p['item'], 'ct_size')
        v = c['value']
        p['isseq'] = z3.Or(has_flag(c, st, v, TPFLAGS_LIST), has_flag(c, st, v, TPFLAGS_TUPLE))
        p['isbytes'] = has_flag(c, st, v, TPFLAGS_BYTES)
        p['isint'] = is_long(c, st, v)
        p['sizing'] = c['optvarsize'] != 0
        return p

    def pre(self, c):
        st = c.old
        p = self.parts(c)
        v = c['value']
        ov = c['optvarsize']
        return [('field-valid', z3.And(c.valid(c['cf'], 48), c.valid(p['ft'], 104))),
                ('value-valid', c.valid(v, 24)),
                ('a type is a subclass of at most one builtin kind', kind_flags_exclusive(c, st, v)),
                ('an array type has a valid item type', z3.Implies((p['flags'] & CT_ARRAY) != 0, c.valid(p['item'], 104))),
                ('container sizes are sane', z3.And(seq_size(c, st, v) >= 0, seq_size(c, st, v) < BV(1 << 60, 64))),
                ('optvarsize NULL or valid', z3.Or(ov == 0, c.valid(ov, 8))),
                ('the field was laid out: 0 <= offset, item size', z3.And(p['off'] >= 0, p['off'] < BOUND,
                                                                        z3.Implies(p['vararr'], z3.And(p['z'] >= 0, p['z'] < BOUND)))),
                ('None is not an int, list, tuple or bytes',
                 z3.And(z3.Not(is_long(c, st, none(c))), c.valid(none(c), 24),
                        *[z3.Not(has_flag(c, st, none(c), fl)) for fl in (TPFLAGS_LIST, TPFLAGS_TUPLE, TPFLAGS_BYTES)])),
                ('real pass: data points to the object being initialised (ghost extent obj_extent(data))',
                 z3.Implies(ov == 0, z3.And(c.valid(c['data'], obj_extent(c['data'])), obj_extent(c['data']) < BOUND))),
                ('no-pending-exception', st.err == 0)]

    def in_scope(self, c):
        p = self.parts(c)
        return z3.And(z3.Implies(p['vararr'], z3.And(z3.Or(p['isseq'], p['isbytes'], p['isint']), p['z'] > 0)),
                      # (a nested struct that itself ends in a flexible array is sized by recursion: not covered)
                      z3.Implies(p['sizing'], z3.Or(p['vararr'], (p['mut'] & CT_WITH_VAR_ARRAY) == 0)))

    def scope(self, c):
        return [('a flexible array (of items that are not zero-sized) is initialised from a list, tuple, bytes or a '
                 'length; no nested struct that itself ends in a flexible array', self.in_scope(c))]

    def converts(self, c):
        """the call ends in the conversion that a field assignment performs"""
        p = self.parts(c)
        return z3.And(z3.Not(p['sizing']), z3.Not(z3.And(p['vararr'], p['isint'])))

    def frame(self, c):
        p = self.parts(c)
        return Frame(raw=[(c['optvarsize'], z3.If(z3.And(p['sizing'], p['vararr']), BV(8, 64), BV(0, 64)))],
                     all_raw_if=self.converts(c), err=True, ghost=CFO, havoc_if=z3.Not(self.in_scope(c)))

    def witness(self, c):
        p = self.parts(c)
        return {'cf_offset': p['off'], 'itemsize': p['z'], 'sizing_pass': b2i(p['sizing'], 8),
                'flexible': b2i(p['vararr'], 8), 'value_is_int': b2i(p['isint'], 8), 'length_sat80': int_w(c['value']),
                'list_len': seq_size(c, c.old, c['value'])}

    def post(self, c):
        st0, st1 = c.old, c.new
        p = self.parts(c)
        sc = self.in_scope(c)
        v, ov = c['value'], c['optvarsize']
        w = int_w(v)
        n_len = z3.If(p['isseq'], seq_size(c, st0, v),
                      z3.If(p['isbytes'], seq_size(c, st0, v) + 1, z3.Extract(63, 0, w)))
        len_ok = z3.Or(p['isseq'], p['isbytes'], z3.And(w >= wv(0), fits_ssize(w)))
        o0 = c.raw(st0, ov, 8)
        o1 = c.raw(st1, ov, 8)
        need = p['off'] + p['z'] * n_len
        called = g(st1, 'cfo_count') == g(st0, 'cfo_count') + 1
        a = z3.BitVec('a!obj', 64)
        ext = obj_extent(c['data'])
        return [
            # sizing pass
            ('sizing pass, flexible array member: afterwards the required size covers offset + itemsize*length',
             z3.Implies(z3.And(sc, p['sizing'], p['vararr'], len_ok, c.result == 0),
                        z3.And(o1 == z3.If(need > o0, need, o0), cfo_unchanged(c)))),
            ('sizing pass, a member without flexible part: nothing is converted, the required size stays',
             z3.Implies(z3.And(sc, p['sizing'], z3.Not(p['vararr']), (p['mut'] & CT_WITH_VAR_ARRAY) == 0),
                        z3.And(c.result == 0, cfo_unchanged(c), st1.err == 0, o1 == o0))),
            ('sizing pass: the required size never shrinks', z3.Implies(z3.And(sc, p['sizing']), o1 >= o0)),
            # real pass
            ('real pass, flexible array given as a length: nothing is converted (the zero-filled memory stays)',
             z3.Implies(z3.And(sc, z3.Not(p['sizing']), p['vararr'], p['isint'], len_ok),
                        z3.And(c.result == 0, cfo_unchanged(c)))),
            ('real pass, otherwise: exactly the conversion that assigning the field performs',
             z3.Implies(z3.And(sc, self.converts(c), z3.Implies(p['vararr'], len_ok), p['shift'] < 0),
                        z3.And(called, g(st1, 'cfo_data') == c['data'] + p['off'], g(st1, 'cfo_ct') == p['ft'],
                               g(st1, 'cfo_init') == v))),
            ('real pass: the conversion finds the object as it was when the call was made',
             z3.Implies(z3.And(sc, self.converts(c), z3.Implies(p['vararr'], len_ok), p['shift'] < 0),
                        z3.ForAll([a], z3.Implies(z3.And(z3.ULE(c['data'], a), z3.ULT(a, c['data'] + ext)),
                                                  z3.Select(g(st1, 'cfo_raw_before'), a) == z3.Select(st0.raw, a))))),
            ('a bad length is refused with an exception',
             z3.Implies(z3.And(sc, p['vararr'], z3.Not(len_ok)), z3.And(c.result == BV(-1, 32), st1.err != 0))),
            ('0 without an exception, or -1 with one',
             z3.Implies(sc, z3.Or(z3.And(c.result == 0, st1.err == 0), z3.And(c.result == BV(-1, 32), st1.err != 0)))),
        ]


is_cfield_obj = R.ghost('is_cfield', B64, z3.BoolSort())
skipped = R.ghost('skipped', B64, B64, z3.BoolSort())


def field_list_closure(c, st):
    """a struct's field list: every link is NULL or a valid field object with a valid type, laid out (0 <= offset),
    whose array types have item types of known non-negative size"""
    f = z3.BitVec('f!fl', 64)
    nxt = F(c, st, f, 'cf_next', CF)
    ft = F(c, st, f, 'cf_type', CF)
    isarr = (F(c, st, ft, 'ct_flags') & CT_ARRAY) != 0
    item = F(c, st, ft, 'ct_itemdescr')
    off = F(c, st, f, 'cf_offset', CF)
    return z3.ForAll([f], z3.Implies(is_cfield_obj(f), z3.And(
        c.valid(f, 48), c.valid(ft, 104), z3.Or(nxt == 0, is_cfield_obj(nxt)),
        z3.Implies(isarr, z3.And(c.valid(item, 104), F(c, st, item, 'ct_size') >= 0, F(c, st, item, 'ct_size') < BOUND)),
        off >= 0, off < BOUND)), patterns=[is_cfield_obj(f)])


def ignored(c, st, f):
    return (F(c, st, f, 'cf_flags', CF) & BF_IGNORE_IN_CTOR) != 0


def skipped_def(c, st):
    """ghost relation skipped(a, b): b is reached from a by stepping over fields marked ignore-in-constructor only
    (reflexive; extended by one marked field) -- given as the two closure rules the loop needs"""
    a, b = z3.BitVecs('a!sk b!sk', 64)
    return z3.And(z3.ForAll([a], skipped(a, a), patterns=[skipped(a, a)]),
                  z3.ForAll([a, b], z3.Implies(z3.And(skipped(a, b), b != 0, ignored(c, st, b)),
                                               skipped(a, F(c, st, b, 'cf_next', CF))), patterns=[skipped(a, b)]))


def _none_facts(c, st):
    return z3.And(z3.Not(is_long(c, st, none(c))), c.valid(none(c), 24),
                  *[z3.Not(has_flag(c, st, none(c), fl)) for fl in (TPFLAGS_LIST, TPFLAGS_TUPLE, TPFLAGS_BYTES)])


VF = 'convert_vfield_from_object'
R.contracts[VF].record_calls = True


def vf_calls(st):
    return st.gvar('tmp:calls:' + VF, B64)


def vf_arg(st, name, sort=B64):
    return st.gvar('tmp:arg:%s:%s' % (VF, name), sort)


class ListLoop(Contract):
    """convert_struct_from_object, the loop over a list/tuple initializer: ONE iteration hands the i-th initializer
    to the first field at or after the current one that is not marked ignore-in-constructor (union members after the
    first are marked), through convert_vfield_from_object, and moves to the field after it"""
    name = 'convert_struct_from_object#list-loop'
    function = 'convert_struct_from_object'
    loop_ordinal = 0
    keep_fields = True

    def _skip_inv(self, c, st):
        cur = c.local(st, 'cf')
        return [('the scan stays on the field list', z3.Or(cur == 0, is_cfield_obj(cur))),
                ('only fields marked ignore-in-constructor were stepped over', skipped(c['cf'], cur))]

    loops = property(lambda self: {1: LoopSpec(invariant=self._skip_inv, readonly=True)})

    def pre(self, c):
        st = c.old
        i, n, items, cf = c['i'], c['n'], c['items'], c['cf']
        item = c.raw(st, items + i * 8, 8)
        ov = c['optvarsize']
        return [('0 <= i < n', z3.And(i >= 0, i < n, n < BV(1 << 40, 64))), ('items-valid', c.valid(items + i * 8, 8)),
                ('cf is NULL or a field object', z3.Or(cf == 0, is_cfield_obj(cf))),
                ('the field list is well-formed', field_list_closure(c, st)),
                ('definition of the ghost relation skipped', skipped_def(c, st)),
                ('ct-valid', c.valid(c['ct'], 104)), ('item-valid', c.valid(item, 24)),
                ('optvarsize NULL or valid', z3.Or(ov == 0, c.valid(ov, 8))),
                ('real pass: data points to the object being initialised',
                 z3.Implies(ov == 0, z3.And(c.valid(c['data'], obj_extent(c['data'])), obj_extent(c['data']) < BOUND))),
                ('a type is a subclass of at most one builtin kind', kind_flags_exclusive(c, st, item)),
                ('container sizes are sane', z3.And(seq_size(c, st, item) >= 0, seq_size(c, st, item) < BV(1 << 60, 64))),
                ('None is not an int, list, tuple or bytes', _none_facts(c, st)),
                ('scope: a flexible array member (items not zero-sized) gets a list, tuple, bytes or a length; no nested '
                 'struct that itself ends in a flexible array', self.fields_in_scope(c, st, item)),
                ('no-pending-exception', st.err == 0)]

    def fields_in_scope(self, c, st, item):
        f = z3.BitVec('f!sc', 64)
        p = field_parts(c, st, f)
        vararr = z3.And((p['flags'] & CT_ARRAY) != 0, p['size'] < 0)
        kinds = z3.Or(has_flag(c, st, item, TPFLAGS_LIST), has_flag(c, st, item, TPFLAGS_TUPLE),
                      has_flag(c, st, item, TPFLAGS_BYTES), is_long(c, st, item))
        return z3.ForAll([f], z3.Implies(is_cfield_obj(f), z3.And(
            z3.Implies(vararr, z3.And(kinds, F(c, st, p['item'], 'ct_size') > 0)),
            z3.Or(vararr, (p['mut'] & CT_WITH_VAR_ARRAY) == 0))),
            patterns=[is_cfield_obj(f)])

    def witness(self, c):
        return {'i': c['i'], 'n': c['n']}

    def post(self, c):
        st0, st1 = c.old, c.new
        t = vf_arg(st1, 'cf')
        item = c.raw(st0, c['items'] + c['i'] * 8, 8)
        ov = c['optvarsize']
        return [('exactly one field conversion was requested', vf_calls(st1) == vf_calls(st0) + 1),
                ('its target is the first field at or after the current one not marked ignore-in-constructor',
                 z3.And(t != 0, skipped(c['cf'], t), z3.Not(ignored(c, st0, t)))),
                ('it receives the i-th initializer, the same object address and the same pass',
                 z3.And(vf_arg(st1, 'value') == item, vf_arg(st1, 'data') == c['data'], vf_arg(st1, 'optvarsize') == ov)),
                ('the scan continues after that field', c.local(st1, 'cf') == F(c, st1, t, 'cf_next', CF)),
                ('the loop index advances by one', c.local(st1, 'i') == c['i'] + 1),
                ('sizing pass: the required size never shrinks (invariant of the summarised loop)',
                 z3.Implies(ov != 0, c.raw(st1, ov, 8) >= c.raw(st0, ov, 8))),
                ('the sizing pass converts nothing (invariant of the summarised loop)', z3.Implies(ov != 0, cfo_unchanged(c))),
                ('optvarsize stays a valid slot', z3.Implies(ov != 0, c.valid(ov, 8)))]

    def post_return(self, c):
        st1 = c.new
        cur = c.local(st1, 'cf')
        return [('the loop is left early only with -1 and an exception', z3.And(c.result == BV(-1, 32), st1.err != 0)),
                ('too many initializers (no field left) is a ValueError; otherwise the field conversion failed',
                 z3.Or(z3.And(cur == 0, skipped(c['cf'], cur), st1.err == exc(c.ex, 'ValueError')),
                       vf_calls(st1) == vf_calls(c.old) + 1))]


R.add(ListLoop)


class DictLoop(Contract):
    """convert_struct_from_object, the loop over a dict initializer: ONE iteration takes some (key, value) pair and
    hands the value to the field object stored under that name in the struct's field dict"""
    name = 'convert_struct_from_object#dict-loop'
    function = 'convert_struct_from_object'
    loop_ordinal = 2
    keep_fields = True

    def pre(self, c):
        st = c.old
        ov = c['optvarsize']
        stuff = F(c, st, c['ct'], 'ct_stuff')
        k = z3.BitVec('k!dl', 64)
        return [('ct-valid', c.valid(c['ct'], 104)), ('init-valid', c.valid(c['init'], 24)),
                ('the field dict holds field objects only', z3.ForAll([k], z3.Or(dict_lookup(stuff, k) == 0,
                                                                              is_cfield_obj(dict_lookup(stuff, k))))),
                ('the field list is well-formed', field_list_closure(c, st)),
                ('optvarsize NULL or valid', z3.Or(ov == 0, c.valid(ov, 8))),
                ('real pass: data points to the object being initialised',
                 z3.Implies(ov == 0, z3.And(c.valid(c['data'], obj_extent(c['data'])), obj_extent(c['data']) < BOUND))),
                ('None is not an int, list, tuple or bytes', _none_facts(c, st)),
                ('scope: values are ints, lists, tuples or bytes of sane size; flexible arrays have items that are not '
                 'zero-sized; no nested struct that itself ends in a flexible array', self.fields_in_scope(c, st)),
                ('no-pending-exception', st.err == 0)]

    def fields_in_scope(self, c, st):
        f = z3.BitVec('f!sc', 64)
        p = field_parts(c, st, f)
        vararr = z3.And((p['flags'] & CT_ARRAY) != 0, p['size'] < 0)
        v, k = z3.BitVecs('v!sc k!sc', 64)
        kinds = z3.Or(has_flag(c, st, v, TPFLAGS_LIST), has_flag(c, st, v, TPFLAGS_TUPLE),
                      has_flag(c, st, v, TPFLAGS_BYTES), is_long(c, st, v))
        return z3.And(
            z3.ForAll([f], z3.Implies(is_cfield_obj(f), z3.And(
                z3.Implies(vararr, F(c, st, p['item'], 'ct_size') > 0),
                z3.Or(vararr, (p['mut'] & CT_WITH_VAR_ARRAY) == 0))), patterns=[is_cfield_obj(f)]),
            z3.ForAll([k, v], z3.Implies(dict_entry(c['init'], k, v),
                                         z3.And(kinds, kind_flags_exclusive(c, st, v), seq_size(c, st, v) >= 0,
                                                seq_size(c, st, v) < BV(1 << 60, 64))),
                      patterns=[dict_entry(c['init'], k, v)]))

    def post(self, c):
        st0, st1 = c.old, c.new
        ov = c['optvarsize']
        stuff = F(c, st0, c['ct'], 'ct_stuff')
        key, val = c.local(st1, 'd_key'), c.local(st1, 'd_value')
        return [('exactly one field conversion was requested', vf_calls(st1) == vf_calls(st0) + 1),
                ('its target is the field object stored under the key, it receives the value of that key',
                 z3.And(vf_arg(st1, 'cf') == dict_lookup(stuff, key), vf_arg(st1, 'cf') != 0,
                        vf_arg(st1, 'value') == val, vf_arg(st1, 'data') == c['data'], vf_arg(st1, 'optvarsize') == ov)),
                ('sizing pass: the required size never shrinks (invariant of the summarised loop)',
                 z3.Implies(ov != 0, c.raw(st1, ov, 8) >= c.raw(st0, ov, 8))),
                ('the sizing pass converts nothing (invariant of the summarised loop)', z3.Implies(ov != 0, cfo_unchanged(c))),
                ('optvarsize stays a valid slot', z3.Implies(ov != 0, c.valid(ov, 8)))]

    def post_return(self, c):
        st1 = c.new
        stuff = F(c, c.old, c['ct'], 'ct_stuff')
        key = c.local(st1, 'd_key')
        return [('the loop is left early only with -1 and an exception', z3.And(c.result == BV(-1, 32), st1.err != 0)),
                ('an unknown field name is a KeyError; otherwise the field conversion failed',
                 z3.Or(z3.And(dict_lookup(stuff, key) == 0, st1.err == exc(c.ex, 'KeyError')),
                       vf_calls(st1) == vf_calls(c.old) + 1))]


R.add(DictLoop)


# ---------------------------------------------------------------------------------------------------------------
# ffi.new

def newp_parts(c, st):
    ct = c['ct']
    fl = F(c, st, ct, 'ct_flags')
    item = F(c, st, ct, 'ct_itemdescr')
    ifl = F(c, st, item, 'ct_flags')
    return {'ct': ct, 'fl': fl, 'item': item, 'ifl': ifl, 'isize': F(c, st, item, 'ct_size'),
            'size': F(c, st, ct, 'ct_size'), 'imut': F(c, st, item, 'ct_flags_mut'),
            'isptr': (fl & CT_POINTER) != 0, 'isarr': (fl & CT_ARRAY) != 0, 'owned': (fl & CT_IS_PTR_TO_OWNED) != 0,
            'aggr': (ifl & (CT_STRUCT | CT_UNION)) != 0, 'ischar': (ifl & CT_PRIMITIVE_CHAR) != 0}


all_in_scope = R.ghost('initializers_in_scope', B64, B64, z3.BoolSort())
#   ghost predicate (struct type, initializer): every (field, value) pair that convert_struct_from_object's loops visit
#   satisfies the precondition of the loop-body contracts above (values are lists/tuples/bytes/ints, flexible arrays
#   have items that are not zero-sized, no nested struct that itself ends in a flexible array)


class direct_newp_base(Contract):
    """ffi.new(ct, init) with the default allocator: the size of the data area, its zero-filling, and the single
    conversion of `init` into it -- the very call that `p[0] = init` (cdata_ass_sub below) makes.  Verified as three
    cases (pointer to a plain item, pointer to struct/union, array), one contract instance each."""
    function = 'direct_newp'
    case = None

    def default(self, c):
        return z3.And(F(c, c.old, c['allocator'], 'ca_alloc', 'cffi_allocator_t') == 0,
                      F(c, c.old, c['allocator'], 'ca_dont_clear', 'cffi_allocator_t') == 0)

    def pre(self, c):
        st = c.old
        p = newp_parts(c, st)
        init = c['init']
        return [('ct-valid', c.valid(p['ct'], 104)), ('allocator-valid', c.valid(c['allocator'], 24)),
                ('pointer and array types have a valid item type', z3.Implies(z3.Or(p['isptr'], p['isarr']), c.valid(p['item'], 104))),
                ('a ctype has one kind', z3.Not(z3.And(p['isptr'], p['isarr']))),
                ('pointer-to-owned is exactly pointer to struct/union', p['owned'] == z3.And(p['isptr'], p['aggr'])),
                ('init-valid', c.valid(init, 24)), ('None is not an int, list, tuple or bytes', _none_facts(c, st)),
                ('a type is a subclass of at most one builtin kind', kind_flags_exclusive(c, st, init)),
                ('container sizes are sane', z3.And(seq_size(c, st, init) >= 0, seq_size(c, st, init) < BV(1 << 60, 64))),
                ('type sizes are below 2^46 (A-ALLOC)', z3.And(p['isize'] < ALLOC_MAX / 2, p['size'] < ALLOC_MAX)),
                ('an array type of known length has size length*itemsize >= 0',
                 z3.Implies(z3.And(p['isarr'], p['size'] >= 0), p['isize'] >= 0)),
                ('no-pending-exception', st.err == 0)]

    def zero_cases(self, c, open_arr, isint):
        """an exhaustive case split for the (quantified) zero-fill clause"""
        T, Fl = z3.BoolVal(True), z3.BoolVal(False)
        if self.case != 'array':
            return [('any', [])]
        isb = has_flag(c, c.old, c['init'], TPFLAGS_BYTES)
        return [('array of known length', [(open_arr, Fl)]),
                ('open array, int length', [(open_arr, T), (isint, T)]),
                ('open array, bytes', [(open_arr, T), (isint, Fl), (isb, T)]),
                ('open array, list or tuple', [(open_arr, T), (isint, Fl), (isb, Fl)])]

    def n_len(self, c):
        st0, init = c.old, c['init']
        return z3.If(is_long(c, st0, init), z3.Extract(63, 0, int_w(init)),
                     z3.If(has_flag(c, st0, init, TPFLAGS_BYTES), seq_size(c, st0, init) + 1, seq_size(c, st0, init)))

    def in_scope(self, c):
        st = c.old
        p = newp_parts(c, st)
        init = c['init']
        kinds = z3.Or(has_flag(c, st, init, TPFLAGS_LIST), has_flag(c, st, init, TPFLAGS_TUPLE),
                      has_flag(c, st, init, TPFLAGS_BYTES), is_long(c, st, init))
        case = {'plain': z3.And(p['isptr'], z3.Not(p['aggr'])), 'struct': z3.And(p['isptr'], p['aggr']),
                'array': p['isarr']}[self.case]
        return z3.And(self.default(c), case,
                      z3.Implies(p['aggr'], z3.And(F(c, st, p['item'], 'ct_lazy_field_list') == 0,
                                                   all_in_scope(p['item'], init))),
                      # an array of unknown length takes its length from a list, tuple, bytes or int
                      z3.Implies(z3.And(p['isarr'], p['size'] < 0), z3.And(kinds, p['isize'] > 0)))

    def scope(self, c):
        p = newp_parts(c, c.old)
        return [('default allocator; ABI-mode item type; open arrays sized by a list, tuple, bytes or int; case: ' + self.case,
                 self.in_scope(c)),
                ('instance of lemma mul_tdiv_overflow (Lean: lemmas/Arith.lean) for the overflow test of length*itemsize',
                 A.mul_tdiv_overflow(self.n_len(c), p['isize']))]

    def frame(self, c):
        return Frame(all_raw=True, all_fields=True, err=True, ghost=CFO + [EVENTS])

    def witness(self, c):
        p = newp_parts(c, c.old)
        return {'ct_flags': p['fl'], 'item_flags': p['ifl'], 'item_size': p['isize'], 'ct_size': p['size'],
                'item_flags_mut': p['imut'], 'init_is_none': b2i(c['init'] == none(c), 8),
                'init_len': seq_size(c, c.old, c['init']), 'init_int_sat80': int_w(c['init'])}

    def post(self, c):
        st0, st1 = c.old, c.new
        p = newp_parts(c, st0)
        sc = self.in_scope(c)
        r = c.result
        ok = r != 0
        init = c['init']
        data = F(c, st1, r, 'c_data', 'CDataObject')
        var_struct = z3.And(p['isptr'], p['aggr'], (p['imut'] & CT_WITH_VAR_ARRAY) != 0)
        open_arr = z3.And(p['isarr'], p['size'] < 0)
        isint = is_long(c, st0, init)
        # the value handed to the conversion: an integer length for an open array is consumed (None: nothing to copy)
        init_eff = z3.If(z3.And(open_arr, isint), none(c), init)
        called = g(st1, 'cfo_count') == g(st0, 'cfo_count') + 1
        n_len = self.n_len(c)
        datasize = c.local(st1, 'datasize')
        small = z3.And(datasize >= 0, datasize < ALLOC_MAX)
        plain = z3.And(z3.Not(var_struct), z3.Not(open_arr))
        expect_plain = z3.If(p['isptr'], z3.If(p['ischar'], p['isize'] * 2, p['isize']), p['size'])
        before = z3.If(init_eff != none(c), g(st1, 'cfo_raw_before'), st1.raw)
        structobj = F(c, st1, r, 'structobj', 'CDataObject_own_structptr')
        W = 130
        wide = z3.SignExt(W - 64, n_len) * z3.SignExt(W - 64, p['isize'])
        out = [
            ('size of the data area: the item (twice for a char item: room for a terminator) or the array',
             z3.Implies(z3.And(sc, ok, plain), datasize == expect_plain)),
            ('with an initializer: exactly one conversion, of init, into the data area, as the item type (pointer) or the array type',
             z3.Implies(z3.And(sc, ok, small, init_eff != none(c)),
                        z3.And(called, g(st1, 'cfo_data') == data, g(st1, 'cfo_init') == init_eff,
                               g(st1, 'cfo_ct') == z3.If(p['isptr'], p['item'], p['ct'])))),
            ('without an initializer (or a bare length): no conversion at all',
             z3.Implies(z3.And(sc, ok, small, init_eff == none(c)), cfo_unchanged(c))),
        ] + [
            ('the data area is all zero when the conversion starts (or on return if there is none) [%s]' % lab,
             z3.Implies(z3.And(sc, ok, small), zero_region(before, data, datasize)), CaseOf(pairs))
            for lab, pairs in self.zero_cases(c, open_arr, isint)
        ] + [
            ('failure only with an exception', z3.Implies(z3.And(sc, z3.Not(ok)), st1.err != 0)),
            # (quantifier-free companion of the zero-fill clause: decidable also when it fails)
            ('the data area comes from exactly one allocation, made with the allocator given and with clearing on',
             z3.Implies(z3.And(sc, ok, small),
                        z3.And(st1.gvar('tmp:calls:allocate_with_allocator', B64) == st0.gvar('tmp:calls:allocate_with_allocator', B64) + 1,
                               F(c, st1, st1.gvar('tmp:arg:allocate_with_allocator:allocator', B64), 'ca_dont_clear', 'cffi_allocator_t') == 0,
                               F(c, st1, st1.gvar('tmp:arg:allocate_with_allocator:allocator', B64), 'ca_alloc', 'cffi_allocator_t') == 0,
                               st1.gvar('tmp:arg:allocate_with_allocator:datasize', B64) == datasize))),
        ]
        if self.case == 'array':
            out += [('size of the data area of an open array: length * itemsize, and the length is stored',
                     z3.Implies(z3.And(sc, ok, open_arr), z3.And(datasize == n_len * p['isize'],
                                                                 F(c, st1, r, 'length', 'CDataObject_own_length') == n_len))),
                    ('an open array whose size does not fit a Py_ssize_t: OverflowError (or the bad length was refused)',
                     z3.Implies(z3.And(sc, open_arr, n_len > 0, z3.Or(has_flag(c, st0, init, TPFLAGS_LIST), has_flag(c, st0, init, TPFLAGS_TUPLE),
                                                                      has_flag(c, st0, init, TPFLAGS_BYTES), fits_ssize(int_w(init))),
                                       z3.Not(wide <= z3.BitVecVal((1 << 63) - 1, W))),
                                z3.And(z3.Not(ok), st1.err == exc(c.ex, 'OverflowError'))))]
        if self.case == 'struct':
            out += [('a struct ending in a flexible array: at least the struct, and sizeof(p[0]) will report the allocated size',
                     z3.Implies(z3.And(sc, ok, small, var_struct),
                                z3.And(datasize >= p['isize'], F(c, st1, structobj, 'length', 'CDataObject_own_length') == datasize))),
                    ('the returned pointer views the data of the owning struct object',
                     z3.Implies(z3.And(sc, ok, small), data == F(c, st1, structobj, 'c_data', 'CDataObject')))]
        return out

    def post_witness(self, c):
        return {'datasize': c.local(c.new, 'datasize'), 'dataoffset': c.local(c.new, 'dataoffset')}


NEWP_CASES = []
for _case in ('plain', 'struct', 'array'):
    _K = type('direct_newp_' + _case, (direct_newp_base,), {'case': _case, 'name': 'direct_newp#' + _case})
    R.add(_K)
    NEWP_CASES.append('direct_newp#' + _case)


@R.add
class _cdata_var_byte_size(Contract):
    name = '_cdata_var_byte_size'
    pure = True

    def pre(self, c):
        st = c.old
        cd = c['cd']
        ct = F(c, st, cd, 'c_type', 'CDataObject')
        so = F(c, st, cd, 'structobj', 'CDataObject_own_structptr')
        return [('cd-valid', z3.And(c.valid(cd, 64), c.valid(ct, 104))),
                ('a pointer-to-owned cdata holds a valid struct object',
                 z3.Implies((F(c, st, ct, 'ct_flags') & CT_IS_PTR_TO_OWNED) != 0,
                            z3.And(c.valid(so, 64), c.valid(F(c, st, so, 'c_type', 'CDataObject'), 104))))]

    def post(self, c):
        st = c.old
        cd = c['cd']
        t = py_type(c, st, cd)
        own = z3.Or(t == c.ex.global_addr('CDataOwning_Type'), t == c.ex.global_addr('CDataOwningGC_Type'))
        ct = F(c, st, cd, 'c_type', 'CDataObject')
        so = F(c, st, cd, 'structobj', 'CDataObject_own_structptr')
        tgt = z3.If((F(c, st, ct, 'ct_flags') & CT_IS_PTR_TO_OWNED) != 0, so, cd)
        tct = F(c, st, tgt, 'c_type', 'CDataObject')
        var = (F(c, st, tct, 'ct_flags_mut') & CT_WITH_VAR_ARRAY) != 0
        return [('an owning struct cdata with a flexible array: the allocated size stored at ffi.new time',
                 z3.Implies(z3.And(own, var), c.result == F(c, st, tgt, 'length', 'CDataObject_own_length'))),
                ('anything else: -1', z3.Implies(z3.Not(z3.And(own, var)), c.result == BV(-1, 64)))]


@R.add
class direct_sizeof_cdata(Contract):
    name = 'direct_sizeof_cdata'
    pure = True

    def pre(self, c):
        st = c.old
        cd = c['cd']
        ct = F(c, st, cd, 'c_type', 'CDataObject')
        return [('cd-valid', z3.And(c.valid(cd, 64), c.valid(ct, 104))),
                ('a struct cdata is not a pointer-to-owned nor an array (a ctype has one kind)',
                 z3.Implies((F(c, st, ct, 'ct_flags') & (CT_STRUCT | CT_UNION)) != 0,
                            (F(c, st, ct, 'ct_flags') & (CT_IS_PTR_TO_OWNED | CT_ARRAY)) == 0))]

    def witness(self, c):
        st = c.old
        cd = c['cd']
        ct = F(c, st, cd, 'c_type', 'CDataObject')
        return {'flags': F(c, st, ct, 'ct_flags'), 'mut': F(c, st, ct, 'ct_flags_mut'), 'size': F(c, st, ct, 'ct_size'),
                'length': F(c, st, cd, 'length', 'CDataObject_own_length'), 'pytype': py_type(c, st, cd),
                'owning': c.ex.global_addr('CDataOwning_Type')}

    def scope(self, c):
        ct = F(c, c.old, c['cd'], 'c_type', 'CDataObject')
        return [('a struct or union cdata (p[0])', (F(c, c.old, ct, 'ct_flags') & (CT_STRUCT | CT_UNION)) != 0)]

    def post(self, c):
        st = c.old
        cd = c['cd']
        t = py_type(c, st, cd)
        own = z3.Or(t == c.ex.global_addr('CDataOwning_Type'), t == c.ex.global_addr('CDataOwningGC_Type'))
        ct = F(c, st, cd, 'c_type', 'CDataObject')
        aggr = (F(c, st, ct, 'ct_flags') & (CT_STRUCT | CT_UNION)) != 0
        var = (F(c, st, ct, 'ct_flags_mut') & CT_WITH_VAR_ARRAY) != 0
        length = F(c, st, cd, 'length', 'CDataObject_own_length')
        return [('sizeof(p[0]) of an owning struct with a flexible array is the size allocated by ffi.new',
                 z3.Implies(z3.And(aggr, own, var, length >= 0), c.result == length)),
                ('sizeof of any other struct cdata is the size of its type',
                 z3.Implies(z3.And(aggr, z3.Not(z3.And(own, var))), c.result == F(c, st, ct, 'ct_size')))]


class cdata_ass_sub_accepted(Contract):
    """x[i] = v with an accepted integer index: exactly the conversion convert_from_object(address of item i, item
    type, v) -- for p = ffi.new('T *') and i = 0 the same call, on the same zero bytes, that ffi.new('T *', v) makes"""
    name = 'cdata_ass_sub#accepted'
    function = 'cdata_ass_sub'

    def pre(self, c):
        return R0.contracts['cdata_ass_sub'].pre(c)

    def scope(self, c):
        return R0.contracts['cdata_ass_sub'].scope(c) + [('a value is given (not `del x[i]`)', c['v'] != 0)]

    def frame(self, c):
        return Frame(all_raw=True, err=True, ghost=CFO)

    def post(self, c):
        from .index import arr_len, item_size, is_owning, CT_FLAGS
        from .cast import cdata_fields
        from .base import W
        st = c.old
        cd = c['cd']
        ct, data = cdata_fields(c, st, cd)
        fl = CT_FLAGS(c, st, ct)
        isarr, isptr = flag(fl, CT_ARRAY), flag(fl, CT_POINTER)
        w = int_w(c['key'])
        n, z = arr_len(c, st, cd), item_size(c, st, cd)
        in_arr = z3.And(w >= wv(0), w < z3.SignExt(W - 64, n))
        own = is_owning(c, st, cd)
        accepted = z3.If(isarr, in_arr, z3.If(isptr, z3.If(own, w == wv(0), z3.And(fits_ssize(w), data != 0)), z3.BoolVal(False)))
        item = F(c, st, ct, 'ct_itemdescr')
        return [('accepted index: exactly one conversion, of v, into item i, as the item type',
                 z3.Implies(accepted, z3.And(g(c.new, 'cfo_count') == g(c.old, 'cfo_count') + 1,
                                             g(c.new, 'cfo_data') == data + z3.Extract(63, 0, w) * z,
                                             g(c.new, 'cfo_ct') == item, g(c.new, 'cfo_init') == c['v'],
                                             g(c.new, 'cfo_raw_before') == c.old.raw))),
                ('rejected index: no conversion', z3.Implies(z3.Not(accepted), cfo_unchanged(c)))]


R.add(cdata_ass_sub_accepted)
C20_FUNCS = ['allocate_owning_object', 'allocate_with_allocator', 'get_new_array_length', 'add_varsize_length',
             'convert_vfield_from_object', 'convert_struct_from_object', 'convert_struct_from_object#list-loop',
             'convert_struct_from_object#dict-loop'] + NEWP_CASES + ['_cdata_var_byte_size', 'direct_sizeof_cdata',
                                                                     'cdata_ass_sub#accepted']
