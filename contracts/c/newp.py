"""Contracts for ffi.new (C20): allocate_owning_object, allocate_with_allocator, get_new_array_length,
add_varsize_length, convert_vfield_from_object, one iteration of convert_struct_from_object's list loop, direct_newp,
and the accepted branch of item assignment (cdata_ass_sub) -- in a registry forked from the shared one, in which
convert_from_object is a *recording* contract: each call leaves (count, data, ctype, value, byte heap before the
call) in ghost variables, so that "ffi.new(T, init) leaves exactly the bytes of ffi.new(T) followed by p[0] = init"
becomes: both run the same convert_from_object call on the same all-zero bytes.
"""
import z3

from . import allc                     # noqa: F401  (everything registered before the fork)
from .base import (R as R0, BV, B64, B8, Contract, Frame, Ctx, LoopSpec, exc, b2i, py_type, is_long, int_w, wv,
                   has_flag, TPFLAGS_LIST, TPFLAGS_TUPLE, TPFLAGS_BYTES, TPFLAGS_UNICODE, TPFLAGS_DICT, pyint_axiom,
                   kind_flags_exclusive)
from .ints import (flag, CT_POINTER, CT_ARRAY, CT_STRUCT, CT_UNION, CT_PRIMITIVE_CHAR, CT_IS_PTR_TO_OWNED)
from .index import fits_ssize
from .layout import F, s64, CF, CT, events, EVENTS
from vf.cexec import Exec, NotSupported
from vf.cfront import line_of
from specs import arith as A

R = R0.fork()
RAW = z3.ArraySort(B64, B8)
CT_WITH_VAR_ARRAY = 2                  # in ct_flags_mut
BF_IGNORE_IN_CTOR = 1
BOUND = 1 << 55
OWN_NOLEN, OWN_LEN, OWN_STRUCTPTR = 48, 64, 48     # offsetof(.., alignment) / sizeof: checked by obligations below
for _k, _s in (('cfo_count', B64), ('cfo_data', B64), ('cfo_ct', B64), ('cfo_init', B64), ('cfo_raw_before', RAW)):
    Exec.GHOST_SORTS[_k] = _s
CFO = ['cfo_count', 'cfo_data', 'cfo_ct', 'cfo_init', 'cfo_raw_before']


def g(st, key):
    return st.gvar(key, Exec.GHOST_SORTS[key])


def none(c):
    return c.ex.global_addr('_Py_NoneStruct')


def zero_region(raw, lo, n):
    a = z3.BitVec('a!z', 64)
    return z3.ForAll([a], z3.Implies(z3.And(z3.ULE(lo, a), z3.ULT(a, lo + n)), z3.Select(raw, a) == 0))


@R.model('calloc', "returns a fresh region of n*m bytes, all zero (allocation succeeds: A-ALLOC)")
def _calloc(ex, st, args, n):
    size = args[0] * args[1]
    p = ex.alloc(st, size, 'calloc')
    a = z3.BitVec('a!cz', 64)
    old = st.raw
    st.raw = z3.Lambda([a], z3.If(z3.And(z3.ULE(p, a), z3.ULT(a, p + size)), BV(0, 8), z3.Select(old, a)))
    return p


class convert_from_object_rec(Contract):
    """RECORDING contract (trace abstraction, not a functional contract): the conversion writes bytes and may set an
    exception; it does not change ctype / cdata headers (values that run arbitrary code through __int__ etc. are
    outside the scope).  What the call was made with, and the byte heap it found, are kept in ghost variables."""
    name = 'convert_from_object'
    trusted = True

    def frame(self, c):
        return Frame(all_raw=True, err=True, ghost=CFO)

    def post(self, c):
        return [('recorded', z3.And(g(c.new, 'cfo_count') == g(c.old, 'cfo_count') + 1,
                                    g(c.new, 'cfo_data') == c['data'], g(c.new, 'cfo_ct') == c['ct'],
                                    g(c.new, 'cfo_init') == c['init'], g(c.new, 'cfo_raw_before') == c.old.raw)),
                ('failure is -1 with an exception', z3.And(z3.Or(c.result == 0, c.result == BV(-1, 32)),
                                                           z3.Implies(c.result != 0, c.new.err != 0)))]


R.add(convert_from_object_rec)


def cfo_unchanged(c):
    return z3.And(*[g(c.new, k) == g(c.old, k) for k in CFO])


@R.add
class allocate_owning_object(Contract):
    name = 'allocate_owning_object'

    def pre(self, c):
        return [('size covers the header', z3.And(c['size'] >= 40, c['size'] < 2 * BOUND)), ('ct-valid', c.valid(c['ct'], 104))]

    def frame(self, c):
        return Frame()

    def allocates(self, c):
        return [(c.result, c['size'])]

    def post(self, c):
        r = c.result
        return [('a new owning cdata of the given type', z3.And(r != 0, py_type(c, c.new, r) == c.ex.global_addr('CDataOwning_Type'),
                                                                F(c, c.new, r, 'c_type', 'CDataObject') == c['ct'])),
                ('unless dont_clear, every byte of the object is zero (calloc)',
                 z3.Implies(c['dont_clear'] == 0, zero_region(c.new.raw, r, c['size'])))]


@R.add
class allocate_with_allocator(Contract):
    name = 'allocate_with_allocator'

    def default(self, c):
        return F(c, c.old, c['allocator'], 'ca_alloc', 'cffi_allocator_t') == 0

    def pre(self, c):
        return [('sizes', z3.And(c['basesize'] >= 40, c['basesize'] <= 64, c['datasize'] >= 0, c['datasize'] < BOUND)),
                ('ct-valid', c.valid(c['ct'], 104)), ('allocator-valid', c.valid(c['allocator'], 24))]

    def scope(self, c):
        return [('the default allocator (ffi.new; ffi.new_allocator() objects call user code)', self.default(c))]

    def frame(self, c):
        return Frame(err=True, havoc_if=z3.Not(self.default(c)))

    def allocates(self, c):
        return [(c.result, c['basesize'] + c['datasize'])]

    def post(self, c):
        r = c.result
        d = self.default(c)
        clear = F(c, c.old, c['allocator'], 'ca_dont_clear', 'cffi_allocator_t') == 0
        return [('a new owning cdata whose data area of datasize bytes follows the header',
                 z3.Implies(d, z3.And(r != 0, F(c, c.new, r, 'c_type', 'CDataObject') == c['ct'],
                                      F(c, c.new, r, 'c_data', 'CDataObject') == r + c['basesize'],
                                      py_type(c, c.new, r) == c.ex.global_addr('CDataOwning_Type'),
                                      c.new.err == c.old.err))),
                ('the data area is zero-filled', z3.Implies(z3.And(d, clear), zero_region(c.new.raw, r + c['basesize'], c['datasize'])))]


def seq_size(c, st, o):
    return F(c, st, o, 'ob_size', 'PyVarObject')


@R.add
class _my_PyUnicode_SizeAsChar32(Contract):
    name = '_my_PyUnicode_SizeAsChar32'
    trusted = True
    pure = True

    def post(self, c):
        return [('number of code points', z3.And(c.result >= 0, c.result < BV(1 << 31, 64)))]


@R.add
class get_new_array_length(Contract):
    """the length of the array that an initializer asks for: len(list/tuple), len(bytes)+1, units(str)+1, or the
    integer itself -- in which case *pvalue becomes None (nothing to copy)"""
    name = 'get_new_array_length'

    def kinds(self, c, st):
        v = c.raw(st, c['pvalue'], 8)
        return v, z3.Or(has_flag(c, st, v, TPFLAGS_LIST), has_flag(c, st, v, TPFLAGS_TUPLE)), \
            has_flag(c, st, v, TPFLAGS_BYTES), has_flag(c, st, v, TPFLAGS_UNICODE), is_long(c, st, v)

    def pre(self, c):
        v, isseq, isbytes, isstr, isint = self.kinds(c, c.old)
        return [('pvalue-valid', c.valid(c['pvalue'], 8)), ('value-valid', c.valid(v, 24)),
                ('item-type-valid', c.valid(c['ctitem'], 104)),
                ('a type is a subclass of at most one builtin kind', kind_flags_exclusive(c, c.old, v)),
                ('container sizes are sane', z3.And(seq_size(c, c.old, v) >= 0, seq_size(c, c.old, v) < BV(1 << 60, 64))),
                ('no-pending-exception', c.old.err == 0)]

    def scope(self, c):
        v, isseq, isbytes, isstr, isint = self.kinds(c, c.old)
        return [('initializer is a list, tuple, bytes or int (str lengths: C15)', z3.Or(isseq, isbytes, isint))]

    def frame(self, c):
        v, isseq, isbytes, isstr, isint = self.kinds(c, c.old)
        return Frame(raw=[(c['pvalue'], 8)], err=True, havoc_if=z3.Not(z3.Or(isseq, isbytes, isint)))

    def post(self, c):
        v, isseq, isbytes, isstr, isint = self.kinds(c, c.old)
        v1 = c.raw(c.new, c['pvalue'], 8)
        w = int_w(v)
        return [('list/tuple: its length, the initializer is kept',
                 z3.Implies(isseq, z3.And(c.result == seq_size(c, c.old, v), v1 == v, c.new.err == 0))),
                ('bytes: its length plus the terminator', z3.Implies(isbytes, z3.And(c.result == seq_size(c, c.old, v) + 1,
                                                                                 v1 == v, c.new.err == 0))),
                ('a non-negative int n that fits: n, and there is nothing to copy (None)',
                 z3.Implies(z3.And(isint, w >= wv(0), fits_ssize(w)),
                            z3.And(c.result == z3.Extract(63, 0, w), v1 == none(c), c.new.err == 0))),
                ('a negative or huge int: -1 and an exception',
                 z3.Implies(z3.And(isint, z3.Not(z3.And(w >= wv(0), fits_ssize(w)))),
                            z3.And(c.result == BV(-1, 64), c.new.err != 0, v1 == v)))]


@R.add
class add_varsize_length(Contract):
    name = 'add_varsize_length'

    def pre(self, c):
        return [('optvarsize-valid', c.valid(c['optvarsize'], 8)),
                ('offset and item size are those of a laid-out member', z3.And(c['offset'] >= 0, c['offset'] < BOUND,
                                                                            c['itemsize'] >= 0, c['itemsize'] < BOUND)),
                ('length >= 0', c['varsizelength'] >= 0), ('no-pending-exception', c.old.err == 0)]

    def scope(self, c):
        return [('items are not zero-sized (the overflow test divides by the item size: recorded divergence)',
                 c['itemsize'] > 0)]

    def frame(self, c):
        return Frame(raw=[(c['optvarsize'], 8)], err=True, havoc_if=c['itemsize'] <= 0)

    def witness(self, c):
        return {'offset': c['offset'], 'itemsize': c['itemsize'], 'length': c['varsizelength'],
                'size_before': c.raw(c.old, c['optvarsize'], 8)}

    def post(self, c):
        off, z, n = c['offset'], c['itemsize'], c['varsizelength']
        W = 130
        wide = z3.SignExt(W - 64, off) + z3.SignExt(W - 64, z) * z3.SignExt(W - 64, n)
        fits = wide <= z3.BitVecVal((1 << 63) - 1, W)
        o0, o1 = c.raw(c.old, c['optvarsize'], 8), c.raw(c.new, c['optvarsize'], 8)
        need = off + z * n
        sc = z > 0
        return [('accepted exactly when offset + itemsize*length fits a Py_ssize_t',
                 z3.Implies(sc, (c.result == 0) == fits), [A.mul_tdiv_overflow(z, n, W)]),
                ('accepted: the required size is the larger of the old one and offset + itemsize*length',
                 z3.Implies(z3.And(sc, c.result == 0), z3.And(o1 == z3.If(need > o0, need, o0), c.new.err == 0)),
                 [A.mul_tdiv_overflow(z, n, W)]),
                ('rejected: OverflowError, size untouched',
                 z3.Implies(z3.And(sc, c.result != 0), z3.And(c.result == BV(-1, 32), o1 == o0,
                                                              c.new.err == exc(c.ex, 'OverflowError'))))]


# ---------------------------------------------------------------------------------------------------------------
# fields

class convert_from_object_bitfield_any(Contract):
    """bit-field stores are C02's subject; here only: writes bytes, may set an exception"""
    name = 'convert_from_object_bitfield'
    trusted = True

    def frame(self, c):
        return Frame(all_raw=True, err=True)

    def post(self, c):
        return [('0 or -1 with an exception', z3.And(z3.Or(c.result == 0, c.result == BV(-1, 32)),
                                                      z3.Implies(c.result != 0, c.new.err != 0)))]


R.add(convert_from_object_bitfield_any)
R.contracts.pop('convert_field_from_object', None)
R.inline = set(R.inline) | {'convert_field_from_object'}


obj_extent = R.ghost('obj_extent', B64, B64)     # ghost argument: the size of the object that `data` points to


def is_cdata_obj(c, st, o):
    t = py_type(c, st, o)
    return z3.Or(*[t == c.ex.global_addr(n) for n in ('CData_Type', 'CDataOwning_Type', 'CDataOwningGC_Type',
                                                       'CDataFromBuf_Type', 'CDataGCP_Type')])


def field_parts(c, st, cf):
    ft = F(c, st, cf, 'cf_type', CF)
    return {'ft': ft, 'off': F(c, st, cf, 'cf_offset', CF), 'shift': F(c, st, cf, 'cf_bitshift', CF),
            'flags': F(c, st, ft, 'ct_flags'), 'size': F(c, st, ft, 'ct_size'),
            'item': F(c, st, ft, 'ct_itemdescr'), 'mut': F(c, st, ft, 'ct_flags_mut')}


@R.add
class convert_struct_from_object(Contract):
    """function level (its list loop is verified one iteration at a time below; the dict loop is summarised):
    the sizing pass never shrinks the required size"""
    name = 'convert_struct_from_object'

    def _inv(self, c, st):
        ov = c['optvarsize']
        return [('the required size never shrinks',
                 z3.Implies(ov != 0, c.raw(st, ov, 8) >= c.raw(c.old, ov, 8))),
                ('optvarsize stays a valid slot', z3.Implies(ov != 0, c.valid(ov, 8)))]

    loops = property(lambda self: {0: LoopSpec(invariant=self._inv, summarise=True, assume_exit=True),
                                   1: LoopSpec(invariant=lambda c, st: [], summarise=True),     # while (cf ... IGNORE)
                                   2: LoopSpec(invariant=self._inv, summarise=True, assume_exit=True)})

    def pre(self, c):
        ov = c['optvarsize']
        return [('ct-valid', c.valid(c['ct'], 104)), ('init-valid', c.valid(c['init'], 24)),
                ('optvarsize NULL or valid', z3.Or(ov == 0, c.valid(ov, 8)))]

    def frame(self, c):
        return None

    def post(self, c):
        ov = c['optvarsize']
        return [('sizing pass: the required size never shrinks',
                 z3.Implies(z3.And(ov != 0, c.result == 0), c.raw(c.new, ov, 8) >= c.raw(c.old, ov, 8))),
                ('failure is -1 with an exception', z3.And(z3.Or(c.result == 0, c.result == BV(-1, 32))))]


@R.add
class convert_vfield_from_object(Contract):
    name = 'convert_vfield_from_object'

    def parts(self, c):
        st = c.old
        p = field_parts(c, st, c['cf'])
        p['vararr'] = z3.And((p['flags'] & CT_ARRAY) != 0, p['size'] < 0)
        p['z'] = F(c, st, p['item'], 'ct_size')
        v = c['value']
        p['isseq'] = z3.Or(has_flag(c, st, v, TPFLAGS_LIST), has_flag(c, st, v, TPFLAGS_TUPLE))
        p['isbytes'] = has_flag(c, st, v, TPFLAGS_BYTES)
        p['isint'] = is_long(c, st, v)
        p['sizing'] = c['optvarsize'] != 0
        return p

    def pre(self, c):
        st = c.old
        p = self.parts(c)
        v = c['value']
        ov = c['optvarsize']
        return [('field-valid', z3.And(c.valid(c['cf'], 48), c.valid(p['ft'], 104))),
                ('value-valid', c.valid(v, 24)),
                ('a type is a subclass of at most one builtin kind', kind_flags_exclusive(c, st, v)),
                ('an array type has a valid item type', z3.Implies((p['flags'] & CT_ARRAY) != 0, c.valid(p['item'], 104))),
                ('container sizes are sane', z3.And(seq_size(c, st, v) >= 0, seq_size(c, st, v) < BV(1 << 60, 64))),
                ('optvarsize NULL or valid', z3.Or(ov == 0, c.valid(ov, 8))),
                ('the field was laid out: 0 <= offset, item size', z3.And(p['off'] >= 0, p['off'] < BOUND,
                                                                        z3.Implies(p['vararr'], z3.And(p['z'] >= 0, p['z'] < BOUND)))),
                ('None is not an int, list, tuple or bytes',
                 z3.And(z3.Not(is_long(c, st, none(c))), c.valid(none(c), 24),
                        *[z3.Not(has_flag(c, st, none(c), fl)) for fl in (TPFLAGS_LIST, TPFLAGS_TUPLE, TPFLAGS_BYTES)])),
                ('real pass: data points to the object being initialised (ghost extent obj_extent(data))',
                 z3.Implies(ov == 0, z3.And(c.valid(c['data'], obj_extent(c['data'])), obj_extent(c['data']) < BOUND))),
                ('no-pending-exception', st.err == 0)]

    def in_scope(self, c):
        p = self.parts(c)
        return z3.And(p['shift'] < 0,                                          # not a bit-field (C02)
                      z3.Implies(p['vararr'], z3.And(z3.Or(p['isseq'], p['isbytes'], p['isint']), p['z'] > 0)),
                      z3.Implies(p['sizing'], (p['mut'] & CT_WITH_VAR_ARRAY) == 0))   # nested var-sized structs: recursion

    def scope(self, c):
        return [('ordinary field; a flexible array is initialised from a list, tuple, bytes or a length', self.in_scope(c))]

    def converts(self, c):
        """the call ends in the conversion that a field assignment performs"""
        p = self.parts(c)
        return z3.And(z3.Not(p['sizing']), z3.Not(z3.And(p['vararr'], p['isint'])))

    def frame(self, c):
        p = self.parts(c)
        return Frame(raw=[(c['optvarsize'], z3.If(z3.And(p['sizing'], p['vararr']), BV(8, 64), BV(0, 64)))],
                     all_raw_if=self.converts(c), err=True, ghost=CFO, havoc_if=z3.Not(self.in_scope(c)))

    def witness(self, c):
        p = self.parts(c)
        return {'cf_offset': p['off'], 'itemsize': p['z'], 'sizing_pass': b2i(p['sizing'], 8),
                'flexible': b2i(p['vararr'], 8), 'value_is_int': b2i(p['isint'], 8), 'length_sat80': int_w(c['value']),
                'list_len': seq_size(c, c.old, c['value'])}

    def post(self, c):
        st0, st1 = c.old, c.new
        p = self.parts(c)
        sc = self.in_scope(c)
        v, ov = c['value'], c['optvarsize']
        w = int_w(v)
        n_len = z3.If(p['isseq'], seq_size(c, st0, v),
                      z3.If(p['isbytes'], seq_size(c, st0, v) + 1, z3.Extract(63, 0, w)))
        len_ok = z3.Or(p['isseq'], p['isbytes'], z3.And(w >= wv(0), fits_ssize(w)))
        o0 = c.raw(st0, ov, 8)
        o1 = c.raw(st1, ov, 8)
        need = p['off'] + p['z'] * n_len
        called = g(st1, 'cfo_count') == g(st0, 'cfo_count') + 1
        a = z3.BitVec('a!obj', 64)
        ext = obj_extent(c['data'])
        return [
            # sizing pass
            ('sizing pass, flexible array member: afterwards the required size covers offset + itemsize*length',
             z3.Implies(z3.And(sc, p['sizing'], p['vararr'], len_ok, c.result == 0),
                        z3.And(o1 == z3.If(need > o0, need, o0), cfo_unchanged(c)))),
            ('sizing pass, any other member: nothing is converted, the required size stays',
             z3.Implies(z3.And(sc, p['sizing'], z3.Not(p['vararr'])), z3.And(c.result == 0, cfo_unchanged(c), st1.err == 0))),
            # real pass
            ('real pass, flexible array given as a length: nothing is converted (the zero-filled memory stays)',
             z3.Implies(z3.And(sc, z3.Not(p['sizing']), p['vararr'], p['isint'], len_ok),
                        z3.And(c.result == 0, cfo_unchanged(c)))),
            ('real pass, otherwise: exactly the conversion that assigning the field performs',
             z3.Implies(z3.And(sc, self.converts(c), z3.Implies(p['vararr'], len_ok)),
                        z3.And(called, g(st1, 'cfo_data') == c['data'] + p['off'], g(st1, 'cfo_ct') == p['ft'],
                               g(st1, 'cfo_init') == v))),
            ('real pass: the conversion finds the object as it was when the call was made',
             z3.Implies(z3.And(sc, self.converts(c), z3.Implies(p['vararr'], len_ok)),
                        z3.ForAll([a], z3.Implies(z3.And(z3.ULE(c['data'], a), z3.ULT(a, c['data'] + ext)),
                                                  z3.Select(g(st1, 'cfo_raw_before'), a) == z3.Select(st0.raw, a))))),
            ('a bad length is refused with an exception',
             z3.Implies(z3.And(sc, p['vararr'], z3.Not(len_ok)), z3.And(c.result == BV(-1, 32), st1.err != 0))),
        ]
