"""Contracts for C14 (callbacks and extern "Python" pass values exactly and contain errors):
general_invoke_callback, prepare_callback_info_tuple.

The conversions themselves are the subject of other checks (convert_to_object: C03/C04/C05/C15; the widening of
callback results, convert_from_object_fficallback: C03).  Here they are *recorded* (trace abstraction): which bytes
are converted as which type, in which order, what the Python function is called with, where its result goes, what
*result holds when something fails, and that no exception is left pending for the C caller.

Ghost sequences (arrays indexed by argument number, assigned at the end of each iteration of the decoding loop):
   cv_ret[i]   the object the i-th conversion returned        cv_data[i] / cv_ct[i]   what it was made from / as
A clause "for every j < n ..." is stated for one arbitrary index J (a free constant): proved for arbitrary J it holds
for all.
"""
import z3

from . import allc                                   # noqa: F401
from .base import R as R0, BV, B64, B8, Contract, Frame, Ctx, LoopSpec, exc, py_type
from .owner import _fetch, _restore
from vf.cexec import Exec
from vf.cfront import line_of

R = R0.fork()
A64 = z3.ArraySort(B64, B64)
RAW = z3.ArraySort(B64, B8)
B32 = z3.BitVecSort(32)
for _k in ('tmp:cv:ret', 'tmp:cv:data', 'tmp:cv:ct'):
    Exec.GHOST_SORTS[_k] = A64
Exec.GHOST_SORTS['tmp:arg:pycall:raw'] = RAW
Exec.GHOST_SORTS['tmp:arg:errfetch:raw'] = RAW
Exec.GHOST_SORTS['tmp:arg:cfo:raw_before'] = RAW
Exec.GHOST_SORTS['tmp:arg:cfo:encode'] = B32
Exec.GHOST_SORTS['tmp:arg:cfo:ret'] = B32
CV = ['tmp:cv:ret', 'tmp:cv:data', 'tmp:cv:ct']
J = z3.BitVec('J!any', 64)             # an arbitrary argument index
K = z3.BitVec('K!any', 64)             # an arbitrary byte offset

R.inline = set(R.inline) | {'_cffi_start_error_capture', '_cffi_stop_error_capture', 'PyTuple_SET_ITEM', '_PyTuple_CAST',
                            'PyTuple_GET_ITEM'}
R.models['PyErr_Fetch'] = _fetch
R.models['PyErr_Restore'] = _restore
R.assumed['PyErr_Fetch'] = "moves the pending exception (class, or NULL) into *ptype and clears the indicator"
R.assumed['PyErr_Restore'] = "sets the error indicator from (type, value, traceback); type NULL clears it"


def g(st, key):
    return st.gvar(key, Exec.GHOST_SORTS.get(key, B64))


R.word_arrays = {'ob_item'}
ITEMS = 'words.ob_item:0:64'
Exec.GHOST_SORTS['tmp:arg:pycall:items'] = A64


def items_of(st):
    """the heap of tuple members (whole words, indexed by member address)"""
    return st if z3.is_expr(st) else st.heap(ITEMS)


def item(c, st, tup, k):
    """member k of a tuple object, in state st (or in a snapshot of the member heap)"""
    k = k if z3.is_bv(k) else BV(k, 64)
    return z3.Select(items_of(st), tup + 24 + 8 * k)


def none(ex):
    return ex.global_addr('_Py_NoneStruct')


# ---------------------------------------------------------------------------------------------------------------
# recorded externals

def immutables(ex, before, st):
    """A-IMMUTABLE: tuples and bytes objects are immutable -- while foreign (Python) code runs, the info tuple, the
    signature tuple of its ctype and the error-value bytes keep their contents.  Stated for the function under
    verification's own info tuple (argument `userdata`), for one arbitrary member / byte (free constants)"""
    if 'userdata' not in ex.args:
        return
    c = Ctx(ex, ex.args, ex.st0, st)
    cb = ex.args['userdata']
    r0, r1 = before.raw, st.raw
    ct = item(c, ex.st0, cb, 0)
    sig = c.field(ex.st0, ct, 'CTypeDescrObject', 'ct_stuff')
    n = c.field(ex.st0, sig, 'PyVarObject', 'ob_size')
    rawerr = item(c, ex.st0, cb, 2)
    size = c.field(ex.st0, rawerr, 'PyVarObject', 'ob_size')
    # (instances only: the members / bytes the obligations speak about -- member 1, the arbitrary member 2+J, the
    #  arbitrary byte K)
    facts = [item(c, st, cb, k) == item(c, before, cb, k) for k in range(4)]
    facts.append(item(c, st, sig, 1) == item(c, before, sig, 1))
    facts.append(z3.Implies(z3.And(J >= 0, J + 2 < n), item(c, st, sig, 2 + J) == item(c, before, sig, 2 + J)))
    facts.append(z3.Implies(z3.And(K >= 0, K < size), z3.Select(r1, rawerr + 32 + K) == z3.Select(r0, rawerr + 32 + K)))
    facts.append(c.field(st, sig, 'PyVarObject', 'ob_size') == c.field(before, sig, 'PyVarObject', 'ob_size'))
    facts.append(c.field(st, rawerr, 'PyVarObject', 'ob_size') == c.field(before, rawerr, 'PyVarObject', 'ob_size'))
    st.assume(z3.And(*facts))

def _conv_to(ex, st, args, n):
    """convert_to_object(data, ct) -- recorded: a new object or NULL with an exception; writes nothing.  (What object:
    C03 / C04 / C05 / C15.)  Count, data, ct and the result are kept in the trace"""
    r = ex.fresh('converted', B64)
    e = ex.fresh('err_convert', B64)
    c = Ctx(ex, {}, st)
    st.assume(z3.Implies(r == 0, e != 0))
    st.assume(z3.Implies(r != 0, c.valid(r, 16)))
    st.err = z3.If(r == 0, e, st.err)
    st.ghost['tmp:calls:conv'] = g(st, 'tmp:calls:conv') + 1
    st.ghost['tmp:arg:conv:data'] = args[0]
    st.ghost['tmp:arg:conv:ct'] = args[1]
    st.ghost['tmp:arg:conv:ret'] = r
    return r


R.models['convert_to_object'] = _conv_to
R.assumed['convert_to_object (recorded)'] = _conv_to.__doc__


def _conv_from_cb(ex, st, args, n):
    """convert_from_object_fficallback(result, ctype, pyobj, encode) -- recorded: 0, or -1 with an exception; may write
    the result buffer (any byte memory may change; the structure of objects does not).  (What it writes: C03.)"""
    r = ex.fresh('cfo_ret', B32)
    e = ex.fresh('err_cfo', B64)
    st.assume(z3.Or(r == 0, r == BV(-1, 32)))
    st.assume(e != 0)
    before = st.copy()
    st.havoc('cfo', raw=True, fields=False, ghost=False, keep_stack=ex.private_stack(args))
    immutables(ex, before, st)
    st.err = z3.If(r == 0, st.err, e)
    st.ghost['tmp:calls:cfo'] = g(st, 'tmp:calls:cfo') + 1
    st.ghost['tmp:arg:cfo:raw_before'] = before.raw
    st.ghost['tmp:arg:cfo:result'] = args[0]
    st.ghost['tmp:arg:cfo:ctype'] = args[1]
    st.ghost['tmp:arg:cfo:pyobj'] = args[2]
    st.ghost['tmp:arg:cfo:encode'] = args[3]
    st.ghost['tmp:arg:cfo:ret'] = r
    return r


R.models['convert_from_object_fficallback'] = _conv_from_cb
R.assumed['convert_from_object_fficallback (recorded)'] = _conv_from_cb.__doc__


@R.model('PyTuple_New', "a new tuple of n members (allocation succeeds: A-ALLOC)")
def _tuple_new(ex, st, args, n):
    size = args[0]
    st.assume(z3.And(size >= 0, size < BV(1 << 20, 64)))
    t = ex.alloc(st, 24 + 8 * size, 'newtuple')
    ex.write_field(st, t, 'PyVarObject', 'ob_size', size)
    return t


@R.model('PyObject_Call', "calls the callable with the argument tuple: arbitrary Python code runs; an object, or NULL with "
                          "an exception.  Count, callable, tuple, keywords, the byte heap as it is at the call and the "
                          "result are kept in the trace")
def _pycall(ex, st, args, n):
    st.ghost['tmp:calls:pycall'] = g(st, 'tmp:calls:pycall') + 1
    st.ghost['tmp:arg:pycall:callable'] = args[0]
    st.ghost['tmp:arg:pycall:args'] = args[1]
    st.ghost['tmp:arg:pycall:kwargs'] = args[2]
    st.ghost['tmp:arg:pycall:raw'] = st.raw
    st.ghost['tmp:arg:pycall:items'] = st.heap(ITEMS)
    st.ghost['tmp:arg:pycall:convs'] = g(st, 'tmp:calls:conv')
    before = st.copy()
    ex.callee_havoc(st, 'pycall', args, keep_records=(ex.tu.parse_type('CTypeDescrObject').name,))      # (A-CTYPE)
    immutables(ex, before, st)
    r = ex.fresh('py_result', B64)
    e = ex.fresh('err_pycall', B64)
    c = Ctx(ex, {}, st)
    st.assume(z3.Implies(r == 0, e != 0))
    st.assume(z3.Implies(r != 0, z3.And(e == 0, c.valid(r, 16))))
    st.err = e
    st.ghost['tmp:arg:pycall:ret'] = r
    return r


_base_memcpy = R.models['memcpy']


def _memcpy_rec(ex, st, args, n):
    """memcpy as in the shared registry; destination, source and length of the latest call are kept in the trace"""
    st.ghost['tmp:calls:memcpy'] = g(st, 'tmp:calls:memcpy') + 1
    st.ghost['tmp:arg:memcpy:dst'], st.ghost['tmp:arg:memcpy:src'], st.ghost['tmp:arg:memcpy:n'] = args
    return _base_memcpy(ex, st, args, n)


R.models['memcpy'] = _memcpy_rec


def _fetch_rec(ex, st, args, n):
    """PyErr_Fetch; the FIRST one on a path also keeps the byte heap as it is then (it is the first thing the error path
    does after storing the error value) and the number of result conversions made so far"""
    st.ghost['tmp:calls:errfetch'] = g(st, 'tmp:calls:errfetch') + 1
    if 'tmp:arg:errfetch:raw' not in st.ghost:
        st.ghost['tmp:arg:errfetch:raw'] = st.raw
        st.ghost['tmp:arg:errfetch:cfo'] = g(st, 'tmp:calls:cfo')
    return _fetch(ex, st, args, n)


R.models['PyErr_Fetch'] = _fetch_rec


@R.model('PyErr_NormalizeException', "may replace the three fetched objects; an exception class stays one; nothing becomes pending")
def _normalize(ex, st, args, n):
    t0 = ex.load_raw(st, args[0], 8)
    t1 = ex.fresh('norm_type', B64)
    st.assume((t1 != 0) == (t0 != 0))
    ex.store_raw(st, args[0], t1, 8)
    ex.store_raw(st, args[1], ex.fresh('norm_value', B64), 8)
    ex.store_raw(st, args[2], ex.fresh('norm_tb', B64), 8)
    return None


@R.model('PyObject_CallFunctionObjArgs', "calls the callable with the given objects: arbitrary Python code runs; an object, or "
                                         "NULL with an exception.  Count, callable, the three arguments and the result are "
                                         "kept in the trace")
def _callobjargs(ex, st, args, n):
    st.ghost['tmp:calls:onerror'] = g(st, 'tmp:calls:onerror') + 1
    st.ghost['tmp:arg:onerror:callable'] = args[0]
    for k in (1, 2, 3):
        st.ghost['tmp:arg:onerror:%d' % k] = args[k] if len(args) > k else BV(0, 64)
    st.ghost['tmp:arg:onerror:cfo'] = g(st, 'tmp:calls:cfo')
    before = st.copy()
    ex.callee_havoc(st, 'onerror', args, keep_records=(ex.tu.parse_type('CTypeDescrObject').name,))     # (A-CTYPE)
    immutables(ex, before, st)
    r = ex.fresh('onerror_result', B64)
    e = ex.fresh('err_onerror', B64)
    c = Ctx(ex, {}, st)
    st.assume(z3.Implies(r == 0, e != 0))
    st.assume(z3.Implies(r != 0, z3.And(e == 0, c.valid(r, 16))))
    st.err = e
    st.ghost['tmp:arg:onerror:ret'] = r
    return r


@R.model('_my_PyErr_WriteUnraisable', "prints the exception it is handed (sys.unraisablehook / stderr: Python code may run) "
                                      "-- assumed: leaves no exception pending")
def _write_unraisable(ex, st, args, n):
    before = st.copy()
    ex.callee_havoc(st, 'unraisable', args, keep_records=(ex.tu.parse_type('CTypeDescrObject').name,))   # (A-CTYPE)
    immutables(ex, before, st)
    st.err = BV(0, 64)
    return None


TRACE = ['tmp:calls:memcpy', 'tmp:arg:memcpy:dst', 'tmp:arg:memcpy:src', 'tmp:arg:memcpy:n', 'tmp:calls:conv', 'tmp:arg:conv:data', 'tmp:arg:conv:ct', 'tmp:arg:conv:ret', 'tmp:calls:cfo', 'tmp:arg:cfo:result',
         'tmp:arg:cfo:ctype', 'tmp:arg:cfo:pyobj', 'tmp:arg:cfo:raw_before', 'tmp:arg:cfo:encode', 'tmp:arg:cfo:ret', 'tmp:calls:pycall',
         'tmp:arg:pycall:callable', 'tmp:arg:pycall:args', 'tmp:arg:pycall:kwargs', 'tmp:arg:pycall:raw', 'tmp:arg:pycall:items', 'tmp:arg:pycall:ret',
         'tmp:arg:pycall:convs', 'tmp:calls:errfetch', 'tmp:arg:errfetch:raw', 'tmp:arg:errfetch:cfo', 'tmp:calls:onerror',
         'tmp:arg:onerror:callable', 'tmp:arg:onerror:1', 'tmp:arg:onerror:2', 'tmp:arg:onerror:3', 'tmp:arg:onerror:cfo',
         'tmp:arg:onerror:ret']


# ---------------------------------------------------------------------------------------------------------------

@R.add
class general_invoke_callback(Contract):
    """what runs when C code calls an ffi.callback() (decode_args_from_libffi = 1: args is libffi's array of pointers)
    or an extern "Python" function (0: args is the block of 8-byte slots the generated C wrapper filled)"""
    name = 'general_invoke_callback'
    replay_labels = ('done',)

    def parts(self, c, st=None):
        st = st or c.old
        cb = c['userdata']
        ct = item(c, st, cb, 0)
        sig = c.field(st, ct, 'CTypeDescrObject', 'ct_stuff')
        n = c.field(st, sig, 'PyVarObject', 'ob_size') - 2
        return {'cb': cb, 'ct': ct, 'sig': sig, 'n': n, 'fn': item(c, st, cb, 1), 'rawerr': item(c, st, cb, 2),
                'onerror': item(c, st, cb, 3), 'res_ct': item(c, st, sig, 1)}

    def src(self, c, raw, j):
        """where argument j is: libffi hands an array of pointers; the extern "Python" wrapper a block of 8-byte slots,
        which hold the value itself or, for long double / struct / union, a pointer to it"""
        p = self.parts(c)
        a_ct = item(c, c.old, p['sig'], 2 + j)
        fl = c.field(c.old, a_ct, 'CTypeDescrObject', 'ct_flags')
        slot = c['args'] + 8 * j
        word = z3.Concat(*[z3.Select(raw, slot + i) for i in range(7, -1, -1)])
        byref = (fl & BV(0x40000 | 0x40 | 0x80, 32)) != 0
        return z3.If(c['decode_args_from_libffi'] != 0, word, z3.If(byref, word, slot)), a_ct

    def pre(self, c):
        st = c.old
        p = self.parts(c)
        size = c.field(st, p['res_ct'], 'CTypeDescrObject', 'ct_size')
        return [('the info tuple (ctype, callable, error bytes, onerror) is valid', c.valid(p['cb'], 24 + 32)),
                ('its ctype is valid', c.valid(p['ct'], 104)),
                ('the signature tuple is valid and holds the ABI, the result type and the argument types',
                 z3.And(p['n'] >= 0, p['n'] < BV(1 << 16, 64), c.valid(p['sig'], 24 + 8 * (p['n'] + 2)))),
                ('the result type is valid', c.valid(p['res_ct'], 104)),
                ('an argument type is valid', z3.Implies(z3.And(J >= 0, J < p['n']), c.valid(item(c, st, p['sig'], 2 + J), 104))),
                ('the error bytes object is valid and holds at least 8 bytes, as many as the result type has',
                 z3.And(c.valid(p['rawerr'], 32 + 8), c.field(st, p['rawerr'], 'PyVarObject', 'ob_size') >= 8,
                        c.field(st, p['rawerr'], 'PyVarObject', 'ob_size') >= size,
                        c.field(st, p['rawerr'], 'PyVarObject', 'ob_size') < BV(1 << 30, 64),
                        c.valid(p['rawerr'] + 32, c.field(st, p['rawerr'], 'PyVarObject', 'ob_size')))),
                ('the result buffer holds a whole ffi_arg and the result type',
                 c.valid(c['result'], z3.If(size > 8, size, BV(8, 64)))),
                ('the argument block is valid', c.valid(c['args'], 8 * p['n'] + 8)),
                ('None is an object', c.valid(none(c.ex), 16)),
                ('no-pending-exception', st.err == 0)]

    def frame(self, c):
        return Frame(all_raw=True, all_fields=True, err=True, trace=TRACE + CV)

    def _inv(self, c, st):
        p = self.parts(c)
        i = c.local(st, 'i')
        n = c.local(st, 'n')
        tup = c.local(st, 'py_args')
        e0 = getattr(c, 'entry', st)
        sj, ctj = self.src(c, st.raw, J)
        return [('bounds', z3.And(i >= 0, i <= n, n == p['n'])),
                ('the tuple under construction', z3.And(tup != 0, tup == c.local(e0, 'py_args'), c.valid(tup, 24 + 8 * n),
                                                        c.field(st, tup, 'PyVarObject', 'ob_size') == n)),
                ('one conversion per argument so far, no exception pending', z3.And(g(st, 'tmp:calls:conv') == g(c.old, 'tmp:calls:conv') + i,
                                                                                    st.err == 0)),
                ('nothing else has happened', z3.And(g(st, 'tmp:calls:pycall') == g(c.old, 'tmp:calls:pycall'),
                                                     g(st, 'tmp:calls:cfo') == g(c.old, 'tmp:calls:cfo'),
                                                     g(st, 'tmp:calls:errfetch') == g(c.old, 'tmp:calls:errfetch'),
                                                     g(st, 'tmp:calls:onerror') == g(c.old, 'tmp:calls:onerror'))),
                ('argument J, if already decoded: converted from its slot, as its declared type, and stored as member J',
                 z3.Implies(z3.And(J >= 0, J < i),
                            z3.And(item(c, st, tup, J) == z3.Select(g(st, 'tmp:cv:ret'), J),
                                   z3.Select(g(st, 'tmp:cv:data'), J) == sj, z3.Select(g(st, 'tmp:cv:ct'), J) == ctj))),
                ('the types of the signature are as at entry (A-CTYPE)',
                 z3.And(c.field(st, p['res_ct'], 'CTypeDescrObject', 'ct_size') == c.field(c.old, p['res_ct'], 'CTypeDescrObject', 'ct_size'),
                        z3.Implies(z3.And(J >= 0, J < p['n']),
                                   c.field(st, ctj, 'CTypeDescrObject', 'ct_flags') == c.field(c.old, ctj, 'CTypeDescrObject', 'ct_flags')))),
                ('the error bytes are as at entry',
                 z3.And(c.field(st, p['rawerr'], 'PyVarObject', 'ob_size') == c.field(c.old, p['rawerr'], 'PyVarObject', 'ob_size'),
                        z3.Implies(z3.And(K >= 0, K < c.field(c.old, p['rawerr'], 'PyVarObject', 'ob_size')),
                                   z3.Select(st.raw, p['rawerr'] + 32 + K) == z3.Select(c.old.raw, p['rawerr'] + 32 + K)))),
                ('the info tuple, the signature and the argument block are as at entry',
                 z3.And(*[item(c, st, p['cb'], k) == item(c, c.old, p['cb'], k) for k in range(4)] +
                        [item(c, st, p['sig'], 1) == item(c, c.old, p['sig'], 1),
                         z3.Implies(z3.And(J >= 0, J < p['n']),
                                    z3.And(item(c, st, p['sig'], 2 + J) == item(c, c.old, p['sig'], 2 + J),
                                           self.src(c, st.raw, J)[0] == self.src(c, c.old.raw, J)[0]))]))]

    def _ghost(self, c, before, after):
        i = c.local(before, 'i')
        return {'tmp:cv:ret': z3.Store(g(after, 'tmp:cv:ret'), i, g(after, 'tmp:arg:conv:ret')),
                'tmp:cv:data': z3.Store(g(after, 'tmp:cv:data'), i, g(after, 'tmp:arg:conv:data')),
                'tmp:cv:ct': z3.Store(g(after, 'tmp:cv:ct'), i, g(after, 'tmp:arg:conv:ct'))}

    loops = property(lambda self: {0: LoopSpec(invariant=self._inv, ghost_update=self._ghost,
                                               trace=['tmp:calls:conv', 'tmp:arg:conv:data', 'tmp:arg:conv:ct', 'tmp:arg:conv:ret'] + CV)})

    def post(self, c):
        st0, st1 = c.old, c.new
        p = self.parts(c)
        d = lambda k: g(st1, k) - g(st0, k)
        called = d('tmp:calls:pycall') == 1
        T = g(st1, 'tmp:arg:pycall:args')
        rawc = g(st1, 'tmp:arg:pycall:items')
        sj, ctj = self.src(c, st0.raw, J)
        pyres = g(st1, 'tmp:arg:pycall:ret')
        failed = g(st1, 'tmp:calls:errfetch') != g(st0, 'tmp:calls:errfetch')
        size = c.field(st0, p['res_ct'], 'CTypeDescrObject', 'ct_size')
        raw_f = g(st1, 'tmp:arg:errfetch:raw')
        has_onerror = p['onerror'] != none(c.ex)
        cfo_after_fetch = g(st1, 'tmp:calls:cfo') - g(st1, 'tmp:arg:errfetch:cfo')
        onerr_ret = g(st1, 'tmp:arg:onerror:ret')
        return [
            ('no Python exception escapes into the C caller', st1.err == 0),
            ('the Python function is called at most once', z3.Or(called, d('tmp:calls:pycall') == 0)),
            ('if it is called: it is the callable of the info tuple, without keywords, with a tuple of exactly n members, '
             'after exactly n conversions',
             z3.Implies(called, z3.And(g(st1, 'tmp:arg:pycall:callable') == p['fn'], g(st1, 'tmp:arg:pycall:kwargs') == 0,
                                       g(st1, 'tmp:arg:pycall:convs') == g(st0, 'tmp:calls:conv') + p['n']))),
            ('if it is called: member J of that tuple is the object converted from argument J\'s slot as argument J\'s '
             'declared type -- exactly its argument values',
             z3.Implies(z3.And(called, J >= 0, J < p['n']),
                        z3.And(item(c, rawc, T, J) == z3.Select(g(st1, 'tmp:cv:ret'), J),
                               z3.Select(g(st1, 'tmp:cv:data'), J) == sj, z3.Select(g(st1, 'tmp:cv:ct'), J) == ctj))),
            ('if it is not called, an argument could not be converted (an error)', z3.Implies(z3.Not(called), failed)),
            ('success: the object Python returned is converted exactly once into *result as the declared result type (with '
             'libffi\'s widening for callbacks), and nothing else touches *result',
             z3.Implies(z3.Not(failed),
                        z3.And(called, pyres != 0, d('tmp:calls:cfo') == 1, g(st1, 'tmp:arg:cfo:result') == c['result'],
                               g(st1, 'tmp:arg:cfo:ctype') == p['res_ct'], g(st1, 'tmp:arg:cfo:pyobj') == pyres,
                               g(st1, 'tmp:arg:cfo:encode') == c['decode_args_from_libffi'], g(st1, 'tmp:arg:cfo:ret') == 0,
                               d('tmp:calls:onerror') == 0))),
            ('failure happens exactly when a conversion fails, the Python function raises, or its result cannot be converted',
             z3.Implies(failed, z3.Or(z3.Not(called), pyres == 0,
                                      z3.And(g(st1, 'tmp:arg:errfetch:cfo') == g(st0, 'tmp:calls:cfo') + 1)))),
            ('failure, result type with a size: when error handling starts *result holds the declared error value (byte K of '
             'the info tuple\'s error bytes)',
             z3.Implies(z3.And(failed, size > 0, K >= 0, K < c.field(st0, p['rawerr'], 'PyVarObject', 'ob_size')),
                        z3.Select(raw_f, c['result'] + K) == z3.Select(st0.raw, p['rawerr'] + 32 + K))),
            # (quantifier- and lambda-free companion of the clause above: decidable also when it fails)
            ('failure, result type with a size: exactly one block copy, of the whole error bytes, into *result',
             z3.Implies(z3.And(failed, size > 0),
                        z3.And(d('tmp:calls:memcpy') == 1, g(st1, 'tmp:arg:memcpy:dst') == c['result'],
                               g(st1, 'tmp:arg:memcpy:src') == p['rawerr'] + 32,
                               g(st1, 'tmp:arg:memcpy:n') == c.field(st0, p['rawerr'], 'PyVarObject', 'ob_size')))),
            ('failure, result type without a size (void): *result is not written by a block copy',
             z3.Implies(z3.And(failed, size <= 0), d('tmp:calls:memcpy') == 0)),
            ('failure without onerror: nothing converts into *result afterwards, onerror is not called',
             z3.Implies(z3.And(failed, z3.Not(has_onerror)), z3.And(cfo_after_fetch == 0, d('tmp:calls:onerror') == 0))),
            ('failure with onerror: it is called exactly once',
             z3.Implies(z3.And(failed, has_onerror), z3.And(d('tmp:calls:onerror') == 1, g(st1, 'tmp:arg:onerror:callable') == p['onerror']))),
            ('failure with onerror: what it returns, unless None or an exception, is converted into *result as the result type; '
             'otherwise the declared error value stays',
             z3.Implies(z3.And(failed, has_onerror),
                        z3.If(z3.And(onerr_ret != 0, onerr_ret != none(c.ex)),
                              z3.And(cfo_after_fetch == 1, g(st1, 'tmp:arg:cfo:result') == c['result'],
                                     g(st1, 'tmp:arg:cfo:ctype') == p['res_ct'], g(st1, 'tmp:arg:cfo:pyobj') == onerr_ret,
                                     g(st1, 'tmp:arg:cfo:encode') == c['decode_args_from_libffi']),
                              cfo_after_fetch == 0))),
        ]


@R.model('PyCallable_Check', "1 or 0; no effect")
def _callable(ex, st, args, n):
    r = ex.fresh('callable', B32)
    st.assume(z3.Or(r == 0, r == 1))
    return r


def _bytes_new(ex, st, args, n):
    """PyBytes_FromStringAndSize(NULL, n): a new bytes object of n bytes with unspecified contents (allocation succeeds)"""
    src, size = args
    if not (z3.is_bv_value(z3.simplify(src)) and z3.simplify(src).as_long() == 0):
        from vf.cexec import NotSupported
        raise NotSupported("PyBytes_FromStringAndSize with a source")
    st.assume(z3.And(size >= 0, size < BV(1 << 30, 64)))
    o = ex.alloc(st, 32 + size + 1, 'newbytes')
    ex.write_field(st, o, 'PyVarObject', 'ob_size', size)
    return o


R.models['PyBytes_FromStringAndSize'] = _bytes_new
R.assumed['PyBytes_FromStringAndSize(NULL, n)'] = _bytes_new.__doc__


def _build_oooo(ex, st, args, n):
    """Py_BuildValue("OOOO", a, b, c, d): a new 4-tuple of exactly these objects (allocation succeeds)"""
    import ast as _ast
    fmt = n['inner'][1]
    while fmt.get('kind') in ('ImplicitCastExpr', 'ParenExpr'):
        fmt = fmt['inner'][0]
    if fmt.get('kind') != 'StringLiteral' or _ast.literal_eval(fmt['value']) != 'OOOO':
        from vf.cexec import NotSupported
        raise NotSupported("Py_BuildValue with another format")
    t = ex.alloc(st, BV(24 + 32, 64), 'infotuple')
    ex.write_field(st, t, 'PyVarObject', 'ob_size', BV(4, 64))
    h = st.heap(ITEMS)
    for k in range(4):
        h = z3.Store(h, t + 24 + 8 * k, args[1 + k])
    st.fh[ITEMS] = h
    return t


R.models['Py_BuildValue'] = _build_oooo
R.models['_Py_BuildValue_SizeT'] = _build_oooo
R.assumed['Py_BuildValue("OOOO")'] = _build_oooo.__doc__


@R.add
class prepare_callback_info_tuple(Contract):
    """what ffi.callback() / @ffi.def_extern() attach to the C entry point: (ctype, callable, error bytes, onerror)"""
    name = 'prepare_callback_info_tuple'

    def parts(self, c):
        st = c.old
        ct = c['ct']
        sig = c.field(st, ct, 'CTypeDescrObject', 'ct_stuff')
        res_ct = item(c, st, sig, 1)
        size = c.field(st, res_ct, 'CTypeDescrObject', 'ct_size')
        return sig, res_ct, size

    def pre(self, c):
        st = c.old
        sig, res_ct, size = self.parts(c)
        return [('ct-valid', c.valid(c['ct'], 104)), ('ob-valid', c.valid(c['ob'], 16)), ('error_ob-valid', c.valid(c['error_ob'], 16)),
                ('onerror_ob-valid', c.valid(c['onerror_ob'], 16)), ('None is an object', c.valid(none(c.ex), 16)),
                ('a function ctype has a signature tuple with a valid result type',
                 z3.Implies((c.field(st, c['ct'], 'CTypeDescrObject', 'ct_flags') & 0x100) != 0,
                            z3.And(c.valid(sig, 24 + 16), c.valid(res_ct, 104), size >= -1, size < BV(1 << 30, 64)))),
                ('no-pending-exception', st.err == 0)]

    def frame(self, c):
        return Frame(all_raw=True, all_fields=True, err=True,
                     trace=['tmp:calls:cfo', 'tmp:arg:cfo:result', 'tmp:arg:cfo:ctype', 'tmp:arg:cfo:pyobj', 'tmp:arg:cfo:encode',
                            'tmp:arg:cfo:ret', 'tmp:arg:cfo:raw_before'])

    def post(self, c):
        st0, st1 = c.old, c.new
        sig, res_ct, size = self.parts(c)
        r = c.result
        isfn = (c.field(st0, c['ct'], 'CTypeDescrObject', 'ct_flags') & 0x100) != 0
        rawerr = item(c, st1, r, 2)
        n = z3.If(size < 8, BV(8, 64), size)
        conv = g(st1, 'tmp:calls:cfo') - g(st0, 'tmp:calls:cfo')
        has_err = c['error_ob'] != none(c.ex)
        inside = z3.And(K >= 0, K < n)
        return [('not a function ctype: TypeError', z3.Implies(z3.Not(isfn), z3.And(r == 0, st1.err == exc(c.ex, 'TypeError')))),
                ('failure only with an exception', z3.Implies(r == 0, st1.err != 0)),
                ('success: the tuple (ctype, callable, error bytes, onerror)',
                 z3.Implies(r != 0, z3.And(item(c, st1, r, 0) == c['ct'], item(c, st1, r, 1) == c['ob'], item(c, st1, r, 3) == c['onerror_ob'],
                                           isfn, st1.err == 0))),
                ('success: the error bytes are a new bytes object as large as the result type and at least a whole ffi_arg',
                 z3.Implies(r != 0, z3.And(rawerr != 0, c.field(st1, rawerr, 'PyVarObject', 'ob_size') == n))),
                ('no error value given: the error bytes are all zero',
                 z3.Implies(z3.And(r != 0, z3.Not(has_err), inside), z3.And(conv == 0, z3.Select(st1.raw, rawerr + 32 + K) == 0))),
                ('an error value given: it is converted exactly once, into the zero-filled error bytes, as the result type '
                 '(widened as a callback result is) -- the declared error value',
                 z3.Implies(z3.And(r != 0, has_err),
                            z3.And(conv == 1, g(st1, 'tmp:arg:cfo:result') == rawerr + 32, g(st1, 'tmp:arg:cfo:ctype') == res_ct,
                                   g(st1, 'tmp:arg:cfo:pyobj') == c['error_ob'], g(st1, 'tmp:arg:cfo:encode') == c['decode_args_from_libffi'],
                                   g(st1, 'tmp:arg:cfo:ret') == 0,
                                   z3.Implies(inside, z3.Select(g(st1, 'tmp:arg:cfo:raw_before'), rawerr + 32 + K) == 0)))),
                ('an error value that cannot be converted: no tuple', z3.Implies(z3.And(has_err, conv == 1, g(st1, 'tmp:arg:cfo:ret') != 0), r == 0))]


C14_FUNCS = ['general_invoke_callback', 'prepare_callback_info_tuple']


# ---------------------------------------------------------------------------------------------------------------
# the other half of the slot protocol: the C wrapper the recompiler emits for an extern "Python" function

def slot_obligations():
    """`Recompiler._extern_python_decl` (Python AST of the tree under test) stores argument i with
    `*(T *)(p + 8*i) = a_i;` -- by address (`&a_i`, T a pointer) exactly for struct/union types and for the primitive
    types its helper `may_need_128_bits` names.  The runtime (general_invoke_callback, proved above) reads slot i at
    args + 8*i and dereferences exactly for CT_IS_LONGDOUBLE | CT_STRUCT | CT_UNION.  Obligations:
      (a) structural: the offset expression is `i*8`, the by-address condition is `StructOrUnion or may_need_128_bits`,
          and may_need_128_bits is `PrimitiveType and name == 'long double'`;
      (b) for EVERY primitive type of model.PrimitiveType.ALL_PRIMITIVE_TYPES (a finite table, so this is exhaustive):
          stored by value only if its size -- measured with the C compiler -- is at most 8, the size of a slot.
    Pointers, enums and function pointers are at most 8 bytes on this platform (LP64)."""
    import ast
    import os
    import subprocess
    import tempfile
    from vf import cfront
    from vf.smt import Ob
    src = open(os.path.join(cfront.REPO, 'src', 'cffi', 'recompiler.py')).read()
    tree = ast.parse(src)
    fn = [n for n in ast.walk(tree) if isinstance(n, ast.FunctionDef) and n.name == '_extern_python_decl'][0]
    seg = ast.get_source_segment(src, fn)
    ok_offset = "prnt('  *(%s)(p + %d) = %s;' % (type.get_c_name('*'), i*8, arg))" in seg
    ok_cond = ("if (isinstance(type, model.StructOrUnion) or\n                    may_need_128_bits(type)):\n"
               "                arg = '&' + arg\n                type = model.PointerType(type)") in seg
    helper = [n for n in ast.walk(fn) if isinstance(n, ast.FunctionDef) and n.name == 'may_need_128_bits']
    byref = set()
    ok_helper = False
    if helper:
        hs = ast.get_source_segment(src, helper[0])
        ok_helper = "isinstance(tp, model.PrimitiveType) and" in hs and hs.count("tp.name ==") == 1
        for n in ast.walk(helper[0]):
            if isinstance(n, ast.Compare) and isinstance(n.comparators[0], ast.Constant):
                byref.add(n.comparators[0].value)
    out = [Ob("recompiler.py:_extern_python_decl:flow[argument i is stored at p + 8*i, by address exactly for struct/union and "
              "the types may_need_128_bits names (%s)]" % ', '.join(sorted(byref)), [], z3.BoolVal(ok_offset and ok_cond and ok_helper),
              kind='flow')]
    out.append(Ob("recompiler.py:_extern_python_decl:flow[the by-address primitive types are exactly the ones the runtime "
                  "dereferences: long double]", [], z3.BoolVal(byref == {'long double'}), kind='flow'))
    msrc = open(os.path.join(cfront.REPO, 'src', 'cffi', 'model.py')).read()
    mtree = ast.parse(msrc)
    table = None
    for n in ast.walk(mtree):
        if isinstance(n, ast.Assign) and any(isinstance(t, ast.Name) and t.id == 'ALL_PRIMITIVE_TYPES' for t in n.targets):
            table = ast.literal_eval(n.value)
    if not table:
        raise cfront.FrontEndError("model.PrimitiveType.ALL_PRIMITIVE_TYPES not found")
    names = sorted(table)
    d = tempfile.mkdtemp(prefix='cffi-slots-')
    try:
        cdef = {'_cffi_float_complex_t': 'float _Complex', '_cffi_double_complex_t': 'double _Complex'}
        prog = ['#include <stddef.h>', '#include <stdint.h>', '#include <wchar.h>', '#include <uchar.h>', '#include <sys/types.h>',
                '#include <stdio.h>', 'int main(void) {']
        prog += ['  printf("%%s=%%zu\\n", "%s", sizeof(%s));' % (nm, cdef.get(nm, nm)) for nm in names]
        prog += ['  return 0; }']
        open(os.path.join(d, 's.c'), 'w').write('\n'.join(prog))
        subprocess.run(['gcc', '-o', os.path.join(d, 's'), os.path.join(d, 's.c')], check=True, capture_output=True)
        res = subprocess.run([os.path.join(d, 's')], check=True, capture_output=True, text=True).stdout
    finally:
        import shutil
        shutil.rmtree(d, True)
    sizes = dict((ln.split('=')[0], int(ln.split('=')[1])) for ln in res.split('\n') if '=' in ln)
    for nm in names:
        sz = sizes[nm]
        out.append(Ob("recompiler.py:_extern_python_decl:slot[%s: an argument of this type (%d bytes) is stored by value in an "
                      "8-byte slot only if it fits]" % (nm, sz), [], z3.BoolVal(sz <= 8 or nm in byref), kind='flow',
                      witness={'type_is_double_complex': z3.BoolVal(nm == '_cffi_double_complex_t')}))
    return out
