"""Contracts for API-mode mismatch detection outside the layout code (C12), in a registry forked from the shared one:
parse_error, write_ds, and ONE iteration of parse_sequel's `[...]` loop -- the place where a type string such as
"int[N]" uses an integer constant of the module as an array length."""
import z3

from . import allc                     # noqa: F401
from .base import R as R0, BV, B64, B8, Contract, Frame, Ctx, LoopSpec, b2i
from vf.cexec import NotSupported
from vf.cfront import line_of

R = R0.fork()
B32 = z3.BitVecSort(32)
TOK = 'token_t'
TOK_ERROR, TOK_IDENTIFIER, TOK_INTEGER = 258, 259, 260       # enum token_e: checked against the AST below
MAX_SSIZE = (1 << 63) - 1


def T(c, st, tok, f):
    return c.field(st, tok, TOK, f)


def out_size(c, st, tok):
    v = c.field(st, T(c, st, tok, 'info'), 'struct _cffi_parse_info_s', 'output_size')
    return z3.ZeroExt(64 - v.size(), v) if v.size() < 64 else v


def getter_calls(st):
    return st.gvar('tmp:getter:calls', B64)


def getter_model(ex, st, args, n):
    """the call through g->address in parse_sequel: a constant-fetching function stores a 64-bit value into gc->value
    and returns flags (bit 0: value <= 0, bit 1: the C value disagrees with the cdef) -- the generated getters are
    verified to do exactly this (getter instances of this check)"""
    callee = n['inner'][0]
    txt = str(callee)
    if "'gs_fetch_addr'" in txt:
        # cglob.c: gs->gs_fetch_addr(): the generated function that returns &<the C global>
        a = ex.fresh('fetched_address', B64)
        st.ghost['tmp:fetch:calls'] = st.gvar('tmp:fetch:calls', B64) + 1
        st.ghost['tmp:fetch:address'] = a
        return a
    neg = ex.fresh('fetched_flags', B32)
    val = ex.fresh('fetched_value', B64)
    st.assume(z3.And(neg >= 0, neg <= 3))
    ex.write_field(st, args[1], 'struct _cffi_getconst_s', 'value', val)
    st.ghost['tmp:getter:calls'] = getter_calls(st) + 1
    st.ghost['tmp:getter:flags'] = neg
    st.ghost['tmp:getter:value'] = val
    return neg


R.models['<indirect>'] = getter_model
R.assumed['<indirect> (constant getter)'] = getter_model.__doc__


@R.model('strtoull', "C11 7.22.1.4: some value and end pointer; ERANGE in errno on overflow (contents not modelled)")
def _strtoull(ex, st, args, n):
    v = ex.fresh('strtoull', B64)
    endp = ex.fresh('endptr', B64)
    ex.store_raw(st, args[1], endp, 8)
    return v


R.models['strtoul'] = _strtoull
R.assumed['strtoul'] = "as strtoull"


@R.add
class parse_error(Contract):
    name = 'parse_error'

    def pre(self, c):
        return [('tok-valid', c.valid(c['tok'], 56)), ('info-valid', c.valid(T(c, c.old, c['tok'], 'info'), 48))]

    def frame(self, c):
        return Frame(fields=[(TOK, 'kind'), ('struct _cffi_parse_info_s', 'error_location'),
                             ('struct _cffi_parse_info_s', 'error_message')], trace=[])

    def post(self, c):
        return [('-1 and the tokenizer is in the error state', z3.And(c.result == BV(-1, 32),
                                                                      T(c, c.new, c['tok'], 'kind') == TOK_ERROR))]


@R.add
class write_ds(Contract):
    name = 'write_ds'

    def pre(self, c):
        tok = c['tok']
        return [('tok-valid', c.valid(tok, 56)), ('info-valid', c.valid(T(c, c.old, tok, 'info'), 48)),
                ('output-valid', c.valid(T(c, c.old, tok, 'output'),
                                         out_size(c, c.old, tok) * 8))]

    def frame(self, c):
        tok = c['tok']
        out = T(c, c.old, tok, 'output')
        idx = T(c, c.old, tok, 'output_index')
        return Frame(raw=[(out + idx * 8, 8)], fields=[(TOK, 'kind'), (TOK, 'output_index'),
                                                       ('struct _cffi_parse_info_s', 'error_location'),
                                                       ('struct _cffi_parse_info_s', 'error_message')], trace=[])

    def post(self, c):
        tok = c['tok']
        st0, st1 = c.old, c.new
        out, idx = T(c, st0, tok, 'output'), T(c, st0, tok, 'output_index')
        size = out_size(c, st0, tok)
        room = z3.ULT(idx, size)
        return [('room left: the opcode is appended at output_index, which advances',
                 z3.Implies(room, z3.And(c.raw(st1, out + idx * 8, 8) == c['ds'], T(c, st1, tok, 'output_index') == idx + 1,
                                         c.result == z3.Extract(31, 0, idx), T(c, st1, tok, 'kind') == T(c, st0, tok, 'kind')))),
                ('no room: -1, error state, nothing written',
                 z3.Implies(z3.Not(room), z3.And(c.result == BV(-1, 32), T(c, st1, tok, 'kind') == TOK_ERROR,
                                                 T(c, st1, tok, 'output_index') == idx)))]


@R.add
class next_token(Contract):
    """the tokenizer (its memory safety is C30's subject): afterwards kind/p/size describe some next token -- assumed"""
    name = 'next_token'
    trusted = True

    def frame(self, c):
        return Frame(fields=[(TOK, 'kind'), (TOK, 'p'), (TOK, 'size')], trace=[])


class search_in_globals_weak(Contract):
    """weaker restatement of the contract verified in C25: -1 or the index of an entry"""
    name = 'search_in_globals'
    trusted = True
    pure = True

    def post(self, c):
        n = c.field(c.old, c['ctx'], 'struct _cffi_type_context_s', 'num_globals')
        return [('-1 or a valid index', z3.Or(c.result == BV(-1, 32), z3.And(c.result >= 0, c.result < n)))]


R.add(search_in_globals_weak)


class BracketLoop(Contract):
    """parse_sequel, the loop over `[...]` suffixes: ONE iteration.  When the length is an identifier naming an integer
    constant of the module, the constant's getter is called once and the iteration completes only if the getter did
    not flag a disagreement between the C value and the cdef (bit 1); the length written is then the C value"""
    name = 'parse_sequel#bracket-loop'
    function = 'parse_sequel'
    loop_ordinal = 3

    def pre(self, c):
        st = c.old
        tok = c['tok']
        info = T(c, st, tok, 'info')
        ctx = c.field(st, info, 'struct _cffi_parse_info_s', 'ctx')
        n = c.field(st, ctx, 'struct _cffi_type_context_s', 'num_globals')
        return [('tok-valid', c.valid(tok, 56)), ('info-valid', c.valid(info, 48)), ('ctx-valid', c.valid(ctx, 80)),
                ('globals table valid', z3.And(n >= 0, c.valid(c.field(st, ctx, 'struct _cffi_type_context_s', 'globals'),
                                                               z3.SignExt(32, n) * 32))),
                ('output-valid', c.valid(T(c, st, tok, 'output'),
                                         out_size(c, st, tok) * 8)),
                ('output_size sane', z3.ULT(out_size(c, st, tok), BV(1 << 31, 64))),
                ('p_current valid', c.valid(c['p_current'], 8))]

    def post(self, c):
        st0, st1 = c.old, c.new
        tok = c['tok']
        called = getter_calls(st1) == getter_calls(st0) + 1
        flags = st1.gvar('tmp:getter:flags', B32)
        value = st1.gvar('tmp:getter:value', B64)
        out = T(c, st0, tok, 'output')
        idx1 = T(c, st1, tok, 'output_index')
        return [('at most one constant is fetched', z3.Or(called, getter_calls(st1) == getter_calls(st0))),
                ('a constant is used as the array length only if its getter flagged no disagreement with the cdef',
                 z3.Implies(called, (flags & 2) == 0)),
                ('the length used is the value the C compiler gave, and it fits a Py_ssize_t',
                 z3.Implies(called, z3.And(c.raw(st1, out + (idx1 - 1) * 8, 8) == value, z3.ULE(value, BV(MAX_SSIZE, 64)))))]

    def post_return(self, c):
        return [('the loop is left early only with a parse error', c.result == BV(-1, 32))]


R.add(BracketLoop)
for _nm in ('PyEval_SaveThread', 'PyEval_RestoreThread'):
    def _gil(ex, st, args, n, _nm=_nm):
        # while the GIL is released other threads may change any shared memory (not this frame's locals)
        # (module-level statics and thread-locals of cffi are not written by other threads: only memory is havocked)
        st.havoc('gil_' + _nm, ghost=False, keep_stack=ex.private_stack(args))
        return ex.fresh('tstate', B64)
    R.models[_nm] = _gil
    R.assumed[_nm] = "releases / re-acquires the GIL: other threads may change any shared memory meanwhile"


class conv_to_rec(Contract):
    """RECORDING use of convert_to_object (its functional contract is C03/C18's): the engine keeps the call trace"""
    name = 'convert_to_object'
    trusted = True
    record_calls = True

    def frame(self, c):
        return Frame(err=True, trace=[])


class conv_from_rec(Contract):
    """RECORDING use of convert_from_object (functional contract: C03): the engine keeps the call trace"""
    name = 'convert_from_object'
    trusted = True
    record_calls = True

    def frame(self, c):
        return Frame(all_raw=True, err=True, trace=[])


R.add(conv_to_rec)
R.add(conv_from_rec)
GS = 'GlobSupportObject'


def calls(st, name):
    return st.gvar('tmp:calls:' + name, B64)


def arg(st, name, pn, sort=B64):
    return st.gvar('tmp:arg:%s:%s' % (name, pn), sort)


@R.add
class fetch_global_var_addr(Contract):
    """the address of the C global: the one stored at creation (ABI mode), else whatever the module's address
    function returns NOW (API mode) -- never a cached copy"""
    name = 'fetch_global_var_addr'

    def pre(self, c):
        return [('gs-valid', c.valid(c['gs'], 48)), ('no-pending-exception', c.old.err == 0),
                ('module initialised: ffi.error exists', c.global_value(c.old, 'FFIError') != 0)]

    def frame(self, c):
        return Frame(all_raw=True, all_fields=True, err=True, ghost=['cffi_saved_errno'], trace=['tmp:fetch:calls', 'tmp:fetch:address'])

    def post(self, c):
        st0, st1 = c.old, c.new
        stored = c.field(st0, c['gs'], GS, 'gs_data')
        fetched = st1.gvar('tmp:fetch:address', B64)
        n0, n1 = st0.gvar('tmp:fetch:calls', B64), st1.gvar('tmp:fetch:calls', B64)
        addr = z3.If(stored != 0, stored, fetched)
        return [('stored address: returned as is, the address function is not called',
                 z3.Implies(stored != 0, z3.And(c.result == stored, n1 == n0))),
                ('no stored address: the address function is called exactly once and its result is returned',
                 z3.Implies(stored == 0, z3.And(n1 == n0 + 1, c.result == fetched))),
                ('a NULL address is ffi.error', z3.Implies(addr == 0, z3.And(c.result == 0, c.new.err == c.global_value(st0, 'FFIError')))),
                ('otherwise no error', z3.Implies(addr != 0, c.new.err == 0))]


def _mk_rw(nm, conv, extra_args):
    class K(Contract):
        """reading / writing lib.<global> converts from / to the memory at the address fetch_global_var_addr gives,
        with the type the global was declared with: it reads and writes the C object itself"""
        name = nm

        def pre(self, c):
            return fetch_global_var_addr.pre(fetch_global_var_addr(), c)

        def frame(self, c):
            return Frame(all_raw=True, all_fields=True, err=True, ghost=['cffi_saved_errno'])

        def post(self, c):
            st0, st1 = c.old, c.new
            gs = c['gs']
            n0, n1 = calls(st0, conv), calls(st1, conv)
            failed = c.result == (0 if nm == 'read_global_var' else BV(-1, 32))
            out = [('the address could not be fetched: no conversion, an exception is set',
                    z3.Implies(n1 == n0, z3.And(failed, st1.err != 0))),
                   ('at most one conversion', z3.Or(n1 == n0, n1 == n0 + 1)),
                   ('the conversion is made on the fetched address (stored one, or the one the address function just '
                    'returned), which is not NULL',
                    z3.Implies(n1 == n0 + 1,
                               z3.And(arg(st1, conv, 'data') != 0,
                                      arg(st1, conv, 'data') == z3.If(c.field(st0, gs, GS, 'gs_data') != 0,
                                                                      c.field(st0, gs, GS, 'gs_data'),
                                                                      st1.gvar('tmp:fetch:address', B64)))))]
            if extra_args:
                out.append(('the value written is the object given', z3.Implies(n1 == n0 + 1, arg(st1, conv, 'init') == c['obj'])))
            return out
    K.__name__ = nm
    R.add(K)


_mk_rw('read_global_var', 'convert_to_object', False)
_mk_rw('write_global_var', 'convert_from_object', True)

C12_FUNCS = ['fetch_global_var_addr', 'read_global_var', 'write_global_var', 'parse_error', 'write_ds', 'parse_sequel#bracket-loop']


# ---------------------------------------------------------------------------------------------------------------
# do_realize_lazy_struct_lock_held: the per-field size check of API-mode structs and unions

from .layout import f_name, f_type, f_bits, f_off, SF_STD          # noqa: E402

FLD = 'struct _cffi_field_s'
OP_NOOP, OP_BITFIELD = 17, 19          # _CFFI_OP_NOOP, _CFFI_OP_BITFIELD: checked against the AST in props/C12.py


@R.add
class realize_c_type(Contract):
    """builds (or fetches) the ctype for entry `index` of the type table -- assumed: a valid ctype, or NULL with an
    exception; runs type-building code that does not touch the field table being read"""
    name = 'realize_c_type'
    trusted = True

    def frame(self, c):
        return Frame(err=True, all_raw=True, trace=[])

    def post(self, c):
        return [('a valid ctype, or NULL with an exception',
                 z3.If(c.result == 0, c.new.err != 0, z3.And(c.valid(c.result, 104), c.new.err == c.old.err)))]


def _buildvalue(ex, st, args, n):
    """Py_BuildValue("(sOin)", name, ctype, bitsize, offset): a new 4-tuple whose members are those values (ghost
    functions item_name/type/bitsize/offset of the tuple, the ones PyArg_ParseTuple("O!O!|in") reads back), or NULL
    with an exception"""
    import ast as _ast
    fmtnode = n['inner'][1]
    while fmtnode.get('kind') in ('ImplicitCastExpr', 'ParenExpr'):
        fmtnode = fmtnode['inner'][0]
    if fmtnode.get('kind') != 'StringLiteral' or _ast.literal_eval(fmtnode['value']) != "(sOin)":
        raise NotSupported("Py_BuildValue with another format")
    t = ex.fresh('newtuple', B64)
    e = ex.fresh('err_buildvalue', B64)
    c = Ctx(ex, {}, st)
    st.assume(z3.Implies(t == 0, e != 0))
    st.assume(z3.Implies(t != 0, z3.And(c.valid(t, 56), f_type(t) == args[2], f_bits(t) == args[3], f_off(t) == args[4],
                                        R.ghost('str_of_cstring', B64, B64)(args[1]) == f_name(t))))
    st.err = z3.If(t == 0, e, st.err)
    return t


R.models['Py_BuildValue'] = _buildvalue
R.models['_Py_BuildValue_SizeT'] = _buildvalue
R.assumed['Py_BuildValue("(sOin)")'] = _buildvalue.__doc__
R.inline |= {'PyList_SET_ITEM'}


class LazyFieldLoop(Contract):
    """do_realize_lazy_struct_lock_held, the loop over the field table of an API-mode struct OR UNION: ONE iteration.
    A field whose offset the compiler measured (field_offset != -1) is accepted only if the size of its declared type
    equals the size the compiler measured for it -- otherwise ffi.error -- for structs and unions alike; the list item
    handed to the layout code carries the compiler's offset and the declared bit size"""
    name = 'do_realize_lazy_struct_lock_held#field-loop'
    function = 'do_realize_lazy_struct_lock_held'
    loop_ordinal = 0

    def fld(self, c, st):
        fld = c['fld']
        G = lambda f: c.field(st, fld, FLD, f)
        return fld, G('field_type_op'), G('field_offset'), G('field_size'), G('name')

    def pre(self, c):
        st = c.old
        fld, op, off, size, name = self.fld(c, st)
        fields = c['fields']
        return [('fld-valid', c.valid(fld, 32)), ('ct-valid', c.valid(c['ct'], 104)), ('builder-valid', c.valid(c['builder'], 120)),
                ('the list has room for item i', z3.And(c.valid(fields, 40), c['i'] >= 0, c['i'] < BV(1 << 30, 32),
                                                        c.valid(c.field(st, fields, 'PyListObject', 'ob_item') + z3.SignExt(32, c['i']) * 8, 8))),
                ('module initialised: ffi.error exists', c.global_value(st, 'FFIError') != 0),
                ('ffi.error is not one of the builtin exception classes', z3.And(*[c.global_value(st, 'FFIError') != exc(c.ex, nm_) for nm_ in ('NotImplementedError', 'MemoryError', 'TypeError')])),
                ('no-pending-exception', st.err == 0)]

    def witness(self, c):
        fld, op, off, size, name = self.fld(c, c.old)
        return {'field_type_op': op, 'field_offset': off, 'field_size': size,
                'ct_flags': c.field(c.old, c['ct'], 'CTypeDescrObject', 'ct_flags')}

    def post(self, c):
        st0, st1 = c.old, c.new
        fld, op, off, size, name = self.fld(c, st0)
        checked = off != BV(-1, 64)
        arr = c.field(st0, c['fields'], 'PyListObject', 'ob_item')
        item = c.raw(st1, arr + z3.SignExt(32, c['i']) * 8, 8)
        ctf = f_type(item)
        isbf = z3.Extract(7, 0, op) == OP_BITFIELD
        return [('a field the compiler measured is accepted only if its declared type has the measured size',
                 z3.Implies(checked, c.field(st1, ctf, 'CTypeDescrObject', 'ct_size') == size)),
                ('the list item carries the realized type, the compiler\'s offset and the declared bit size (-1: none)',
                 z3.And(item != 0, f_off(item) == off,
                        f_bits(item) == z3.If(isbf, z3.Extract(31, 0, size), BV(-1, 32)))),
                ('the loop advances', z3.And(c.local(st1, 'i') == c['i'] + 1, c.local(st1, 'fld') == fld + c.tu.layout(c.tu.parse_type(FLD).name)[0]))]

    def post_return(self, c):
        st0, st1 = c.old, c.new
        return [('the loop is left early only with -1 and an exception', z3.And(c.result == BV(-1, 32), st1.err != 0))]


R.add(LazyFieldLoop)
from .base import exc                   # noqa: E402
C12_FUNCS.append('do_realize_lazy_struct_lock_held#field-loop')
class RealizeGlobalIntFlags(Contract):
    """realize_global_int over the trace of the getter call (this file's model of g->address): flags 0/1 give the exact
    integer the getter delivered, a getter that flagged a disagreement with the cdef (bit 1) gives ffi.error"""
    name = 'realize_global_int'

    def pre(self, c):
        return [('builder-valid', c.valid(c['builder'], 120)), ('no-pending-exception', c.old.err == 0)]

    def frame(self, c):
        return Frame(err=True, all_fields=True, all_raw=True, trace=['tmp:getter:calls', 'tmp:getter:flags', 'tmp:getter:value'])

    def witness(self, c):
        return {}

    def post(self, c):
        from .base import is_long, int_w, zx, sx
        st0, st1 = c.old, c.new
        neg = st1.gvar('tmp:getter:flags', B32)
        value = st1.gvar('tmp:getter:value', B64)
        r = c.result
        ffierr = c.global_value(st1, 'FFIError')
        return [('the getter of the constant is called exactly once', getter_calls(st1) == getter_calls(st0) + 1),
                ('flags 0: the unsigned value the getter delivered', z3.Implies(neg == 0, z3.And(r != 0, is_long(c, st1, r), int_w(r) == zx(value)))),
                ('flags 1: that value as a signed 64-bit number', z3.Implies(neg == 1, z3.And(r != 0, is_long(c, st1, r), int_w(r) == sx(value)))),
                ('a getter that flagged a disagreement with the cdef: ffi.error, no value',
                 z3.Implies(z3.And(neg != 0, neg != 1), z3.And(r == 0, st1.err == ffierr)))]


R.contracts['realize_global_int'] = RealizeGlobalIntFlags()
# contracts that live in other files (cdl.py: C11's realize_global_int; layout.py: C01's detect_custom_layout and the
# API-mode instances of the struct-completion function) and carry clauses (2) and (3) of this property
C12_FUNCS += ['realize_global_int', 'detect_custom_layout', 'b_complete_struct_or_union_lock_held#checked',
              'b_complete_struct_or_union_lock_held#checked-field']
