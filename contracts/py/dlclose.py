"""Python side of C37: FFILibrary.__cffi_close__ and the accessors of the in-line dlopen() library (api.py)."""
import z3

from .common import *

R = new_registry()
R.globals['backendlib'] = PObj('CLibrary')
R.globals['library'] = PObj('FFILibrary', __dict__=PObj('InstanceDict'))


def _trace(tag):
    def m(ex, st, o, pos, kw, n):
        st.trace.append((tag,) + tuple(pos))
        yield st, (PObj('cdata') if tag == 'load_function' else None)
    return m


R.method_models['CLibrary.close_lib'] = _trace('close_lib')
R.method_models['CLibrary.load_function'] = _trace('load_function')
R.method_models['InstanceDict.clear'] = _trace('dict.clear')


class CffiClose(PyContract):
    name = 'api:_make_ffi_library.FFILibrary.__cffi_close__'
    label = '__cffi_close__'

    def setup(self, ex):
        self.me = PObj('FFILibrary', __dict__=PObj('InstanceDict'))
        return {'self': self.me}, []

    def post(self, ex, args, kind, value, st):
        tags = [t[0] for t in st.trace]
        return [('closes the backend library, then empties the instance dict (nothing cached before the close '
                 'survives it)', z3.BoolVal(kind == 'return' and tags == ['close_lib', 'dict.clear']))]


def items():
    return [('src/cffi/api.py', R, '_make_ffi_library.FFILibrary.__cffi_close__', CffiClose())]
