"""Contract of recompiler._make_c_or_py_source (C23): regeneration into a file is idempotent and the target
path always holds the complete old or the complete new content.

Ghost file system: st.ghost['fs'] maps a path key to its content term or ABSENT; every I/O call appends an
event to st.trace together with a snapshot of the target's content after it (one externally visible state
per I/O call = one crash point).  Assumed (stated in the evidence): the I/O calls themselves succeed except
open(target,'r') of a missing file; os.rename within one directory replaces the target atomically and does
not fail (the property quantifies over crash points, not over faults)."""
import z3

from .common import *

R = new_registry()
R.globals['os'] = ('$module', 'os')
R.globals['sys'] = ('$module', 'sys')
ABSENT = '<absent>'


def key(p):
    return p.t.sexpr() if is_sym(p) else repr(p)


def snapshot(ex, st, what):
    fs = st.ghost['fs']
    st.trace.append((what, dict(fs)))


def _recompiler(ex, st, pos, kw, n):
    yield st, PObj('Recompiler', target_is_python=kw.get('target_is_python'))


R.constructors['Recompiler'] = _recompiler
R.globals['Recompiler'] = ('$class', 'Recompiler')
R.globals['NativeIO'] = ('$class', 'NativeIO')
R.constructors['NativeIO'] = lambda ex, st, pos, kw, n: iter([(st, PObj('NativeIO', content=''))])
R.method_models['Recompiler.collect_type_table'] = lambda ex, st, o, pos, kw, n: iter([(st, None)])
R.method_models['Recompiler.collect_step_tables'] = lambda ex, st, o, pos, kw, n: iter([(st, None)])


def _write_source(ex, st, o, pos, kw, n):
    f = pos[0]
    if isinstance(f, PObj) and f.cls == 'NativeIO':
        f.attrs['content'] = st.ghost['output']
        yield st, None
    else:
        st.trace.append(('write_source_to_file_like', f))
        yield st, None


R.method_models['Recompiler.write_source_to_f'] = _write_source
R.method_models['NativeIO.getvalue'] = lambda ex, st, o, pos, kw, n: iter([(st, o.attrs['content'])])


def _is_file_like(ex, st, pos, kw, n):
    yield st, (isinstance(pos[0], PObj) and pos[0].cls == 'FileLike')


R.globals['_is_file_like'] = ('$builtin', '_is_file_like')
R.builtin_models['_is_file_like'] = _is_file_like
def _print(ex, st, pos, kw, n):
    st.trace.append(('print',) + tuple(pos))        # text sent to sys.stdout
    yield st, None


R.builtin_models['print'] = _print


def _open(ex, st, pos, kw, n):
    path, mode = pos[0], (pos[1] if len(pos) > 1 else 'r')
    fs = st.ghost['fs']
    k = key(path)
    if mode == 'r':
        if fs.get(k, ABSENT) is ABSENT:
            yield st, Exc('FileNotFoundError')
            return
        yield st, PObj('File', path=path, mode='r', k=k)
    else:
        fs[k] = ''                       # opening for writing creates/truncates the file
        snapshot(ex, st, ('open_w', k))
        yield st, PObj('File', path=path, mode='w', k=k)


R.builtin_models['open'] = _open


def _read(ex, st, o, pos, kw, n):
    content = st.ghost['fs'][o.attrs['k']]
    if pos:
        nmax = pos[0]
        t = term(content)
        yield st, SV(z3.SubString(t, 0, as_int_term(nmax)), 'str')
    else:
        yield st, content


def _fwrite(ex, st, o, pos, kw, n):
    st.ghost['fs'][o.attrs['k']] = pos[0]       # a single write of the whole text (buffered until close: the file is
    snapshot(ex, st, ('write', o.attrs['k']))   # the scratch file, never the target -- checked below)
    yield st, None


R.method_models['File.read'] = _read
R.method_models['File.write'] = _fwrite


def _with(ex, n, st):
    item = n.items[0]
    outs = []
    for s, f in ex.ev(item.context_expr, st):
        if isinstance(f, Exc):
            from vf.pyexec import Outcome
            outs.append(Outcome(s, 'raise', f))
            continue
        if item.optional_vars is not None:
            ex.assign(item.optional_vars, f, s)
        for o in ex.exec_block(n.body, s):
            if isinstance(f, PObj) and f.cls == 'File':
                o.st.trace.append((('close', f.attrs['k']), dict(o.st.ghost['fs'])))
            outs.append(o)
    return outs


R.hooks['with'] = _with


def _rename(ex, st, pos, kw, n):
    src, dst = key(pos[0]), key(pos[1])
    fs = st.ghost['fs']
    fs[dst] = fs.get(src, ABSENT)
    fs[src] = ABSENT
    snapshot(ex, st, ('rename', src, dst))
    yield st, None


def _unlink(ex, st, pos, kw, n):
    st.ghost['fs'][key(pos[0])] = ABSENT
    snapshot(ex, st, ('unlink', key(pos[0])))
    yield st, None


R.globals['os.rename'] = ('$builtin', 'os.rename')
R.globals['os.unlink'] = ('$builtin', 'os.unlink')
R.globals['os.getpid'] = ('$builtin', 'os.getpid')
R.builtin_models['os.rename'] = _rename
R.builtin_models['os.unlink'] = _unlink
R.builtin_models['os.getpid'] = lambda ex, st, pos, kw, n: iter([(st, SV(z3.Int('pid'), 'int'))])
R.classes['FileNotFoundError'] = 'OSError'


class MakeSource(PyContract):
    name = 'recompiler:_make_c_or_py_source'

    def __init__(self, exists):
        self.exists = exists
        self.label = 'target exists' if exists else 'target missing'

    def setup(self, ex):
        self.target = SV(z3.String('target_file'), 'str')
        self.old = SV(z3.String('old_content'), 'str')
        self.out = SV(z3.String('output'), 'str')
        self._ex = ex
        return {'ffi': PObj('FFI'), 'module_name': SV(z3.String('module_name'), 'str'),
                'preamble': SV(z3.String('preamble'), 'str'), 'target_file': self.target, 'verbose': False}, \
            [z3.Int('pid') >= 0]

    def init_state(self, st):
        st.ghost['fs'] = {key(self.target): (self.old if self.exists else ABSENT)}
        st.ghost['output'] = self.out

    def post(self, ex, args, kind, value, st):
        T = z3.BoolVal
        tk = key(self.target)
        same = (term(self.old) == term(self.out)) if self.exists else z3.BoolVal(False)
        events = [e for e in st.trace if isinstance(e[0], tuple)]
        out = []
        if kind != 'return':
            return [('regeneration does not raise (I/O calls assumed to succeed)', T(False))]
        if value is False:
            out.append(('reports "not updated" only when the content is already identical', same))
            out.append(('an up-to-date file is left untouched: no write, no rename, no scratch file',
                        T(not any(e[0] in ('open_w', 'write', 'rename', 'unlink') for e, _ in events))))
            return out
        out.append(('reports "updated" exactly when the content differed or the file was missing', z3.Not(same)))
        final = st.ghost['fs'].get(tk, ABSENT)
        out.append(('afterwards the target holds the complete new content',
                    T(final is not ABSENT) if final is ABSENT else term(final) == term(self.out)))
        # every externally visible intermediate state: the target is the complete old or the complete new content
        for (ev, snap) in events:
            cur = snap.get(tk, ABSENT)
            if self.exists:
                ok = T(False) if cur is ABSENT else z3.Or(term(cur) == term(self.old), term(cur) == term(self.out))
            else:
                ok = T(True) if cur is ABSENT else term(cur) == term(self.out)
            out.append(('after %s the target path holds the complete old or the complete new content' % (ev[0],), ok))
            if ev[0] in ('open_w', 'write'):
                out.append(('%s goes to a scratch file, never to the target path' % ev[0], T(ev[1] != tk)))
        out.append(('the new content reaches the target by exactly one rename',
                    T(sum(1 for e, _ in events if e[0] == 'rename') == 1 and not any(e[0] == 'unlink' for e, _ in events))))
        return out


class MakeSourceFileLike(PyContract):
    """a file-like target (what FFI.emit_c_code(buffer) and cffi-gen-src use): the text goes to the object and
    nothing is printed to sys.stdout, whatever `verbose` is (C24: '-' sends exactly the module text to stdout)"""
    name = 'recompiler:_make_c_or_py_source'
    label = 'file-like target'

    def setup(self, ex):
        self.f = PObj('FileLike')
        return {'ffi': PObj('FFI'), 'module_name': SV(z3.String('module_name'), 'str'),
                'preamble': SV(z3.String('preamble'), 'str'), 'target_file': self.f,
                'verbose': SV(z3.Bool('verbose'), 'bool')}, []

    def init_state(self, st):
        st.ghost['fs'] = {}
        st.ghost['output'] = SV(z3.String('output'), 'str')

    def witness(self, ex, args):
        return {'verbose': z3.If(z3.Bool('verbose'), z3.IntVal(1), z3.IntVal(0))}

    def post(self, ex, args, kind, value, st):
        writes = [t for t in st.trace if t[0] == 'write_source_to_file_like']
        prints = [t for t in st.trace if t[0] == 'print']
        return [('the source is written to the file-like object exactly once and True is returned',
                 z3.BoolVal(kind == 'return' and value is True and len(writes) == 1)),
                ('nothing is printed to sys.stdout', z3.BoolVal(len(prints) == 0))]


def items():
    return [('src/cffi/recompiler.py', R, '_make_c_or_py_source', MakeSource(True)),
            ('src/cffi/recompiler.py', R, '_make_c_or_py_source', MakeSource(False))]


def filelike_items():
    return [('src/cffi/recompiler.py', R, '_make_c_or_py_source', MakeSourceFileLike())]
