"""Parser.parse_type_and_quals and the '...' refusal of Parser._get_type_and_quals (C30): what in-line ffi.typeof(text)
does with the AST that pycparser returns for  `void __dummy(\\n<text>\\n);`.

Assumed about pycparser (third party, not under contract; each shape was observed on the installed version and is
replayed with the text that produces it): the last external declaration is a Decl whose type is a FuncDecl; its `args`
is None when <text> is empty, otherwise a ParamList with at least one parameter -- a Typename, or an ID for an unknown
identifier; synthesized nodes may have `coord` None.  AST nodes have exactly the attributes of their __slots__."""
import ast

import z3

from .common import *
from .parsedecl import NODES, mk_node

R = new_registry()
R.globals['True'] = True
R.globals['False'] = False
R.globals['None'] = None
R.globals['pycparser'] = ('$module', 'pycparser')
R.globals['pycparser.c_ast'] = ('$module', 'pycparser.c_ast')
for _cls in NODES:
    R.globals['pycparser.c_ast.' + _cls] = ('$class', _cls)
R.globals['AssertionError'] = ('$excclass', 'AssertionError')
ALLOWED = ('CDefError', 'FFIError', 'NotImplementedError', 'VerificationError', 'VerificationMissing')
R.method_models['Parser._get_type_and_quals'] = lambda ex, st, o, pos, kw, n: iter([(st, (PObj('Type'), 0))])

SHAPES = ['empty: args is None', 'a type name', 'an unknown identifier']


def _mk_parse_type(shape, with_macros):
    class K(PyContract):
        name = 'cparser:Parser.parse_type_and_quals#%s/%s' % (shape, 'macros' if with_macros else 'no-macros')
        function = 'Parser.parse_type_and_quals'
        allowed = ALLOWED

        def setup(self, ex):
            if shape == SHAPES[0]:
                args = None
            elif shape == SHAPES[1]:
                args = mk_node('ParamList', params=[mk_node('Typename', type=mk_node('TypeDecl'))])
            else:
                args = mk_node('ParamList', params=[mk_node('ID')])
            fd = mk_node('FuncDecl', args=args)
            tree = mk_node('FileAST', ext=[mk_node('Decl', name='__dummy', type=fd)])
            macros = {'X': '5'} if with_macros else {}
            this = PObj('Parser')
            R.method_models['Parser._parse'] = lambda ex_, st, o, pos, kw, n: iter([(st, (tree, macros, 'src'))])
            return {'self': this, 'cdecl': SV(z3.String('cdecl'), 'str')}, []

        def post(self, ex, args, kind, value, st):
            if kind == 'raise':
                return [('only a cffi error class may leave', z3.BoolVal(value.cls in ALLOWED))]
            return [('a type and its qualifiers', z3.BoolVal(isinstance(value, tuple) and len(value) == 2))]
    return K()


def _mk_dots(coord_none):
    class K(PyContract):
        name = 'cparser:Parser._get_type_and_quals#bad-usage-of-dots/%s' % ('no-coord' if coord_none else 'coord')
        function = 'Parser._get_type_and_quals'
        allowed = ALLOWED

        def segment(self, fn):
            for s in ast.walk(fn):
                if isinstance(s, ast.If) and isinstance(s.test, ast.Compare) and isinstance(s.test.left, ast.Name) \
                        and s.test.left.id == 'ident' and isinstance(s.test.comparators[0], ast.Constant) \
                        and s.test.comparators[0].value == '__dotdotdot__':
                    return [s]
            return None

        def setup(self, ex):
            coord = None if coord_none else PObj('Coord', line=SV(z3.Int('line'), 'int'))
            return {'self': PObj('Parser'), 'ident': '__dotdotdot__', 'typenode': mk_node('TypeDecl', coord=coord)}, []

        def post(self, ex, args, kind, value, st):
            return [("a bare '...' where a type is expected is refused with a cffi error", z3.BoolVal(kind == 'raise' and value.cls in ALLOWED))]
    return K()


def items():
    out = []
    for shape in SHAPES:
        for m in (False, True):
            con = _mk_parse_type(shape, m)
            R.contracts[con.name] = con
            out.append(('src/cffi/cparser.py', R, con.function, con))
    for cn in (False, True):
        con = _mk_dots(cn)
        R.contracts[con.name] = con
        out.append(('src/cffi/cparser.py', R, con.function, con))
    return out


# ---------------------------------------------------------------------------------------------------------------
# `struct ...`, `union ...`, `enum ...`: '...' where a tag is expected

from vf.pyexec import inline_method          # noqa: E402

R.globals['model'] = ('$module', 'model')
R.globals['model.StructType'] = ('$class', 'StructType')
R.globals['model.UnionType'] = ('$class', 'UnionType')
R.constructors['StructType'] = lambda ex, st, pos, kw, n: iter([(st, PObj('StructType', name=pos[0], forcename=None))])
R.constructors['UnionType'] = lambda ex, st, pos, kw, n: iter([(st, PObj('UnionType', name=pos[0], forcename=None))])
R.method_models['Parser._build_enum_type'] = lambda ex, st, o, pos, kw, n: iter([(st, PObj('EnumType', name=pos[0], forcename=None))])
R.method_models['Parser._declare'] = inline_method('Parser._declare')        # the real function (with its assert) runs


def _mk_tag(kind, dots):
    class K(PyContract):
        name = 'cparser:Parser._get_struct_union_enum_type#new-%s/%s' % (kind, "'...' as its tag" if dots else 'a name as its tag')
        function = 'Parser._get_struct_union_enum_type'
        allowed = ALLOWED

        def segment(self, fn):
            for s in fn.body:
                if isinstance(s, ast.If) and isinstance(s.test, ast.Compare) and isinstance(s.test.left, ast.Name) \
                        and s.test.left.id == 'tp' and isinstance(s.test.ops[0], ast.Is):
                    return [s]
            return None

        def setup(self, ex):
            nm = '__dotdotdot__' if dots else 'foo'
            node = mk_node({'struct': 'Struct', 'union': 'Union', 'enum': 'Enum'}[kind], name=nm)
            this = PObj('Parser', _declarations={}, _included_declarations=set(), _options={})
            return {'self': this, 'kind': kind, 'type': node, 'name': nm, 'explicit_name': nm, 'key': '%s %s' % (kind, nm),
                    'tp': None, 'force_name': None, 'nested': False}, []

        def post(self, ex, args, kind_, value, st):
            if kind_ == 'raise':
                return [('only a cffi error class may leave', z3.BoolVal(value.cls in ALLOWED)),
                        ("refused only for '...'", z3.BoolVal(dots))]
            return [("'...' is not accepted as a tag", z3.BoolVal(not dots))]
    return K()


_items0 = items


def items():                                 # noqa: F811
    out = _items0()
    for kind in ('struct', 'union', 'enum'):
        for dots in (False, True):
            con = _mk_tag(kind, dots)
            R.contracts[con.name] = con
            out.append(('src/cffi/cparser.py', R, con.function, con))
    return out


# ---------------------------------------------------------------------------------------------------------------
# Parser._declare itself: a name made with '...' (from any of its callers: typedef, struct tag, ...) is an error of the
# cdef, not an internal error

def _mk_declare_dots(name):
    class K(PyContract):
        pass
    K.name = 'cparser:Parser._declare#%s' % name
    K.function = 'Parser._declare'
    K.allowed = ALLOWED

    def setup(self, ex):
        this = PObj('Parser', _declarations={}, _included_declarations=set(), _options={})
        return {'self': this, 'name': name, 'obj': PObj('Type'), 'included': False, 'quals': 0}, []

    def post(self, ex, args, kind, value, st):
        dots = '__dotdotdot__' in name.split()
        if kind == 'raise':
            return [('only a cffi error class may leave', z3.BoolVal(value.cls in ALLOWED)), ("refused only for '...'", z3.BoolVal(dots))]
        return [("a name made with '...' is not declared", z3.BoolVal(not dots))]
    K.setup, K.post = setup, post
    return K()


_items1 = items


def items():                                 # noqa: F811
    out = _items1()
    for nm in ('typedef __dotdotdot__', 'struct __dotdotdot__', 'typedef foo_t', 'variable __dotdotdot__'):
        con = _mk_declare_dots(nm)
        R.contracts[con.name] = con
        out.append(('src/cffi/cparser.py', R, con.function, con))
    return out
