"""Contracts for src/cffi/_cffi_gen_src.py (C24): the tool performs exactly the FFI calls that a user of
FFI.emit_c_code() would, and writes the text it got back unchanged.

Ghost: every call on an FFI object is appended to st.trace; emit_c_code(buffer) puts the ghost text
EMIT(ffi) into the buffer (what FFI.emit_c_code produces for the state described by the trace)."""
import z3

from .common import *

R = new_registry()
R.globals['FFI'] = ('$class', 'FFI')
R.globals['io'] = ('$module', 'io')
R.globals['io.StringIO'] = ('$class', 'StringIO')
R.globals['sys'] = ('$module', 'sys')
R.globals['os'] = ('$module', 'os')
R.globals['os.path'] = ('$module', 'os.path')
STDOUT = PObj('Stdout')
R.globals['sys.stdout'] = STDOUT
SYSPATH = ['<entry0>', '<entry1>']
R.globals['sys.path'] = SYSPATH
emit = z3.Function('EMIT', I, S)         # ghost: the text emit_c_code produces for FFI object #id
_ids = [0]


def new_ffi(tag='FFI'):
    _ids[0] += 1
    return PObj('FFI', **{'$id': _ids[0], 'tag': tag})


def _ffi_ctor(ex, st, pos, kw, n):
    o = new_ffi()
    st.trace.append(('FFI()', o))
    yield st, o


R.constructors['FFI'] = _ffi_ctor
R.constructors['StringIO'] = lambda ex, st, pos, kw, n: iter([(st, PObj('StringIO', content=''))])


def _meth(tag):
    def m(ex, st, o, pos, kw, n):
        st.trace.append((tag, o) + tuple(pos))
        yield st, None
    return m


R.method_models['FFI.cdef'] = _meth('cdef')
R.method_models['FFI.set_source'] = _meth('set_source')


def _emit(ex, st, o, pos, kw, n):
    buf = pos[0]
    st.trace.append(('emit_c_code', o, buf))
    if isinstance(buf, PObj) and buf.cls == 'StringIO':
        buf.attrs['content'] = SV(emit(z3.IntVal(o.attrs['$id'])), 'str')
    yield st, None


R.method_models['FFI.emit_c_code'] = _emit
R.method_models['StringIO.getvalue'] = lambda ex, st, o, pos, kw, n: iter([(st, o.attrs['content'])])
R.method_models['Stdout.write'] = _meth('stdout.write')


def _open(ex, st, pos, kw, n):
    f = PObj('File', path=pos[0], mode=pos[1] if len(pos) > 1 else 'r', encoding=kw.get('encoding'))
    st.trace.append(('open', f, pos[0], f.attrs['mode'], f.attrs['encoding']))
    yield st, f


R.builtin_models['open'] = _open
R.method_models['File.write'] = _meth('file.write')


def _fread(ex, st, o, pos, kw, n):
    st.trace.append(('read', o))
    yield st, o.attrs['content']


R.method_models['InFile.read'] = _fread


def _with(ex, n, st):
    from vf.pyexec import Outcome

    def enter(items, s):
        if not items:
            return ex.exec_block(n.body, s)
        item = items[0]
        outs = []
        for s1, f in ex.ev(item.context_expr, s):
            if isinstance(f, Exc):
                outs.append(Outcome(s1, 'raise', f))
                continue
            if item.optional_vars is not None:
                ex.assign(item.optional_vars, f, s1)
            for o in enter(items[1:], s1):
                o.st.trace.append(('close', f))
                outs.append(o)
        return outs
    return enter(list(n.items), st)


R.hooks['with'] = _with
R.globals['os.path.abspath'] = ('$builtin', 'abspath')
R.globals['os.path.dirname'] = ('$builtin', 'dirname')
R.builtin_models['abspath'] = lambda ex, st, pos, kw, n: iter([(st, ex.fresh('abspath', 'str'))])
R.builtin_models['dirname'] = lambda ex, st, pos, kw, n: iter([(st, ex.fresh('dirname', 'str'))])
T = z3.BoolVal


def same(a, b):
    """same object up to the copying done when paths fork"""
    return isinstance(a, PObj) and isinstance(b, PObj) and a.attrs.get('$id') == b.attrs.get('$id') and a.cls == b.cls


class MakeFFI(PyContract):
    name = 'gen:make_ffi_from_sources'
    label = 'make_ffi_from_sources'

    def setup(self, ex):
        self.a = {'modulename': SV(z3.String('modulename'), 'str'), 'cdef': SV(z3.String('cdef_text'), 'str'),
                  'csrc': SV(z3.String('prelude'), 'str')}
        return dict(self.a), []

    def post(self, ex, args, kind, value, st):
        tr = st.trace
        ok = (kind == 'return' and isinstance(value, PObj) and value.cls == 'FFI' and len(tr) == 3 and
              tr[0][0] == 'FFI()' and same(tr[0][1], value) and
              tr[1][0] == 'cdef' and same(tr[1][1], value) and tr[1][2] is st.env['cdef'] and
              tr[2][0] == 'set_source' and same(tr[2][1], value) and tr[2][2] is st.env['modulename'] and tr[2][3] is st.env['csrc'])
        return [('exactly FFI(); cdef(cdef text); set_source(module name, prelude) on one new FFI, which is returned',
                 T(bool(ok)))]


class GenerateC(PyContract):
    name = 'gen:generate_c_source'
    label = 'generate_c_source'

    def setup(self, ex):
        self.ffi = new_ffi('given')
        return {'ffi': self.ffi}, []

    def post(self, ex, args, kind, value, st):
        tr = st.trace
        shape = kind == 'return' and len(tr) == 1 and tr[0][0] == 'emit_c_code' and same(tr[0][1], st.env['ffi'])
        goal = term(value) == emit(z3.IntVal(self.ffi.attrs['$id'])) if shape and ty_of(value) == 'str' else T(False)
        return [('calls ffi.emit_c_code(buffer) once and returns exactly the text it produced', goal)]


class WriteC(PyContract):
    name = 'gen:write_c_source'

    def __init__(self, stdout):
        self.stdout = stdout
        self.label = "output '-'" if stdout else 'output file'

    def setup(self, ex):
        self.gen = SV(z3.String('generated'), 'str')
        out = '-' if self.stdout else SV(z3.String('output_path'), 'str')
        assume = [] if self.stdout else [out.t != z3.StringVal('-')]
        return {'output': out, 'generated': self.gen}, assume

    def post(self, ex, args, kind, value, st):
        tr = [t for t in st.trace if t[0] != 'close']
        if self.stdout:
            ok = kind == 'return' and len(tr) == 1 and tr[0][0] == 'stdout.write' and tr[0][2] is st.env['generated']
            return [("output '-': the text goes to sys.stdout unchanged, nothing else is written", T(bool(ok)))]
        ok = (kind == 'return' and len(tr) == 2 and tr[0][0] == 'open' and tr[0][2] is st.env['output'] and
              tr[0][3] == 'w' and tr[0][4] == 'utf-8' and tr[1][0] == 'file.write' and tr[1][1] is tr[0][1] and
              tr[1][2] is st.env['generated'] and any(t[0] == 'close' and t[1] is tr[0][1] for t in st.trace))
        return [('the text is written unchanged, as UTF-8, to the output path, and the file is closed', T(bool(ok)))]


class AtSite(PyContract):
    def __init__(self, tag, result=None):
        self.tag, self.result = tag, result

    def call(self, ex, st, pos, kw):
        st.trace.append((self.tag,) + tuple(pos) + tuple(sorted(kw.items())))
        r = self.result(ex, st, pos, kw) if self.result else None
        return [([], 'return', r)]


class ReadSources(PyContract):
    name = 'gen:read_sources'
    label = 'read_sources'

    def setup(self, ex):
        self.cdef_t, self.csrc_t = SV(z3.String('cdef_file_content'), 'str'), SV(z3.String('csrc_file_content'), 'str')
        self.ffi = new_ffi('made')
        self.text = SV(z3.String('generated_text'), 'str')
        ex.reg.globals['make_ffi_from_sources'] = ('$contract', AtSite('make_ffi', lambda *a: self.ffi))
        ex.reg.globals['generate_c_source'] = ('$contract', AtSite('generate', lambda *a: self.text))
        ex.reg.globals['write_c_source'] = ('$contract', AtSite('write'))
        return {'output': SV(z3.String('output'), 'str'), 'module_name': SV(z3.String('module_name'), 'str'),
                'cdef_input': PObj('InFile', content=self.cdef_t, name='cdef'),
                'csrc_input': PObj('InFile', content=self.csrc_t, name='csrc')}, []

    def post(self, ex, args, kind, value, st):
        calls = [t for t in st.trace if t[0] in ('make_ffi', 'generate', 'write')]
        ok = (kind == 'return' and len(calls) == 3 and
              calls[0][0] == 'make_ffi' and calls[0][1] is st.env['module_name'] and calls[0][2] is self.cdef_t and
              calls[0][3] is self.csrc_t and
              calls[1][0] == 'generate' and same(calls[1][1], self.ffi) and
              calls[2][0] == 'write' and calls[2][1] is st.env['output'] and calls[2][2] is self.text)
        return [('FFI made from (module name, cdef file text, prelude file text) in that order; its emit_c_code text '
                 'is written unchanged to the output', T(bool(ok)))]


class ExecPython(PyContract):
    name = 'gen:exec_python'
    label = 'exec_python'

    def setup(self, ex):
        self.src = SV(z3.String('script_text'), 'str')
        self.ffi = new_ffi('found')
        self.text = SV(z3.String('generated_text'), 'str')
        ex.reg.globals['find_ffi_in_python_script'] = ('$contract', AtSite('find', lambda *a: self.ffi))
        ex.reg.globals['generate_c_source'] = ('$contract', AtSite('generate', lambda *a: self.text))
        ex.reg.globals['write_c_source'] = ('$contract', AtSite('write'))
        return {'output': SV(z3.String('output'), 'str'), 'ffi_var': SV(z3.String('ffi_var'), 'str'),
                'pyfile': PObj('InFile', content=self.src, name='script.py')}, []

    def post(self, ex, args, kind, value, st):
        calls = [t for t in st.trace if t[0] in ('find', 'generate', 'write')]
        ok = (kind == 'return' and len(calls) == 3 and calls[0][0] == 'find' and calls[0][1] is self.src and
              calls[0][2] == 'script.py' and calls[0][3] is st.env['ffi_var'] and calls[1][0] == 'generate' and same(calls[1][1], self.ffi) and
              calls[2][0] == 'write' and calls[2][1] is st.env['output'] and calls[2][2] is self.text)
        return [('the FFI bound by the script under --ffi-var is the one whose emit_c_code text is written unchanged',
                 T(bool(ok)))]


class FindFFI(PyContract):
    """find_ffi_in_python_script: which object is used, and when it is called"""
    name = 'gen:find_ffi_in_python_script'
    allowed = ('NameError', 'TypeError')

    def __init__(self, case):
        self.case = case
        self.label = case

    def setup(self, ex):
        self.bound = new_ffi('bound')
        self.returned = new_ffi('returned')
        case = self.case

        def call_it(ex_, st, f, pos, kw, n):
            st.trace.append(('called', f))
            yield st, (self.returned if case == 'callable returning an FFI' else PObj('Junk'))
        self.callable = PObj('Function', **{'$callable': True, '$call': call_it})

        def execfile(ex_, st, pos, kw, n):
            globs = pos[2]
            st.trace.append(('exec', pos[0], pos[1], globs.get('__name__')))
            if case == 'FFI instance':
                globs['ffivar'] = self.bound
            elif case in ('callable returning an FFI', 'callable returning something else'):
                globs['ffivar'] = self.callable
            elif case == 'other object':
                globs['ffivar'] = PObj('Junk')
            yield st, None
        ex.reg.globals['_execfile'] = ('$builtin', '_execfile')
        ex.reg.builtin_models['_execfile'] = execfile
        return {'pysrc': SV(z3.String('script_text'), 'str'), 'filename': SV(z3.String('filename'), 'str'),
                'ffivar': 'ffivar'}, []

    def post(self, ex, args, kind, value, st):
        c = self.case
        execs = [t for t in st.trace if t[0] == 'exec']
        calls = [t for t in st.trace if t[0] == 'called']
        base = len(execs) == 1 and execs[0][1] is st.env['pysrc'] and execs[0][3] == 'cffi.gen_src' and \
            ex.reg.globals['sys.path'] == ['<entry0>', '<entry1>']
        if c == 'FFI instance':
            ok = kind == 'return' and value is not None and value.attrs.get('tag') == 'bound' and not calls
        elif c == 'callable returning an FFI':
            ok = kind == 'return' and value.attrs.get('tag') == 'returned' and len(calls) == 1
        elif c == 'name not bound':
            ok = kind == 'raise' and value.cls == 'NameError'
        else:
            ok = kind == 'raise' and value.cls == 'TypeError'
        return [('script executed once as module cffi.gen_src, sys.path restored; %s' % {
            'FFI instance': 'an FFI bound to the name is used directly, never called',
            'callable returning an FFI': 'a non-FFI callable is called exactly once and its FFI result is used',
            'callable returning something else': 'a callable returning a non-FFI raises TypeError',
            'other object': 'a non-FFI, non-callable object raises TypeError',
            'name not bound': 'a missing name raises NameError'}[c], T(bool(base and ok)))]


def items():
    its = [('make_ffi_from_sources', MakeFFI()), ('generate_c_source', GenerateC()),
           ('write_c_source', WriteC(True)), ('write_c_source', WriteC(False)),
           ('read_sources', ReadSources()), ('exec_python', ExecPython())]
    its += [('find_ffi_in_python_script', FindFFI(c)) for c in
            ('FFI instance', 'callable returning an FFI', 'callable returning something else', 'other object',
             'name not bound')]
    return [('src/cffi/_cffi_gen_src.py', R, q, c) for q, c in its]
