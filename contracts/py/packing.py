"""Python side of struct packing (C01): how `packed=` / `pack=` of cdef() reaches the backend's layout code.

  Parser.parse                        packed=True -> 1;  pack=N -> N, refused unless a power of two;  neither -> 0;
                                      the value is stored as self._options['packed'] while the source is parsed
  StructOrUnion.finish_backend_type   the backend call gets no extra flag when packed is 0, (8,) = SF_PACKED when it
                                      is 1, and (0, packed) otherwise
(The step in between, Parser._get_struct_union_enum_type storing the option on every struct/union it completes,
nested and anonymous ones included, is an unconditional-assignment obligation on the AST: props/C01.py.)
"""
import z3

from .common import *
from vf.pyexec import bitand

R = new_registry()
R.globals['ValueError'] = ('$excclass', 'ValueError')
R.globals['NotImplementedError'] = ('$excclass', 'NotImplementedError')
R.globals['True'] = True


def ispow2(p):
    return z3.Or(*[p == (1 << k) for k in range(0, 63)])


def pow2_lemma_instance(p):
    """instance of lemma `pow2-test` (discharged on 64-bit vectors, pow2_lemma() below):
    for 0 <= p < 2^62:  p & (p - 1) == 0  <=>  p == 0 or p is a power of two"""
    return (bitand(p, p - 1) == 0) == z3.Or(p == 0, ispow2(p))


def pow2_lemma():
    from vf.smt import Ob
    x = z3.BitVec('x', 64)
    pw = z3.Or(*[x == z3.BitVecVal(1 << k, 64) for k in range(0, 63)])
    return [Ob('contracts/py/packing.py:lemma:pow2-test[x & (x-1) == 0 iff x is 0 or a power of two, 64-bit]',
               [z3.ULT(x, z3.BitVecVal(1 << 62, 64))], ((x & (x - 1)) == 0) == z3.Or(x == 0, pw), kind='lemma')]


class ParsePack(PyContract):
    name = 'cparser:Parser.parse'
    allowed = ('ValueError',)

    def setup(self, ex):
        self.packed_true = z3.Bool('packed_is_True')
        self.pack = z3.Int('pack')
        self.has_pack = z3.Bool('pack_given')
        this = PObj('Parser', _options={})
        self.this = this
        R.method_models['Parser._internal_parse'] = self._internal
        self.seen = []
        # packed is False or True (any other truthy value is refused by the first test, not explored here)
        return ({'self': this, 'csource': 'src', 'override': False,
                 'packed': SV(self.packed_true, 'bool'),
                 'pack': SV(self.pack, 'int'), 'dllexport': False},
                [self.pack >= 0, self.pack < (1 << 62), pow2_lemma_instance(self.pack)])

    def _internal(self, ex, st, o, pos, kw, n):
        self.seen.append((st, o.attrs['_options']))
        st.trace.append(('_internal_parse', o.attrs['_options'].get('packed')))
        yield st, None

    def witness(self, ex, args):
        return {'pack': self.pack}

    def post(self, ex, args, kind, value, st):
        calls = [t for t in st.trace if t[0] == '_internal_parse']
        ispow2_ = ispow2(self.pack)
        if kind == 'raise':
            return [('ValueError only for both packed and pack, or a pack that is not a power of two',
                     z3.Or(z3.And(self.packed_true, self.pack != 0), z3.And(z3.Not(self.packed_true), self.pack != 0, z3.Not(ispow2_)))),
                    ('nothing is parsed then', z3.BoolVal(len(calls) == 0))]
        if len(calls) != 1:
            return [('the source is parsed exactly once', z3.BoolVal(False))]
        opt = calls[0][1]
        want = z3.If(self.packed_true, z3.IntVal(1), self.pack)
        return [("while parsing, options['packed'] is 1 for packed=True, N for pack=N, 0 otherwise", term(opt) == want),
                ('an accepted pack is 0 or a power of two', z3.Or(self.packed_true, self.pack == 0, ispow2_))]


R.contracts[ParsePack.name] = ParsePack()


class FinishBackend(PyContract):
    name = 'model:StructOrUnion.finish_backend_type'
    allowed = ('NotImplementedError',)

    def setup(self, ex):
        self.packed = z3.Int('packed')
        this = PObj('StructType', completed=0, fldtypes=(), fldnames=(), fldbitsize=(), fixedlayout=None,
                    packed=SV(self.packed, 'int'), name='s')
        btype = PObj('BType', name='struct s')
        backend = PObj('Backend')
        ffi = PObj('FFI', _backend=backend)
        ffi.attrs['_cached_btypes'] = {this: btype}
        R.method_models['Backend.complete_struct_or_union'] = self._complete
        self.this, self.btype = this, btype
        return {'self': this, 'ffi': ffi, 'finishlist': []}, [self.packed >= 0]

    def _complete(self, ex, st, o, pos, kw, n):
        st.trace.append(('complete_struct_or_union',) + tuple(pos))
        yield st, None

    def witness(self, ex, args):
        return {'packed': self.packed}

    def post(self, ex, args, kind, value, st):
        calls = [t for t in st.trace if t[0] == 'complete_struct_or_union']
        if kind == 'raise':
            return [('no exception for a struct that is not being completed recursively', z3.BoolVal(False))]
        if len(calls) != 1:
            return [('the backend is asked to lay the struct out exactly once', z3.BoolVal(False))]
        a = calls[0][1:]
        def is_m1(v):
            return (isinstance(v, int) and v == -1) or (is_sym(v) and z3.is_true(z3.simplify(term(v) == -1)))
        out = [('the ctype, the field list and the model object are passed, size and alignment left to the backend (-1, -1)',
                z3.BoolVal(len(a) >= 5 and isinstance(a[0], PObj) and a[0].cls == 'BType' and isinstance(a[2], PObj)
                           and a[2].cls == 'StructType' and a[1] == [] and is_m1(a[3]) and is_m1(a[4])))]
        extra = a[5:]
        p = self.packed
        if len(extra) == 0:
            out.append(('no flag is passed only when the struct is not packed', p == 0))
        elif len(extra) == 1:
            out.append(('the single flag SF_PACKED (8) is passed exactly for packed == 1',
                        z3.And(p == 1, term(extra[0]) == 8)))
        elif len(extra) == 2:
            out.append(('(sflags 0, pack N) is passed exactly for packed == N > 1',
                        z3.And(p > 1, term(extra[0]) == 0, term(extra[1]) == p)))
        else:
            out.append(('at most two extra arguments', z3.BoolVal(False)))
        return out


R.contracts[FinishBackend.name] = FinishBackend()


def items():
    return [('src/cffi/cparser.py', R, 'Parser.parse', R.contracts[ParsePack.name]),
            ('src/cffi/model.py', R, 'StructOrUnion.finish_backend_type', R.contracts[FinishBackend.name])]
