"""Python side of ffi.include() (C34): Parser.include shares the model objects of the included parser -- the very
objects, not copies -- and never silently replaces a declaration.

  Parser._declare        an exhaustive case split over how the new declaration relates to what is already declared
                         under that name (nothing / the same object and qualifiers / the same object, other qualifiers
                         / another object) x override x included
  Parser._add_constants  new / same value / other value
  Parser.include         on an included parser that declares one entry of every kind word the parser ever uses
                         (the kind words are collected from the `_declare` call sites of the real file on every run):
                         exactly the struct / union / enum / anonymous / typedef entries arrive, as the same objects
                         with the same qualifiers, marked as included; functions, variables, constants, macros and
                         anonymous-enum entries do not; every integer constant arrives with its value
"""
import ast
import os

import z3

from .common import *
from vf import cfront
from vf.pyexec import inline_method

R = new_registry()
R.globals['True'] = True
R.globals['False'] = False
R.method_models['Parser._declare'] = inline_method('Parser._declare')
R.method_models['Parser._add_constants'] = inline_method('Parser._add_constants')


def uid(o):
    return o.attrs.get('uid') if isinstance(o, PObj) else None


def _parser(decls=None, consts=None, override=False):
    return PObj('Parser', _declarations=dict(decls or {}), _included_declarations=set(), _int_constants=dict(consts or {}),
                _options={'override': override} if override is not None else {})


CASES = ['absent', 'same', 'same-object-other-quals', 'other-object']


def _mk_declare(case, override, included):
    class K(PyContract):
        name = 'cparser:Parser._declare#%s/override=%s/included=%s' % (case, override, included)
        function = 'Parser._declare'
        allowed = ('FFIError',)

        def setup(self, ex):
            self.obj = PObj('StructType', name='foo', uid='obj')
            self.other = PObj('StructType', name='foo', uid='other')
            self.quals = z3.Int('quals')
            self.prevquals = z3.Int('prevquals')
            bystander = PObj('StructType', name='bar', uid='bystander')
            self.bystander = bystander
            decls = {'struct bar': (bystander, 0)}
            hyps = []
            if case == 'same':
                decls['struct foo'] = (self.obj, SV(self.quals, 'int'))
            elif case == 'same-object-other-quals':
                decls['struct foo'] = (self.obj, SV(self.prevquals, 'int'))
                hyps.append(self.prevquals != self.quals)
            elif case == 'other-object':
                decls['struct foo'] = (self.other, SV(self.prevquals, 'int'))
            self.this = _parser(decls, override=override)
            return ({'self': self.this, 'name': 'struct foo', 'obj': self.obj, 'included': included,
                     'quals': SV(self.quals, 'int')}, hyps)

        def post(self, ex, args, kind, value, st):
            this = st.env['self']
            d = this.attrs['_declarations']
            inc = {uid(o) for o in this.attrs['_included_declarations']}
            conflict = case in ('same-object-other-quals', 'other-object')
            prev_uid = {'absent': None, 'same': 'obj', 'same-object-other-quals': 'obj', 'other-object': 'other'}[case]
            ent = d.get('struct foo')
            bys = d.get('struct bar')
            bys_ok = isinstance(bys, tuple) and uid(bys[0]) == 'bystander' and bys[1] == 0 and len(d) == (2 if ent is not None else 1)
            if kind == 'raise':
                return [('FFIError only for a conflicting redeclaration without override', z3.BoolVal(conflict and not override)),
                        ('nothing is replaced then', z3.BoolVal(bys_ok and isinstance(ent, tuple) and uid(ent[0]) == prev_uid)),
                        ('and the old qualifiers stay', term(ent[1]) == self.prevquals if isinstance(ent, tuple) and is_sym(ent[1]) else z3.BoolVal(False))]
            out = [('a conflicting redeclaration is refused unless override is on', z3.BoolVal(not conflict or override))]
            ok_obj = isinstance(ent, tuple) and uid(ent[0]) == 'obj'
            out.append(('the name now denotes the very object given (not a copy)', z3.BoolVal(ok_obj)))
            if ok_obj:
                q = ent[1]
                out.append(('with the qualifiers given', (term(q) if is_sym(q) else z3.IntVal(q)) == self.quals))
            out.append(('other declarations are untouched', z3.BoolVal(bys_ok)))
            if case != 'same':
                out.append(('included declarations are marked as such, others are not',
                            z3.BoolVal(('obj' in inc) == bool(included) and 'bystander' not in inc and 'other' not in inc)))
            return out
    K.__name__ = 'declare_' + case
    return K()


DECLARE = [_mk_declare(cs, ov, inc) for cs in CASES for ov in (False, True) for inc in (False, True)]


def _mk_const(case):
    class K(PyContract):
        name = 'cparser:Parser._add_constants#%s' % case
        function = 'Parser._add_constants'
        allowed = ('FFIError',)

        def setup(self, ex):
            self.val, self.prev = z3.Int('val'), z3.Int('prev')
            consts = {'OTHER': 7}
            hyps = []
            if case == 'same-value':
                consts['K'] = SV(self.val, 'int')
            elif case == 'other-value':
                consts['K'] = SV(self.prev, 'int')
                hyps.append(self.prev != self.val)
            self.this = _parser(consts=consts)
            return {'self': self.this, 'key': 'K', 'val': SV(self.val, 'int')}, hyps

        def post(self, ex, args, kind, value, st):
            d = st.env['self'].attrs['_int_constants']
            if kind == 'raise':
                return [('FFIError only for a constant already declared with another value', z3.BoolVal(case == 'other-value')),
                        ('the old value stays', term(d['K']) == self.prev if case == 'other-value' else z3.BoolVal(False))]
            v = d.get('K')
            return [('a constant declared with another value is refused', z3.BoolVal(case != 'other-value')),
                    ('the constant has the value given', (term(v) if is_sym(v) else z3.IntVal(v)) == self.val if v is not None else z3.BoolVal(False)),
                    ('other constants are untouched', z3.BoolVal(d.get('OTHER') == 7 and len(d) == 2))]
    return K()


CONSTS = [_mk_const(cs) for cs in ('new', 'same-value', 'other-value')]


def kind_words():
    """every kind word (first word of a declaration name) the parser ever declares: from the `_declare(...)` call sites
    of the real cparser.py -- string literals and '%s' formats whose first word is fixed, plus the tag variable of
    _declare_function"""
    src = open(os.path.join(cfront.REPO, 'src', 'cffi', 'cparser.py')).read()
    tree = ast.parse(src)
    words = set()
    unknown = []
    for n in ast.walk(tree):
        if isinstance(n, ast.Call) and isinstance(n.func, ast.Attribute) and n.func.attr == '_declare' and n.args:
            a = n.args[0]
            lit = None
            if isinstance(a, ast.Constant) and isinstance(a.value, str):
                lit = a.value
            elif isinstance(a, ast.BinOp) and isinstance(a.left, ast.Constant) and isinstance(a.left.value, str):
                lit = a.left.value
            elif isinstance(a, ast.BinOp) and isinstance(a.op, ast.Add) and isinstance(a.left, ast.Name) and a.left.id == 'tag':
                lit = None
                for m in ast.walk(tree):
                    if isinstance(m, ast.Assign) and any(isinstance(t, ast.Name) and t.id == 'tag' for t in m.targets) \
                            and isinstance(m.value, ast.Constant):
                        words.add(m.value.value.split(' ', 1)[0])
                continue
            elif isinstance(a, ast.Name) and a.id in ('name', 'key'):
                continue          # (Parser.include itself, _get_struct_union_enum_type's explicit key: covered below)
            if lit is None or ' ' not in lit:
                unknown.append(ast.get_source_segment(src, n))
            else:
                words.add(lit.split(' ', 1)[0])
    for m in ast.walk(tree):
        # _get_struct_union_enum_type: key = '%s %s' % (kind, name) with kind in ('struct', 'union', 'enum'); anonymous: '$...'
        if isinstance(m, ast.Constant) and isinstance(m.value, str) and m.value.startswith('anonymous '):
            words.add('anonymous')
    words |= {'struct', 'union', 'enum'}
    return sorted(words), unknown


class Include(PyContract):
    name = 'cparser:Parser.include'
    allowed = ()

    def setup(self, ex):
        words, unknown = kind_words()
        self.words, self.unknown = words, unknown
        self.objs = {}
        decls = {}
        for k, w in enumerate(words):
            o = PObj('Decl', name='n%d' % k, uid='decl-' + w)
            q = z3.Int('q_%s' % w)
            self.objs[w] = (o, q)
            decls['%s n%d' % (w, k)] = (o, SV(q, 'int'))
        ae = PObj('Decl', name='ae', uid='anonymous-enum')
        decls['anonymous $enum_$1'] = (ae, 0)
        self.ae = ae
        self.other = _parser(decls, consts={'A': SV(z3.Int('cA'), 'int'), 'B': 5})
        self.this = _parser({'struct mine': (PObj('Decl', name='mine'), 0)}, consts={'C': 1})
        return {'self': self.this, 'other': self.other}, []

    def post(self, ex, args, kind, value, st):
        this = st.env['self']
        d = this.attrs['_declarations']
        inc = {uid(o) for o in this.attrs['_included_declarations']}
        shared = ('struct', 'union', 'enum', 'anonymous', 'typedef')
        out = [('every kind word of the parser is known to this check (none built in a way the scan cannot read): %s'
                % ', '.join(self.words), z3.BoolVal(not self.unknown and set(shared) <= set(self.words)))]
        for k, w in enumerate(self.words):
            key = '%s n%d' % (w, k)
            o, q = self.objs[w]
            if w in shared:
                ent = d.get(key)
                ok = isinstance(ent, tuple) and uid(ent[0]) == 'decl-' + w
                out.append(("a '%s' declaration of the included FFI is visible as the very same object" % w, z3.BoolVal(ok)))
                if ok:
                    out.append(("with its qualifiers ('%s')" % w, (term(ent[1]) if is_sym(ent[1]) else z3.IntVal(ent[1])) == q))
                out.append(("and is marked as included ('%s')" % w, z3.BoolVal('decl-' + w in inc)))
            else:
                out.append(("a '%s' declaration is not copied (functions, variables and constants are reached through the "
                            "included lib)" % w, z3.BoolVal(key not in d)))
        out.append(('anonymous enums are skipped', z3.BoolVal('anonymous $enum_$1' not in d and 'anonymous-enum' not in inc)))
        c = this.attrs['_int_constants']
        out.append(('every integer constant of the included FFI is visible with its value',
                    z3.And(term(c['A']) == z3.Int('cA') if 'A' in c and is_sym(c['A']) else z3.BoolVal(False),
                           z3.BoolVal(c.get('B') == 5 and c.get('C') == 1))))
        out.append(('own declarations stay', z3.BoolVal('struct mine' in d)))
        return out


INCLUDE = Include()


class IncludeConflict(PyContract):
    """an integer constant that both FFIs declare with different values is refused, not silently kept or replaced"""
    name = 'cparser:Parser.include#conflicting-constant'
    function = 'Parser.include'
    allowed = ('FFIError',)

    def setup(self, ex):
        self.v1, self.v2 = z3.Int('v_other'), z3.Int('v_self')
        self.other = _parser({}, consts={'K': SV(self.v1, 'int')})
        self.this = _parser({}, consts={'K': SV(self.v2, 'int')})
        return {'self': self.this, 'other': self.other}, []

    def post(self, ex, args, kind, value, st):
        if kind == 'raise':
            return [('FFIError only when the two values differ', self.v1 != self.v2)]
        c = st.env['self'].attrs['_int_constants']
        return [('accepted only when the two values are equal', self.v1 == self.v2),
                ('and the value stays', term(c['K']) == self.v2 if is_sym(c.get('K')) else z3.BoolVal(False))]


INCLUDE_CONFLICT = IncludeConflict()


def items():
    out = []
    for con in DECLARE + CONSTS:
        R.contracts[con.name] = con
        out.append(('src/cffi/cparser.py', R, con.function, con))
    R.contracts[INCLUDE.name] = INCLUDE
    out.append(('src/cffi/cparser.py', R, 'Parser.include', INCLUDE))
    R.contracts[INCLUDE_CONFLICT.name] = INCLUDE_CONFLICT
    out.append(('src/cffi/cparser.py', R, 'Parser.include', INCLUDE_CONFLICT))
    return out
