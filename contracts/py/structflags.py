"""Recompiler._struct_ctx, the flag word it prints for a struct/union (C12: which declarations are CHECKED against the
compiler; C34: which are fetched from an included module).

A *segment contract*: the statements from `flags = []` to `flags = '|'.join(flags) or '0'` are selected mechanically
from the real AST on every run; they depend on their inputs only through seven tests (union?, opaque?, type in the
included declarations?, named_ptr given / in the included declarations?, partial?, anonymous struct fields?, packed 0 / 1
/ more).  The contract runs the segment on every combination of outcomes of these tests -- an exhaustive case split over
the branch conditions -- and demands exactly the flag set the property needs:

  _CFFI_F_UNION         iff a union
  _CFFI_F_OPAQUE        iff no field list
  _CFFI_F_EXTERNAL      iff the type (or the typedef'd pointer it is reached through) comes from an included FFI
  _CFFI_F_CHECK_FIELDS  iff own, not opaque, not partial ('...'), no anonymous struct fields: layout CHECKED
  _CFFI_F_PACKED        iff own and packed=True;  pack=N (N > 1) is refused with NotImplementedError, for own types only
"""
import ast
import itertools

import z3

from .common import *

R = new_registry()
R.globals['True'] = True
R.globals['False'] = False
R.globals['None'] = None
R.globals['NotImplementedError'] = ('$excclass', 'NotImplementedError')
R.globals['model'] = ('$module', 'model')
R.globals['model.UnionType'] = ('$class', 'UnionType')
R.classes['UnionType'] = 'StructOrUnion'
R.classes['StructType'] = 'StructOrUnion'
R.method_models['StructType.anonymous_struct_fields'] = lambda ex, st, o, pos, kw, n: iter([(st, list(o.attrs['$anon']))])
R.method_models['UnionType.anonymous_struct_fields'] = R.method_models['StructType.anonymous_struct_fields']

CASES = list(itertools.product((False, True), (False, True), (False, True), ('none', 'own', 'included'), (False, True),
                               (False, True), (0, 1, 2, 8)))


def _mk(case):
    union, opaque, tp_included, named, partial, anon, packed = case

    class K(PyContract):
        name = 'recompiler:Recompiler._struct_ctx#' + '/'.join(str(x) for x in case)
        function = 'Recompiler._struct_ctx'
        allowed = ('NotImplementedError',)

        def segment(self, fn):
            body = fn.body
            start = [k for k, s in enumerate(body) if isinstance(s, ast.Assign) and isinstance(s.targets[0], ast.Name)
                     and s.targets[0].id == 'flags' and isinstance(s.value, ast.List)]
            end = [k for k, s in enumerate(body) if isinstance(s, ast.Assign) and isinstance(s.targets[0], ast.Name)
                   and s.targets[0].id == 'flags' and isinstance(s.value, ast.BoolOp)]
            if len(start) != 1 or len(end) != 1 or end[0] < start[0]:
                return None
            return body[start[0]:end[0] + 1]

        def setup(self, ex):
            tp = PObj('UnionType' if union else 'StructType', fldtypes=None if opaque else ('int',), partial=partial, packed=packed,
                      name='s', uid='tp')
            tp.attrs['$anon'] = ['x'] if anon else []
            ptr = None if named == 'none' else PObj('NamedPointerType', name='ps', uid='ptr')
            inc = set()
            if tp_included:
                inc.add(tp)
            if named == 'included':
                inc.add(ptr)
            parser = PObj('Parser', _included_declarations=inc)
            this = PObj('Recompiler', ffi=PObj('FFI', _parser=parser))
            return {'self': this, 'tp': tp, 'named_ptr': ptr, 'reason_for_not_expanding': None}, []

        def post(self, ex, args, kind, value, st):
            # (tp in X and (named_ptr is None or named_ptr not in X))  is "own"
            own = (not tp_included) and (named != 'included')
            if kind == 'raise':
                return [("NotImplementedError only for an own type declared with pack=N, N > 1", z3.BoolVal(own and packed > 1))]
            want = set()
            if union:
                want.add('_CFFI_F_UNION')
            if opaque:
                want.add('_CFFI_F_OPAQUE')
            if own:
                if not opaque and not partial and not anon:
                    want.add('_CFFI_F_CHECK_FIELDS')
                if packed:
                    want.add('_CFFI_F_PACKED')
            else:
                want.add('_CFFI_F_EXTERNAL')
            got = st.env.get('flags')
            gotset = set(got.split('|')) - {'0'} if isinstance(got, str) else None
            reason = st.env.get('reason_for_not_expanding')
            return [('pack=N with N > 1 is refused for own types', z3.BoolVal(not (own and packed > 1))),
                    ('the flag word is exactly %s' % ('|'.join(sorted(want)) or '0'), z3.BoolVal(gotset == want)),
                    ('fields are listed exactly for own, non-opaque declarations',
                     z3.BoolVal((reason is None) == (own and not opaque)))]
    return K()


CONTRACTS = [_mk(cs) for cs in CASES]


def items():
    out = []
    for con in CONTRACTS:
        R.contracts[con.name] = con
        out.append(('src/cffi/recompiler.py', R, con.function, con))
    return out
