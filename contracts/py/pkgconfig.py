"""Contracts for src/cffi/pkgconfig.py (C35).

Token sequences.  `string.split()` of a symbolic string is the symbolic sequence tokens(string): its
elements are exactly the maximal whitespace-free substrings, in order (A-PY, str.split with no
argument); the contracts never look inside it except through a *generic element* x (non-empty, no
whitespace).  A comprehension  [f(x) for x in tokens if p(x)]  is verified per element: on every path of
p and f for the generic x the contract's spec predicate/function must agree; the list-level statement
(filter-map of equal predicate and function over the same sequence gives the same list, order kept) is
the generic congruence lemma of filter/map (L-FILTERMAP, elementary induction; stated in DESIGN.md).
"""
import z3

from .common import *
from vf.pyexec import Exc, PObj, SV

R = new_registry()
R.globals['sys'] = ('$module', 'sys')
R.globals['os'] = ('$module', 'os')
R.globals['subprocess'] = ('$module', 'subprocess')
R.globals['sys.version_info'] = (3, 12, 1, 'final', 0)
R.globals['os.altsep'] = None
R.globals['subprocess.PIPE'] = -1
R.globals['sys.getfilesystemencoding'] = ('$builtin', 'getfilesystemencoding')
R.builtin_models['getfilesystemencoding'] = lambda ex, st, pos, kw, n: iter([(st, 'utf-8')])

WS = [' ', '\t', '\n', '\r', '\x0b', '\x0c']


class Tokens(SymSeq):
    """tokens(string): the result of string.split()"""
    cache = {}

    def __init__(self, s):
        SymSeq.__init__(self, 'tokens', 'str')
        self.string = s

    @classmethod
    def of(cls, s):
        key = s.t.get_id() if is_sym(s) else s
        if key not in cls.cache:
            cls.cache[key] = cls(s)
        return cls.cache[key]

    def element(self, ex):
        x = ex.fresh('token', 'str')
        facts = [z3.Length(x.t) > 0] + [z3.Not(z3.Contains(x.t, z3.StringVal(w))) for w in WS]
        return x, facts


class Comp:
    """the list  [value(x) for x in source if included(x)]  recorded per path of the generic element"""
    is_list = True

    def __init__(self, source, x, cases):
        self.source, self.x, self.cases = source, x, cases      # cases: [(pc list, included bool, value|Exc)]


class Segs:
    """a list known as a concatenation of Comp segments / concrete lists"""
    is_list = True

    def __init__(self, parts):
        self.parts = list(parts)


def _split(ex, st, o, pos, kw, n):
    if not pos:
        yield st, Tokens.of(o)
        return
    sep = pos[0]
    if len(pos) == 2 and pos[1] == 1 and not is_sym(sep):
        # x.split(sep, 1): [x] if sep does not occur, else [before first sep, rest]
        t = term(o)
        has = z3.Contains(t, z3.StringVal(sep))
        s0 = st.fork()
        s0.pc.append(z3.Not(has))
        if ex.feasible(s0):
            yield s0, [o]
        st.pc.append(has)
        if ex.feasible(st):
            i = z3.IndexOf(t, z3.StringVal(sep), 0)
            yield st, [SV(z3.SubString(t, 0, i), 'str'),
                       SV(z3.SubString(t, i + len(sep), z3.Length(t) - i - len(sep)), 'str')]
        return
    raise PyNotSupported("str.split(%r)" % (pos,))


def _partition(ex, st, o, pos, kw, n):
    sep = pos[0]
    if is_sym(sep):
        raise PyNotSupported("partition with symbolic separator")
    t = term(o)
    has = z3.Contains(t, z3.StringVal(sep))
    s0 = st.fork()
    s0.pc.append(z3.Not(has))
    if ex.feasible(s0):
        yield s0, (o, '', '')
    st.pc.append(has)
    if ex.feasible(st):
        i = z3.IndexOf(t, z3.StringVal(sep), 0)
        yield st, (SV(z3.SubString(t, 0, i), 'str'), sep,
                   SV(z3.SubString(t, i + len(sep), z3.Length(t) - i - len(sep)), 'str'))


def _strip(ex, st, o, pos, kw, n):
    yield st, ex.fresh('stripped', 'str')


R.method_models['str.split'] = _split
R.method_models['str.partition'] = _partition
R.method_models['str.strip'] = _strip


def _listcomp(ex, n, st, seq):
    if not isinstance(seq, Tokens):
        raise PyNotSupported("comprehension over %r" % (seq,))
    g = n.generators[0]
    x, facts = seq.element(ex)
    s = st.fork()
    s.pc.extend(facts)
    ex.assign(g.target, x, s)
    conds = [(s, True)]
    for cnd in g.ifs:
        c2 = []
        for cs, ok in conds:
            if ok is not True:
                c2.append((cs, ok))
            else:
                c2.extend(ex.branches(cnd, cs))
        conds = c2
    cases = []
    base = len(st.pc)
    for cs, ok in conds:
        if isinstance(ok, Exc):
            cases.append((cs.pc[base:], None, ok))
        elif ok:
            for es, v in ex.ev(n.elt, cs):
                cases.append((es.pc[base:], True, v))
        else:
            cases.append((cs.pc[base:], False, None))
    return Segs([Comp(seq, x, cases)])


R.hooks['listcomp'] = _listcomp

_old_isinstance = R.isinstance


def _isinstance(v, cls):
    if isinstance(cls, tuple) and cls[:1] == ('$builtin',) and cls[1] == 'list' and getattr(v, 'is_list', False):
        return True
    return _old_isinstance(v, cls)


R.isinstance = _isinstance


def _extend(ex, st, o, pos, kw, n):
    o.parts.extend(pos[0].parts if isinstance(pos[0], Segs) else [pos[0]])
    yield st, None


R.method_models['Segs.extend'] = _extend


# -- getters --------------------------------------------------------------------------------------------

PREFIX = {'get_include_dirs': '-I', 'get_library_dirs': '-L', 'get_libraries': '-l'}


class Getter(PyContract):
    """the six token filters of flags_from_pkgconfig"""

    def __init__(self, fname):
        self.fname = fname
        self.name = 'pkgconfig:flags_from_pkgconfig.' + fname
        self.label = fname

    def setup(self, ex):
        self.s = SV(z3.String('string'), 'str')
        return {'string': self.s}, []

    def spec(self, x):
        """(included, value as tuple of terms) for a token x  -- from the property statement"""
        sw = lambda p: z3.PrefixOf(z3.StringVal(p), x)
        rest = z3.SubString(x, 2, z3.Length(x) - 2)
        f = self.fname
        if f in PREFIX:
            return sw(PREFIX[f]), ('str', rest)
        if f == 'get_other_cflags':
            return z3.And(z3.Not(sw('-I')), z3.Not(sw('-D'))), ('str', x)
        if f == 'get_other_libs':
            return z3.And(z3.Not(sw('-L')), z3.Not(sw('-l'))), ('str', x)
        if f == 'get_macros':
            return sw('-D'), ('macro', rest)
        raise KeyError(f)

    def post(self, ex, args, kind, value, st):
        if kind == 'return' and isinstance(value, Segs) and len(value.parts) == 1:
            value = value.parts[0]
        if kind != 'return' or not isinstance(value, Comp):
            return [('returns a filtered list of the tokens', z3.BoolVal(False))]
        if not (isinstance(value.source, Tokens) and is_sym(value.source.string) and value.source.string.t.eq(self.s.t)):
            return [('iterates over string.split()', z3.BoolVal(False))]
        x = value.x.t
        inc, (kind_, want) = self.spec(x)
        out = []
        for k, (pc, included, v) in enumerate(value.cases):
            hyp = z3.And(*pc) if pc else z3.BoolVal(True)
            if included is None:
                out.append(('token processing raises no exception (%s)' % v.cls, z3.Not(hyp)))
                continue
            out.append(('token is included iff its prefix designates this keyword #%d' % k,
                        z3.Implies(hyp, inc == z3.BoolVal(included))))
            if included:
                if kind_ == 'str':
                    ok = term(v) == want if ty_of(v) == 'str' else z3.BoolVal(False)
                else:
                    # "-Dk=v" -> (k, v) split at the first '=', "-Dk" -> (k, None)
                    has = z3.Contains(want, z3.StringVal('='))
                    if isinstance(v, tuple) and len(v) == 2 and ty_of(v[0]) == 'str':
                        k_, v_ = v
                        if v_ is None:
                            ok = z3.And(z3.Not(has), term(k_) == want)
                        elif ty_of(v_) == 'str':
                            ok = z3.And(has, z3.Concat(term(k_), z3.StringVal('='), term(v_)) == want,
                                        z3.Not(z3.Contains(term(k_), z3.StringVal('='))))
                        else:
                            ok = z3.BoolVal(False)
                    else:
                        ok = z3.BoolVal(False)
                out.append(('included token is translated as specified #%d' % k, z3.Implies(hyp, ok)))
        return out

    def witness(self, ex, args):
        return {}


GETTERS = ['get_include_dirs', 'get_library_dirs', 'get_libraries', 'get_macros', 'get_other_cflags',
           'get_other_libs']


class Partition(PyContract):
    """cflags tokens go to exactly one of include_dirs / define_macros / extra_compile_args and libs tokens to
    exactly one of library_dirs / libraries / extra_link_args (pure string lemma over the spec predicates)"""
    pass


# -- merge_flags ---------------------------------------------------------------------------------------

class MergeFlags(PyContract):
    name = 'pkgconfig:merge_flags'
    allowed = ('TypeError',)

    def __init__(self, case):
        self.case = case
        self.label = case

    def setup(self, ex):
        self.a, self.b, self.c = Comp(None, None, []), Comp(None, None, []), Comp(None, None, [])
        if self.case == 'both-lists':
            cfg1 = {'k1': Segs([self.a]), 'k2': Segs([self.c])}
            cfg2 = {'k1': Segs([self.b]), 'k3': Segs([self.b])}
        elif self.case == 'cfg1-not-a-list':
            cfg1 = {'k1': 'oops'}
            cfg2 = {'k1': Segs([self.b])}
        else:
            cfg1 = {'k1': Segs([self.a])}
            cfg2 = {'k1': 'oops'}
        self.cfg1 = cfg1
        return {'cfg1': cfg1, 'cfg2': cfg2}, []

    def post(self, ex, args, kind, value, st):
        T = z3.BoolVal
        if self.case != 'both-lists':
            return [('a non-list value raises TypeError', T(kind == 'raise' and value.cls == 'TypeError'))]
        if kind != 'return':
            return [('lists are merged without error', T(False))]
        r = value
        ok = (isinstance(r, dict) and set(r) == {'k1', 'k2', 'k3'} and
              isinstance(r['k1'], Segs) and r['k1'].parts == [self.a, self.b] and
              r['k2'].parts == [self.c] and r['k3'].parts == [self.b])
        return [('per key: cfg1 list followed by cfg2 list; keys only in one side kept', T(bool(ok)))]


# -- call() ---------------------------------------------------------------------------------------------

class Bytes(PObj):
    pass


def _popen(ex, st, pos, kw, n):
    yield st, Exc('OSError')
    s2 = st.fork()
    rc = ex.fresh('returncode', 'int')
    pc = PObj('Popen', returncode=rc)
    s2.trace.append(('Popen', pos[0]))
    yield s2, pc


def _communicate(ex, st, o, pos, kw, n):
    yield st, (PObj('bytes', tag='out'), PObj('bytes', tag='err'))


def _decode(ex, st, o, pos, kw, n):
    yield st, Exc('UnicodeDecodeError')
    s2 = st.fork()
    yield s2, ex.fresh('decoded_' + o.attrs.get('tag', ''), 'str')


def _bytes_strip(ex, st, o, pos, kw, n):
    yield st, o


def _str_of(ex, st, pos, kw, n):
    yield st, ex.fresh('str_of', 'str')


R.globals['subprocess.Popen'] = ('$class', 'Popen')
R.constructors['Popen'] = _popen
R.method_models['Popen.communicate'] = _communicate
R.method_models['bytes.decode'] = _decode
R.method_models['bytes.strip'] = _bytes_strip


class Call(PyContract):
    name = 'pkgconfig:call'
    allowed = ('PkgConfigError',)
    label = 'call'

    def setup(self, ex):
        return {'libname': SV(z3.String('libname'), 'str'), 'flag': SV(z3.String('flag'), 'str'),
                'encoding': 'utf-8'}, []

    def post(self, ex, args, kind, value, st):
        if kind == 'raise':
            return []
        ok = ty_of(value) == 'str' and is_sym(value)
        goal = z3.Not(z3.Contains(term(value), z3.StringVal('\\'))) if ok else z3.BoolVal(False)
        return [('returns the decoded output, which contains no backslash', goal),
                ('pkg-config was run exactly once with [pkg-config, --print-errors, flag, libname]',
                 z3.BoolVal(len(st.trace) == 1 and isinstance(st.trace[0][1], list) and len(st.trace[0][1]) == 4
                            and st.trace[0][1][:2] == ['pkg-config', '--print-errors']
                            and st.trace[0][1][2] is args['flag'] and st.trace[0][1][3] is args['libname']))]


pcout = z3.Function('pkgconfig_output', S, S, S)      # ghost: decoded output of `pkg-config flag libname`


class CallAtSite(PyContract):
    """call() as used by flags_from_pkgconfig: the output for (libname, flag), or PkgConfigError"""

    def call(self, ex, st, pos, kw):
        return [([], 'return', SV(pcout(term(pos[0]), term(pos[1])), 'str')), ([], 'raise', Exc('PkgConfigError'))]


KEYS = {'include_dirs': ('get_include_dirs', '--cflags'), 'library_dirs': ('get_library_dirs', '--libs'),
        'libraries': ('get_libraries', '--libs'), 'define_macros': ('get_macros', '--cflags'),
        'extra_compile_args': ('get_other_cflags', '--cflags'), 'extra_link_args': ('get_other_libs', '--libs')}


class FlagsFromPkgconfig(PyContract):
    """the keyword dictionary for a list of packages: per key, the translated tokens of each package's
    --cflags / --libs output, packages in call order"""
    name = 'pkgconfig:flags_from_pkgconfig'
    allowed = ('PkgConfigError',)

    def __init__(self, nlibs):
        self.nlibs = nlibs
        self.label = '%d packages' % nlibs

    def setup(self, ex):
        self.libs = [SV(z3.String('lib%d' % i), 'str') for i in range(self.nlibs)]
        ex.reg.globals['call'] = ('$contract', CallAtSite())
        return {'libs': list(self.libs)}, []

    def post(self, ex, args, kind, value, st):
        T = z3.BoolVal
        if kind == 'raise':
            return []
        if not isinstance(value, dict):
            return [('returns a dict', T(False))]
        if self.nlibs == 0:
            return [('no package: empty dict', T(value == {}))]
        out = [('exactly the six distutils keywords', T(set(value) == set(KEYS)))]
        for key, (getter, flag) in KEYS.items():
            v = value.get(key)
            parts = v.parts if isinstance(v, Segs) else None
            ok = parts is not None and len(parts) == self.nlibs and all(isinstance(p_, Comp) for p_ in parts)
            out.append(("%s: one segment per package, in call order" % key, T(bool(ok))))
            if not ok:
                continue
            for i, part in enumerate(parts):
                want_src = pcout(self.libs[i].t, z3.StringVal(flag))
                src_ok = isinstance(part.source, Tokens) and is_sym(part.source.string) and \
                    part.source.string.t.eq(want_src)
                out.append(("%s[package %d]: tokens of `pkg-config %s`" % (key, i, flag), T(bool(src_ok))))
                g = Getter(getter)
                g.s = part.source.string if src_ok else None
                if src_ok:
                    for label, goal in g.post(ex, args, 'return', Segs([part]), st):
                        out.append(("%s[package %d]: %s" % (key, i, label), goal))
        return out


def items():
    its = [('flags_from_pkgconfig.' + g, Getter(g)) for g in GETTERS]
    its += [('merge_flags', MergeFlags(c)) for c in ('both-lists', 'cfg1-not-a-list', 'cfg2-not-a-list')]
    its.append(('call', Call()))
    its += [('flags_from_pkgconfig', FlagsFromPkgconfig(k)) for k in (0, 1, 2)]
    return [('src/cffi/pkgconfig.py', R, q, c) for q, c in its]
