"""Contract for the module-name computation in Verifier.__init__ (C32): the `else:` branch of `if modulename:`.

The segment is selected mechanically from the real AST on every run; the rest of __init__ is not executed.
Spec: name == '_cffi_' + tag + '_' + class_key + K1(c1) + 'x' + D(c2), where c1, c2 are the two CRC32 halves,
D(n) is the lower-case hexadecimal numeral of n (what hex(n) prints after '0x') and K1(0) == '', K1(n) == D(n).
The lemma (props/C32) shows this encoding of (c1, c2) is injective."""
import ast
import z3

from .common import *
from vf.pyexec import fmt_d

R = new_registry()
R.globals['sys'] = ('$module', 'sys')
R.globals['binascii'] = ('$module', 'binascii')
R.globals['binascii.crc32'] = ('$builtin', 'binascii.crc32')
hexd = z3.Function('hexd', I, S)                # D(n): hex(n) == '0x' + D(n)   (assumed contract of the builtin)

HEXDIGIT = z3.Union(z3.Range('0', '9'), z3.Range('a', 'f'))
HEXNUM = z3.Union(z3.Re('0'), z3.Concat(z3.Union(z3.Range('1', '9'), z3.Range('a', 'f')), z3.Star(HEXDIGIT)))


def hexd_axioms(n):
    """hex(): '0' for 0, otherwise digits 0-9a-f without a leading zero"""
    return [z3.InRe(hexd(n), HEXNUM), (n == 0) == (hexd(n) == z3.StringVal('0'))]


class HexStr(PObj):
    """the value of hex(n) for a symbolic n >= 0"""


def _hex(ex, st, pos, kw, n):
    v = pos[0]
    if not is_sym(v):
        yield st, hex(v)
        return
    t = as_int_term(v)
    st.pc.extend(hexd_axioms(t))
    o = HexStr('HexStr', n=v)
    yield st, o


def _plain(o):
    return SV(z3.Concat(z3.StringVal('0x'), hexd(as_int_term(o.attrs['n']))), 'str')


def _hex_lstrip(ex, st, o, pos, kw, n):
    chars = pos[0]
    if is_sym(chars):
        raise PyNotSupported("lstrip with symbolic characters")
    t = as_int_term(o.attrs['n'])
    d = hexd(t)
    cs = set(chars)
    # '0x' + D(n): the leading '0' and 'x' go if they are in the set; then D(n), whose first character is a
    # non-zero hex digit unless n == 0
    if '0' not in cs:
        yield st, _plain(o)
    elif 'x' not in cs:
        yield st, SV(z3.Concat(z3.StringVal('x'), d), 'str')
    elif cs <= {'0', 'x'}:
        yield st, SV(z3.If(t == 0, z3.StringVal(''), d), 'str')
    else:
        raise PyNotSupported("lstrip(%r) of a hex() string" % chars)


def _str_rstrip(ex, st, o, pos, kw, n):
    """rstrip(chars) of a symbolic string: a prefix, the dropped suffix consists of `chars` only, the result does
    not end in one of them; a string known to contain none of them is returned unchanged"""
    chars = pos[0] if pos else ' \t\n\r\x0b\x0c'
    if is_sym(chars):
        raise PyNotSupported("rstrip with symbolic characters")
    t = term(o)
    r, q = ex.fresh('rstripped', 'str'), ex.fresh('dropped', 'str')
    cset = z3.Union(*[z3.Re(c) for c in chars]) if len(chars) > 1 else z3.Re(chars)
    st.pc.append(z3.And(t == z3.Concat(r.t, q.t), z3.InRe(q.t, z3.Star(cset)),
                        z3.Not(z3.InRe(r.t, z3.Concat(z3.Star(z3.AllChar(z3.ReSort(S))), cset)))))
    yield st, r


def _hex_rstrip(ex, st, o, pos, kw, n):
    chars = pos[0]
    if not is_sym(chars) and not (set(chars) & set('0123456789abcdefx')):
        yield st, o              # hex() output contains none of these characters
        return
    raise PyNotSupported("rstrip(%r) of a hex() string" % (chars,))


R.builtin_models['hex'] = _hex
R.method_models['HexStr.lstrip'] = _hex_lstrip
R.method_models['HexStr.rstrip'] = _hex_rstrip
R.method_models['str.rstrip'] = _str_rstrip
R.method_models['str.join'] = lambda ex, st, o, pos, kw, n: iter([(st, ex.fresh('joined', 'str'))])
R.method_models['str.encode'] = lambda ex, st, o, pos, kw, n: iter([(st, PObj('bytes', of=o))])


class ModuleName(PyContract):
    name = 'verifier:Verifier.__init__'
    allowed = ()
    label = "module name from the two CRC32 halves"

    def segment(self, fn):
        for s in ast.walk(fn):
            if isinstance(s, ast.If) and isinstance(s.test, ast.Name) and s.test.id == 'modulename' and s.orelse:
                return s.orelse
        return None

    def setup(self, ex):
        self.crcs = []

        def crc32(ex_, st, pos, kw, n):
            c = ex_.fresh('crc', 'int')
            st.pc.append(c.t >= -(1 << 31))          # (Python 2's signed result is also covered: masked below)
            st.pc.append(c.t < (1 << 32))
            self.crcs.append(c)
            yield st, c
        ex.reg.builtin_models['binascii.crc32'] = crc32
        self.tag, self.ck = z3.String('tag'), z3.String('class_key')
        minor = z3.Int('py_minor')
        env = {
            'sys': PObj('module_sys', version_info=(3, SV(minor, 'int'), 0, 'final', 0)),
            '__version_verifier_modules__': SV(z3.String('version_verifier_modules'), 'str'),
            'preamble': SV(z3.String('preamble'), 'str'), 'flattened_kwds': SV(z3.String('flattened_kwds'), 'str'),
            'ffi': PObj('FFI', _cdefsources=[SV(z3.String('cdef0'), 'str'), SV(z3.String('cdef1'), 'str')]),
            'tag': SV(self.tag, 'str'),
            'self': PObj('Verifier', _vengine=PObj('VEngine', _class_key=SV(self.ck, 'str'))),
            'modulename': None,
        }
        return env, [minor >= 0]

    def witness(self, ex, args):
        return {('crc%d' % i): c.t for i, c in enumerate(self.crcs)}

    def post(self, ex, args, kind, value, st):
        if kind == 'raise':
            return [('the name computation does not raise', z3.BoolVal(False))]
        name = st.env.get('modulename')
        if len(self.crcs) != 2 or name is None:
            return [('the name is computed from exactly two CRC32 values', z3.BoolVal(False))]
        m = lambda c: z3.If(c.t >= 0, c.t, c.t + (1 << 32))          # c & 0xffffffff
        c1, c2 = m(self.crcs[0]), m(self.crcs[1])
        want = z3.Concat(z3.StringVal('_cffi_'), self.tag, z3.StringVal('_'), self.ck,
                         z3.If(c1 == 0, z3.StringVal(''), hexd(c1)), z3.StringVal('x'), hexd(c2))
        return [("name is '_cffi_<tag>_<engine key><hex of crc 1>x<hex of crc 2>': the two variable-length hex fields "
                 "are separated by a character that is not a hex digit", term(name) == want)]


def injectivity_lemma():
    """(c1, c2) -> K1(c1) + 'x' + D(c2) is injective (hex() numerals are injective: assumed)"""
    from vf.smt import Ob
    a, b, c, d = z3.Ints('a b c d')
    k1 = lambda n: z3.If(n == 0, z3.StringVal(''), hexd(n))
    enc = lambda p, q: z3.Concat(k1(p), z3.StringVal('x'), hexd(q))
    hy = []
    for n in (a, b, c, d):
        hy += hexd_axioms(n) + [n >= 0]
    for m, n in ((a, c), (b, d), (a, b), (a, d), (c, b), (c, d)):
        hy.append(z3.Implies(hexd(m) == hexd(n), m == n))
    return [Ob('lemma:C32:name-suffix-is-an-injective-encoding-of-the-two-crc-halves', hy + [enc(a, b) == enc(c, d)],
               z3.And(a == c, b == d), kind='lemma', fn='lemma', witness={})]


def items():
    return [('src/cffi/verifier.py', R, 'Verifier.__init__', ModuleName())]
