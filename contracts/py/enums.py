"""Contract of model.EnumType.build_baseinttype (C10): the underlying integer type of an enum
declared without '...' follows gcc's rule."""
import z3

from .common import *

R = new_registry()
R.globals['PrimitiveType'] = ('$class', 'PrimitiveType')


def _prim(ex, st, pos, kw, n):
    yield st, PObj('PrimitiveType', name=pos[0])


R.constructors['PrimitiveType'] = _prim


def _get_cached_btype(ex, st, o, pos, kw, n):
    yield st, PObj('BType', name=o.attrs['name'])


R.method_models['PrimitiveType.get_cached_btype'] = _get_cached_btype

SIZES = {'int': 4, 'unsigned int': 4, 'long': 8, 'unsigned long': 8}      # LP64 (the backend's table: C06)


def _sizeof(ex, st, o, pos, kw, n):
    bt = pos[0]
    if not isinstance(bt, PObj) or bt.attrs.get('name') not in SIZES:
        raise PyNotSupported("ffi.sizeof of %r" % (bt,))
    yield st, SIZES[bt.attrs['name']]


R.method_models['FFI.sizeof'] = _sizeof


def _minmax(ex, st, name, seq, n):
    if not isinstance(seq, SymSeq):
        raise PyNotSupported("min/max of %r" % (seq,))
    yield st, seq.ghost_min if name == 'min' else seq.ghost_max


R.hooks['minmax'] = _minmax


def _get_c_name(ex, st, o, pos, kw, n):
    yield st, 'enum e'


R.method_models['EnumType._get_c_name'] = _get_c_name


class BuildBaseIntType(PyContract):
    name = 'model:EnumType.build_baseinttype'
    allowed = ('CDefError',)

    def setup(self, ex):
        mn, mx = z3.Int('smallest_value'), z3.Int('largest_value')
        vals = SymSeq('enumvalues', 'int')
        vals.nonempty = True
        vals.ghost_min, vals.ghost_max = SV(mn, 'int'), SV(mx, 'int')
        self.mn, self.mx = mn, mx
        this = PObj('EnumType', baseinttype=None, enumvalues=vals)
        return {'self': this, 'ffi': PObj('FFI'), 'finishlist': []}, [mn <= mx]

    def witness(self, ex, args):
        return {'smallest_value': self.mn, 'largest_value': self.mx}

    def spec(self):
        """gcc: no negative enumerator -> unsigned int if all values fit, else unsigned long; some negative ->
        int if all fit, else long; (values outside 64 bits: not a valid C enum)"""
        mn, mx = self.mn, self.mx
        neg = mn < 0
        return [
            ('int', z3.And(neg, mn >= -(1 << 31), mx <= (1 << 31) - 1)),
            ('long', z3.And(neg, z3.Not(z3.And(mn >= -(1 << 31), mx <= (1 << 31) - 1)), mn >= -(1 << 63),
                            mx <= (1 << 63) - 1)),
            ('unsigned int', z3.And(z3.Not(neg), mx <= (1 << 32) - 1)),
            ('unsigned long', z3.And(z3.Not(neg), mx > (1 << 32) - 1, mx <= (1 << 64) - 1)),
        ]

    def post(self, ex, args, kind, value, st):
        spec = self.spec()
        fits_any = z3.Or(*[c for _, c in spec])
        if kind == 'raise':
            return [('CDefError only when no 64-bit type can hold the values', z3.Not(fits_any))]
        if not isinstance(value, PObj) or value.cls != 'BType':
            return [('returns a backend integer type', z3.BoolVal(False))]
        nm = value.attrs['name']
        cond = dict(spec).get(nm, z3.BoolVal(False))
        return [("returns '%s' exactly when gcc chooses it" % nm, cond)]


R.contracts[BuildBaseIntType.name] = BuildBaseIntType()
