"""Contracts for cffi_opcode.py: the 4-byte big-endian text of opcodes in out-of-line modules (C11)."""
import z3

from .common import *
from vf.pyexec import fmt_02X, py_floordiv, py_mod

R = new_registry()
R.globals['VerificationError'] = ('$excclass', 'VerificationError')


def enc4_text(n):
    """the escape text of enc4(n): the four big-endian bytes of n mod 2^32, each written \\xHH"""
    byte = lambda k: py_mod(py_floordiv(n, z3.IntVal(1 << (8 * k))), z3.IntVal(256))
    return z3.Concat(*[z3.Concat(z3.StringVal('\\x'), fmt_02X(byte(k))) for k in (3, 2, 1, 0)])


class FormatFourBytes(PyContract):
    name = 'cffi_opcode:format_four_bytes'
    label = 'format_four_bytes'

    def setup(self, ex):
        self.n = z3.Int('num')
        return {'num': SV(self.n, 'int')}, []

    def post(self, ex, args, kind, value, st):
        if kind != 'return' or ty_of(value) != 'str':
            return [('returns a string', z3.BoolVal(False))]
        return [('text of the four big-endian bytes of num mod 2^32', term(value) == enc4_text(self.n))]


class FormatAtSite(PyContract):
    def call(self, ex, st, pos, kw):
        return [([], 'return', SV(enc4_text(as_int_term(pos[0])), 'str'))]


def _isdigit(ex, st, o, pos, kw, n):
    isd = z3.Function('isdigit', S, z3.BoolSort())
    yield st, SV(isd(term(o)), 'bool')


R.method_models['str.isdigit'] = _isdigit


class AsPythonBytes(PyContract):
    """CffiOp.as_python_bytes"""
    name = 'cffi_opcode:CffiOp.as_python_bytes'

    def __init__(self, case):
        self.case = case
        self.label = case
        self.allowed = ('OverflowError', 'VerificationError')

    def setup(self, ex):
        ex.reg.globals['format_four_bytes'] = ('$contract', FormatAtSite())
        self.arg_i, self.op = z3.Int('arg'), z3.Int('op')
        self.arg_s = z3.String('arg_text')
        if self.case == 'opcode':
            me = PObj('CffiOp', op=SV(self.op, 'int'), arg=SV(self.arg_i, 'int'))
            return {'self': me}, [self.op >= 0, self.op < 256]
        if self.case == 'array-length':
            me = PObj('CffiOp', op=None, arg=SV(self.arg_s, 'str'))
            isd = z3.Function('isdigit', S, z3.BoolSort())
            from vf.pyexec import int_of_str, valid_int
            # A-PY: a string of ASCII decimal digits (what the parser hands over) converts to a non-negative int
            return {'self': me}, [isd(self.arg_s), valid_int(self.arg_s, z3.IntVal(10)),
                                  int_of_str(self.arg_s, z3.IntVal(10)) >= 0]
        me = PObj('CffiOp', op=None, arg=SV(self.arg_s, 'str'))
        isd = z3.Function('isdigit', S, z3.BoolSort())
        return {'self': me}, [z3.Not(isd(self.arg_s))]

    def post(self, ex, args, kind, value, st):
        from vf.pyexec import int_of_str, valid_int
        if self.case == 'opcode':
            if kind != 'return':
                return [('an (op, arg) pair is always emitted', z3.BoolVal(False))]
            return [('text of enc4((arg << 8) | op) with the opcode in the low byte',
                     term(value) == enc4_text(self.arg_i * 256 + self.op))]
        if self.case == 'array-length':
            v = int_of_str(self.arg_s, z3.IntVal(10))
            if kind == 'raise':
                return [('only lengths >= 2**31 are refused (OverflowError), never truncated',
                         z3.And(z3.BoolVal(value.cls == 'OverflowError'), v >= (1 << 31)))]
            return [('text of enc4(length) for lengths below 2**31', z3.And(v < (1 << 31), term(value) == enc4_text(v)))]
        return [('a symbolic (non-numeric) length cannot be emitted to Python: VerificationError',
                 z3.BoolVal(kind == 'raise' and value.cls == 'VerificationError'))]


def items():
    its = [('format_four_bytes', FormatFourBytes())]
    its += [('CffiOp.as_python_bytes', AsPythonBytes(c)) for c in ('opcode', 'array-length', 'symbolic-length')]
    return [('src/cffi/cffi_opcode.py', R, q, c) for q, c in its]
