"""Parser._parse_decl (C30): the chain that decides what a variable declaration is -- an integer constant given by a
literal initializer (`static const int X = 42;`, `= -42;`), a constant, a variable -- must not let a Python exception
other than the cffi error classes escape, whatever pycparser node the initializer is.

A segment contract on the `if tp.is_raw_function: ... elif ... else` statement inside `if decl.name:`; it is run for
`decl.init` = None and an instance of EVERY node class of the installed pycparser (class names and attribute sets read
from pycparser/c_ast.py's __slots__ on every run), and, for a UnaryOp, for every operator spelling and every node class
as its operand.  AST nodes are objects with an exactly known attribute set: reading any other attribute is
AttributeError, as in Python.  The literal test `_r_int_literal.match(...)` is an arbitrary boolean."""
import ast
import os

import z3

from .common import *

R = new_registry()
R.globals['True'] = True
R.globals['False'] = False
R.globals['None'] = None
R.globals['pycparser'] = ('$module', 'pycparser')
R.globals['pycparser.c_ast'] = ('$module', 'pycparser.c_ast')
R.globals['model'] = ('$module', 'model')
VOID = PObj('VoidType', uid='void')
R.globals['model.void_type'] = VOID
R.globals['model.Q_CONST'] = 1
R.globals['warnings'] = ('$module', 'warnings')
R.globals['warnings.warn'] = ('$builtin', 'print')
R.builtin_models['print'] = lambda ex, st, pos, kw, n: iter([(st, None)])      # (warnings.warn: no effect here)

PYCPARSER_AST = '/venv/lib/python3.12/site-packages/pycparser/c_ast.py'


def node_classes():
    """{class name: tuple of attribute names} of pycparser's AST nodes, from the __slots__ of the installed c_ast.py"""
    tree = ast.parse(open(PYCPARSER_AST).read())
    out = {}
    for n in tree.body:
        if isinstance(n, ast.ClassDef) and any(isinstance(b, ast.Name) and b.id == 'Node' for b in n.bases):
            for s in n.body:
                if isinstance(s, ast.Assign) and any(isinstance(t, ast.Name) and t.id == '__slots__' for t in s.targets):
                    out[n.name] = tuple(a for a in ast.literal_eval(s.value) if a != '__weakref__')
    return out


NODES = node_classes()
for _cls in NODES:
    R.globals['pycparser.c_ast.' + _cls] = ('$class', _cls)


def mk_node(cls, **over):
    attrs = {a: None for a in NODES[cls]}
    for a in ('value', 'name', 'op', 'type'):
        if a in attrs:
            attrs[a] = SV(z3.String('%s_%s' % (cls, a)), 'str')
    attrs.update(over)
    o = PObj(cls, **attrs)
    o.attrs['$strict'] = True
    return o


def _match(ex, st, o, pos, kw, n):
    # the regular expression test on a piece of text: either outcome
    for b in (True, False):
        s = st.fork()
        yield s, b


R.method_models['Regex.match'] = _match
R.method_models['Parser._add_integer_constant'] = lambda ex, st, o, pos, kw, n: iter([(st, None)])
R.method_models['Parser._declare'] = lambda ex, st, o, pos, kw, n: iter([(st, None)])
R.method_models['Parser._declare_function'] = lambda ex, st, o, pos, kw, n: iter([(st, None)])
for _k in ('IntType', 'VoidType', 'OtherType'):
    R.method_models[_k + '.is_integer_type'] = (lambda ex, st, o, pos, kw, n: iter([(st, o.attrs['$int'])]))

OPS = ['-', '+', '~', '!', '&', '*', 'sizeof', 'p++', '--']
TYPES = [('IntType', True), ('OtherType', False), ('VoidType', False)]


def cases():
    out = []
    for tname, isint in TYPES:
        out.append((tname, None, None, None))
        for cls in sorted(NODES):
            if cls == 'UnaryOp':
                for op in OPS:
                    for sub in sorted(NODES):
                        out.append((tname, cls, op, sub))
            else:
                out.append((tname, cls, None, None))
    return out


def _mk(case):
    tname, cls, op, sub = case

    class K(PyContract):
        name = 'cparser:Parser._parse_decl#%s/%s/%s/%s' % case
        function = 'Parser._parse_decl'
        allowed = ('CDefError', 'FFIError', 'NotImplementedError', 'VerificationError', 'VerificationMissing')

        def segment(self, fn):
            for s in ast.walk(fn):
                if isinstance(s, ast.If) and isinstance(s.test, ast.Attribute) and s.test.attr == 'is_raw_function':
                    return [s]
            return None

        def setup(self, ex):
            if tname == 'VoidType':
                tp = VOID
                tp.attrs.update({'is_raw_function': False, 'is_array_type': False, '$int': False})
            else:
                tp = PObj(tname, is_raw_function=False, is_array_type=False)
                tp.attrs['$int'] = tname == 'IntType'
            if cls is None:
                init = None
            elif cls == 'UnaryOp':
                init = mk_node('UnaryOp', op=op, expr=mk_node(sub))
            else:
                init = mk_node(cls)
            decl = mk_node('Decl', name='X', init=init, storage=[], quals=[])
            this = PObj('Parser', _inside_extern_python='__cffi_extern_python_stop')
            return {'self': this, 'decl': decl, 'tp': tp, 'quals': SV(z3.Int('quals'), 'int'),
                    '_r_int_literal': PObj('Regex')}, []

        def post(self, ex, args, kind, value, st):
            if kind == 'raise':
                return [('only a cffi error class may leave', z3.BoolVal(value.cls in self.allowed))]
            return [('the declaration is classified', z3.BoolVal(True))]
    return K()


def items():
    out = []
    for cs in cases():
        con = _mk(cs)
        R.contracts[con.name] = con
        out.append(('src/cffi/cparser.py', R, con.function, con))
    return out
