"""Contracts for the text pre-processing of cparser.py (C30): string indexing in the loops that scan the cdef text
cannot raise IndexError (nor anything but the cffi error classes).

The regular expressions are read from the real module source on every run; what the contract of `.search()` says
about a match (how many characters it spans at least / at most) is computed from the real pattern with the
standard library's own regex parser (`re._parser.parse(p).getwidth()`)."""
import ast
import re
import z3

from .common import *

try:
    from re import _parser as sre_parse
except ImportError:                      # Python < 3.11
    import sre_parse

R = new_registry()
CFFI_ERRORS = ('CDefError', 'FFIError', 'NotImplementedError', 'VerificationError', 'VerificationMissing')


def module_regex(ex, name):
    """the pattern text of the module-level `name = re.compile(<string constants>, ...)`, from the real source"""
    for s in ex.tree.body:
        if isinstance(s, ast.Assign) and len(s.targets) == 1 and isinstance(s.targets[0], ast.Name) and \
                s.targets[0].id == name and isinstance(s.value, ast.Call):
            return ast.literal_eval(s.value.args[0])
    raise PyNotSupported("module-level regular expression %s not found" % name)


def _search(ex, st, o, pos, kw, n):
    """pattern.search(text): None, or a match with 0 <= start, start + minwidth <= end <= len(text)"""
    text = pos[0]
    lo, hi = o.attrs['minw'], o.attrs['maxw']
    s0 = st.fork()
    yield s0, None
    a, b = ex.fresh('m_start', 'int'), ex.fresh('m_end', 'int')
    st.pc.append(z3.And(a.t >= 0, a.t + lo <= b.t, b.t <= z3.Length(term(text))))
    if hi < (1 << 30):
        st.pc.append(b.t <= a.t + hi)
    yield st, PObj('Match', m_start=a, m_end=b, text=text)


R.method_models['Regex.search'] = _search
R.method_models['Match.start'] = lambda ex, st, o, pos, kw, n: iter([(st, o.attrs['m_start'])])
R.method_models['Match.end'] = lambda ex, st, o, pos, kw, n: iter([(st, o.attrs['m_end'])])
R.method_models['Match.group'] = lambda ex, st, o, pos, kw, n: iter([(st, ex.fresh('group', 'str'))])


def _find(ex, st, o, pos, kw, n):
    """text.find(sub, start[, end]): -1, or an index r with start <= r and r + len(sub) <= min(end, len(text))"""
    sub = pos[0]
    start = as_int_term(pos[1]) if len(pos) > 1 else z3.IntVal(0)
    r = ex.fresh('found', 'int')
    ln = z3.Length(term(o))
    c = z3.And(r.t >= start, r.t >= 0, r.t + z3.Length(term(sub)) <= ln)
    if len(pos) > 2:
        c = z3.And(c, r.t + z3.Length(term(sub)) <= as_int_term(pos[2]))
    st.pc.append(z3.Or(r.t == -1, c))
    yield st, r


R.method_models['str.find'] = _find
R.method_models['str.join'] = lambda ex, st, o, pos, kw, n: iter([(st, ex.fresh('joined', 'str'))])


class ExternPythonIteration(PyContract):
    """one iteration of the `while True:` loop of _preprocess_extern_python on an arbitrary text"""
    name = 'cparser:_preprocess_extern_python'
    allowed = CFFI_ERRORS
    label = "one iteration of the extern \"Python\" scan, any text"

    def segment(self, fn):
        for s in fn.body:
            if isinstance(s, ast.While):
                return s.body
        return None

    def setup(self, ex):
        p = module_regex(ex, '_r_extern_python')
        lo, hi = sre_parse.parse(p).getwidth()
        self.src = z3.String('csource')
        return {'csource': SV(self.src, 'str'), 'parts': [],
                '_r_extern_python': PObj('Regex', minw=int(lo), maxw=int(hi), pattern=p)}, []

    def witness(self, ex, args):
        return {'csource': self.src}

    def post(self, ex, args, kind, value, st):
        if kind == 'raise':
            return [('a malformed extern "Python" block is reported with a cffi error class',
                     z3.BoolVal(value.cls in CFFI_ERRORS))]
        return [('the iteration ends normally', z3.BoolVal(kind in ('next', 'break', 'return')))]


def items():
    return [('src/cffi/cparser.py', R, '_preprocess_extern_python', ExternPythonIteration())]
