"""Contracts for ffiplatform._flatten / flatten (C32): the key text of the verify() keyword arguments."""
import z3

from .common import *
from vf.pyexec import fmt_d, Outcome

R = new_registry()
R.globals['int_or_long'] = ('$builtin', 'int')
R.globals['cStringIO'] = ('$module', 'cStringIO')
R.globals['cStringIO.StringIO'] = ('$class', 'StringIO')
R.constructors['StringIO'] = lambda ex, st, pos, kw, n: iter([(st, PObj('StringIO', parts=[]))])
flat = z3.Function('flat', I, S)         # ghost: the flattened text of the sub-object with this id


def _fwrite(ex, st, o, pos, kw, n):
    o.attrs['parts'] = o.attrs['parts'] + [pos[0]]
    yield st, None


R.method_models['StringIO.write'] = _fwrite
R.method_models['StringIO.getvalue'] = lambda ex, st, o, pos, kw, n: iter([(st, concat(o.attrs['parts']))])


def concat(parts):
    ts = [term(p) for p in parts]
    if not ts:
        return ''
    return SV(z3.Concat(*ts) if len(ts) > 1 else ts[0], 'str')


def _sorted(ex, st, pos, kw, n):
    seq = list(pos[0])
    if len(seq) <= 1 or not any(is_sym(x) for x in seq):
        yield st, sorted(seq)
        return
    if len(seq) != 2:
        raise PyNotSupported("sorted() of more than two symbolic values")
    a, b = seq
    s2 = st.fork()
    st.pc.append(term(a) <= term(b))
    s2.pc.append(z3.Not(term(a) <= term(b)))
    if ex.feasible(st):
        yield st, [a, b]
    if ex.feasible(s2):
        yield s2, [b, a]


R.builtin_models['sorted'] = _sorted


class Obj(PObj):
    pass


def sub(nid):
    return PObj('Opaque', **{'$id': nid})


class FlattenRec(PyContract):
    """_flatten at its recursive call sites: appends the flattened text of that sub-object"""
    def call(self, ex, st, pos, kw):
        x, f = pos
        if isinstance(x, PObj) and '$id' in x.attrs:
            t = SV(flat(z3.IntVal(x.attrs['$id'])), 'str')
        elif ty_of(x) == 'str':
            t = SV(z3.Concat(fmt_d(z3.Length(term(x))), z3.StringVal('s'), term(x)), 'str')    # contract of the str case
        else:
            raise PyNotSupported("recursive _flatten on %r" % (x,))
        f.attrs['parts'] = f.attrs['parts'] + [t]
        return [([], 'return', None), ([], 'raise', Exc('TypeError'))]


class Flatten(PyContract):
    name = 'ffiplatform:_flatten'
    allowed = ('TypeError',)

    def __init__(self, case):
        self.case = case
        self.label = case

    def setup(self, ex):
        ex.reg.globals['_flatten'] = ('$contract', FlattenRec())
        self.f = PObj('StringIO', parts=[])
        self.s, self.n = z3.String('x_str'), z3.Int('x_int')
        self.k1, self.k2 = z3.String('key1'), z3.String('key2')
        c = self.case
        if c == 'str':
            x = SV(self.s, 'str')
        elif c == 'int':
            x = SV(self.n, 'int')
        elif c == 'list':
            x = [sub(1), sub(2), sub(3)]
        elif c == 'tuple':
            x = (sub(1), sub(2))
        elif c == 'dict':
            x = {SV(self.k1, 'str'): sub(1), SV(self.k2, 'str'): sub(2)}
        elif c == 'dict-reversed':
            x = {SV(self.k2, 'str'): sub(2), SV(self.k1, 'str'): sub(1)}
        else:
            x = PObj('SomethingElse')
        assume = [self.k1 != self.k2] if c.startswith('dict') else []
        return {'x': x, 'f': self.f}, assume

    def expected(self):
        c = self.case
        L = lambda n: z3.StringVal(str(n))          # '%d' % <concrete int>
        F = lambda i: flat(z3.IntVal(i))
        SS = z3.StringVal
        enc = lambda s: z3.Concat(fmt_d(z3.Length(s)), SS('s'), s)
        if c == 'str':
            return enc(self.s)
        if c == 'int':
            return z3.Concat(fmt_d(self.n), SS('i'))
        if c == 'list':
            return z3.Concat(L(3), SS('l'), F(1), F(2), F(3))
        if c == 'tuple':
            return z3.Concat(L(2), SS('l'), F(1), F(2))
        if c.startswith('dict'):
            lo_first = self.k1 <= self.k2
            a = z3.Concat(L(2), SS('d'), enc(self.k1), F(1), enc(self.k2), F(2))
            b = z3.Concat(L(2), SS('d'), enc(self.k2), F(2), enc(self.k1), F(1))
            return z3.If(lo_first, a, b)
        return None

    def post(self, ex, args, kind, value, st):
        exp = self.expected()
        if exp is None:
            return [('an unsupported object raises TypeError', z3.BoolVal(kind == 'raise' and value.cls == 'TypeError'))]
        if kind == 'raise':
            return []          # only a nested unsupported object (propagated TypeError)
        got = concat(self.f.attrs['parts']) if not hasattr(st, '_f') else None
        # the StringIO object of this path is the one reachable from the path's environment
        fobj = st.env.get('f')
        got = concat(fobj.attrs['parts'])
        lab = {'str': '<len>s<chars>', 'int': '<value>i', 'list': '<n>l followed by the items in order',
               'tuple': '<n>l followed by the items in order (a tuple flattens like a list)',
               'dict': '<n>d followed by key/value pairs in sorted key order',
               'dict-reversed': '<n>d ...: the same text whatever the insertion order of the keywords'}[self.case]
        return [(lab, term(got) == exp)]


def items():
    return [('src/cffi/ffiplatform.py', R, '_flatten', Flatten(c))
            for c in ('str', 'int', 'list', 'tuple', 'dict', 'dict-reversed', 'other')]
