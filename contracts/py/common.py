"""Shared registry set-up for the Python-side contracts."""
import z3

from vf.pyexec import (PyRegistry, PyContract, PObj, SV, Exc, SymSeq, SymMap, PyNotSupported, I, S, term, ty_of,
                       is_sym, as_int_term)


def new_registry():
    R = PyRegistry()
    for nm in ('CDefError', 'FFIError', 'VerificationError', 'VerificationMissing', 'PkgConfigError'):
        R.globals[nm] = ('$excclass', nm)
    return R
