"""Contracts for the integer-constant-expression evaluator of cparser.py (C09) and its
exception behaviour (C30)."""
import z3

from .common import *
from vf.pyexec import pow2, bitand, bitor, bitxor, py_floordiv

R = new_registry()
R.globals['pycparser'] = ('$module', 'pycparser')
R.globals['pycparser.c_ast'] = ('$module', 'pycparser.c_ast')
NODE_CLASSES = ['Constant', 'UnaryOp', 'BinaryOp', 'ID', 'Cast', 'FuncCall', 'TernaryOp', 'ArrayRef']
for _c in NODE_CLASSES:
    R.globals['pycparser.c_ast.' + _c] = ('$class', _c)
    R.classes[_c] = 'Node'

cvalue = z3.Function('cvalue', I, I)        # ghost: the C value of the sub-expression with this node id

CFFI_ERRORS = ('CDefError', 'FFIError', 'NotImplementedError', 'VerificationError', 'VerificationMissing')


def c_trunc_div(a, b):
    """C99 6.5.5: the quotient truncated toward zero (b != 0)"""
    absdiv = z3.If(a >= 0, a, -a) / z3.If(b >= 0, b, -b)        # both operands non-negative: floor = trunc
    return z3.If((a >= 0) == (b >= 0), absdiv, -absdiv)


def node(cls, nid, **attrs):
    o = PObj(cls, coord=PObj('Coord', line=1), **attrs)
    o.attrs['$id'] = nid
    return o


class ParseConstantCall(PyContract):
    """the contract of Parser._parse_constant as seen by its (recursive) callers: it returns the C value of
    the sub-expression, or raises one of the cffi error classes"""
    name = 'cparser:Parser._parse_constant'
    use_at_calls = True

    def call(self, ex, st, pos, kw):
        sub = pos[1]
        nid = sub.attrs.get('$id') if isinstance(sub, PObj) else None
        if nid is None:
            raise PyNotSupported("recursive _parse_constant on %r" % (sub,))
        v = SV(cvalue(z3.IntVal(nid)), 'int')
        outs = [([], 'return', v)]
        for e in ('CDefError', 'FFIError'):
            outs.append(([], 'raise', Exc(e)))
        return outs


R.method_contracts['Parser._parse_constant'] = ParseConstantCall()


class CDivC09(PyContract):
    """C09: for b != 0 the result is the C quotient (truncation toward zero)"""
    name = 'cparser:Parser._c_div'
    allowed = ()

    def setup(self, ex):
        self.a, self.b = z3.Int('a'), z3.Int('b')
        return {'self': PObj('Parser'), 'a': SV(self.a, 'int'), 'b': SV(self.b, 'int')}, [self.b != 0]

    def post(self, ex, args, kind, value, st):
        if kind != 'return':
            return []
        if ty_of(value) not in ('int', 'bool'):
            return [('returns an int', z3.BoolVal(False))]
        return [('quotient truncated toward zero', as_int_term(value) == c_trunc_div(self.a, self.b))]


class CDivC30(PyContract):
    """C30: whatever the operands, only cffi's own error classes may escape"""
    name = 'cparser:Parser._c_div'
    allowed = CFFI_ERRORS

    def setup(self, ex):
        self.a, self.b = z3.Int('a'), z3.Int('b')
        return {'self': PObj('Parser'), 'a': SV(self.a, 'int'), 'b': SV(self.b, 'int')}, []


class CDivCall(PyContract):
    """_c_div as seen from _parse_constant"""
    def __init__(self, may_raise):
        self.may_raise = may_raise

    def call(self, ex, st, pos, kw):
        a, b = as_int_term(pos[1]), as_int_term(pos[2])
        outs = [([b != 0], 'return', SV(c_trunc_div(a, b), 'int'))]
        for e in self.may_raise:
            outs.append(([b == 0], 'raise', Exc(e)))
        return outs


BINOPS = ['+', '-', '*', '/', '%', '<<', '>>', '&', '|', '^']


def spec_binop(op, l, r):
    """(definedness in C beyond type overflow, value) on mathematical integers"""
    if op == '+':
        return z3.BoolVal(True), l + r
    if op == '-':
        return z3.BoolVal(True), l - r
    if op == '*':
        return z3.BoolVal(True), l * r
    if op == '/':
        return r != 0, c_trunc_div(l, r)
    if op == '%':
        return r != 0, l - c_trunc_div(l, r) * r
    if op == '<<':
        return z3.And(r >= 0, r < 64, l >= 0), l * pow2(r)
    if op == '>>':
        return z3.And(r >= 0, r < 64), py_floordiv(l, pow2(r))       # arithmetic shift (gcc)
    if op == '&':
        return z3.BoolVal(True), bitand(l, r)
    if op == '|':
        return z3.BoolVal(True), bitor(l, r)
    if op == '^':
        return z3.BoolVal(True), bitxor(l, r)
    raise KeyError(op)


class ParseBinaryOp(PyContract):
    name = 'cparser:Parser._parse_constant'

    def __init__(self, op, c30=False):
        self.op, self.c30 = op, c30
        self.escape_summary = c30
        self.allowed = CFFI_ERRORS
        self.label = "BinaryOp '%s'" % op

    def setup(self, ex):
        self.l, self.r = cvalue(z3.IntVal(1)), cvalue(z3.IntVal(2))
        nd = node('BinaryOp', 0, op=self.op, left=node('Expr', 1), right=node('Expr', 2))
        me = PObj('Parser', _int_constants=SymMap('int_constants'))
        ex.reg.method_contracts['Parser._c_div'] = CDivCall(['ZeroDivisionError'] if self.c30 else [])
        assume = []
        if not self.c30 and self.op in BINOPS:
            assume.append(spec_binop(self.op, self.l, self.r)[0])
        return {'self': me, 'exprnode': nd, 'partial_length_ok': False}, assume

    def witness(self, ex, args):
        return {'left': self.l, 'right': self.r}

    def post(self, ex, args, kind, value, st):
        if self.c30:
            return []
        if self.op not in BINOPS:
            return [('unsupported operator is reported, not evaluated', z3.BoolVal(kind == 'raise'))]
        if kind == 'raise':
            # only acceptable when a sub-expression raised: then the path has no cvalue constraint of its own.
            return []
        return [("value of l %s r as C computes it" % self.op,
                 as_int_term(value) == spec_binop(self.op, self.l, self.r)[1])]


class ParseUnaryOp(PyContract):
    name = 'cparser:Parser._parse_constant'
    allowed = CFFI_ERRORS

    def __init__(self, op):
        self.op = op
        self.label = "UnaryOp '%s'" % op

    def setup(self, ex):
        self.v = cvalue(z3.IntVal(1))
        nd = node('UnaryOp', 0, op=self.op, expr=node('Expr', 1))
        return {'self': PObj('Parser', _int_constants=SymMap('int_constants')), 'exprnode': nd,
                'partial_length_ok': False}, []

    def post(self, ex, args, kind, value, st):
        if kind == 'raise':
            return [] if self.op in '+-' else [('unsupported operator is reported', z3.BoolVal(True))]
        if self.op not in '+-':
            return [('unsupported operator is reported, not evaluated', z3.BoolVal(False))]
        return [("value of %sx" % self.op, as_int_term(value) == (self.v if self.op == '+' else -self.v))]


ESCAPES = {'n': 10, 't': 9, 'r': 13, '0': 0, '\\': 92, "'": 39, '"': 34, 'a': 7, 'b': 8, 'f': 12, 'v': 11, '?': 63}


class ParseCharConstant(PyContract):
    """character constants: 'c' has the value of c; '\\e' the value of the simple escape sequence e (C11 6.4.4.4)"""
    name = 'cparser:Parser._parse_constant'
    allowed = CFFI_ERRORS

    def __init__(self, escaped):
        self.escaped = escaped
        self.label = "character constant (%s)" % ('simple escape' if escaped else 'plain')

    def setup(self, ex):
        self.ch = z3.String('ch')
        body = z3.Concat(z3.StringVal("\\"), self.ch) if self.escaped else self.ch
        s = z3.Concat(z3.StringVal("'"), body, z3.StringVal("'"))
        nd = node('Constant', 0, value=SV(s, 'str'), type='char')
        assume = [z3.Length(self.ch) == 1]
        if self.escaped:
            assume.append(z3.Or(*[self.ch == z3.StringVal(k) for k in ESCAPES]))
        else:
            assume.append(z3.And(self.ch != z3.StringVal("'"), self.ch != z3.StringVal("\\")))
        return {'self': PObj('Parser', _int_constants=SymMap('int_constants')), 'exprnode': nd,
                'partial_length_ok': False}, assume

    def witness(self, ex, args):
        return {'ch_code': z3.StrToCode(self.ch)}

    def post(self, ex, args, kind, value, st):
        if kind == 'raise':
            return [('a well-formed character constant is accepted', z3.BoolVal(False))]
        want = z3.StrToCode(self.ch)
        if self.escaped:
            want = z3.IntVal(-1)
            for k, v in ESCAPES.items():
                want = z3.If(self.ch == z3.StringVal(k), z3.IntVal(v), want)
        return [('value of the character constant', as_int_term(value) == want)]


class ParseID(PyContract):
    name = 'cparser:Parser._parse_constant'
    allowed = CFFI_ERRORS
    label = "ID"

    def setup(self, ex):
        self.nm = z3.String('name')
        self.m = SymMap('int_constants')
        nd = node('ID', 0, name=SV(self.nm, 'str'))
        return {'self': PObj('Parser', _int_constants=self.m, _partial_length=False), 'exprnode': nd,
                'partial_length_ok': False}, []

    def post(self, ex, args, kind, value, st):
        if kind == 'raise':
            return [('a previously declared constant is accepted', z3.Not(self.m.has(self.nm)))]
        return [('value of a previously declared integer constant',
                 z3.And(self.m.has(self.nm), as_int_term(value) == self.m.get(self.nm)))]



# -- numeric literal tokens ---------------------------------------------------------------------------------
# over-approximating models of the two str methods the literal path uses (enough for exception behaviour)
def _rstrip(ex, st, o, pos, kw, n):
    r = ex.fresh('rstripped', 'str')
    st.pc.append(z3.And(z3.PrefixOf(r.t, term(o)),
                        z3.Implies(z3.Length(term(o)) >= 1, z3.Or(z3.Length(r.t) >= 1, z3.BoolVal(True)))))
    yield st, r


def _lower(ex, st, o, pos, kw, n):
    r = ex.fresh('lowered', 'str')
    st.pc.append(z3.Length(r.t) == z3.Length(term(o)))
    yield st, r


R.method_models['str.rstrip'] = _rstrip
R.method_models['str.lower'] = _lower


class ParseNumberToken(PyContract):
    """Constant nodes whose text starts with a digit -- every numeric token the lexer can produce (decimal,
    octal, hex, binary integers with suffixes; decimal and hexadecimal floats) and, a fortiori, any text at all:
    int() conversions of the text never let ValueError escape."""
    name = 'cparser:Parser._parse_constant'
    allowed = CFFI_ERRORS
    label = "numeric literal token (any text starting with a digit)"

    def setup(self, ex):
        self.s = z3.String('token')
        nd = node('Constant', 0, value=SV(self.s, 'str'), type=SV(z3.String('ctype'), 'str'))
        d0 = z3.SubString(self.s, 0, 1)
        assume = [z3.Length(self.s) >= 1, z3.StrToCode(d0) >= 48, z3.StrToCode(d0) <= 57]
        return {'self': PObj('Parser', _int_constants=SymMap('int_constants')), 'exprnode': nd,
                'partial_length_ok': False}, assume

    def witness(self, ex, args):
        return {'token': self.s}

    def post(self, ex, args, kind, value, st):
        if kind == 'raise':
            return [('a rejected token is reported as CDefError', z3.BoolVal(getattr(value, 'cls', None) == 'CDefError'))]
        return [('an accepted token evaluates to an integer', z3.BoolVal(ty_of(value) in ('int', 'bool')))]


def c09_items():
    items = [('Parser._c_div', CDivC09())]
    for op in BINOPS + ['&&']:
        items.append(('Parser._parse_constant', ParseBinaryOp(op)))
    for op in ['+', '-', '~']:
        items.append(('Parser._parse_constant', ParseUnaryOp(op)))
    items.append(('Parser._parse_constant', ParseCharConstant(False)))
    items.append(('Parser._parse_constant', ParseCharConstant(True)))
    items.append(('Parser._parse_constant', ParseID()))
    return [('src/cffi/cparser.py', R, q, c) for q, c in items]


def c30_items():
    # (_c_div itself divides: its precondition b != 0 is what the call-site model CDivCall makes the
    #  caller establish -- a path reaching it with b == 0 ends in ZeroDivisionError)
    items = []
    for op in BINOPS + ['&&']:
        items.append(('Parser._parse_constant', ParseBinaryOp(op, c30=True)))
    for op in ['+', '-', '~']:
        items.append(('Parser._parse_constant', ParseUnaryOp(op)))
    items.append(('Parser._parse_constant', ParseID()))
    items.append(('Parser._parse_constant', ParseNumberToken()))
    return [('src/cffi/cparser.py', R, q, c) for q, c in items]
