#!/usr/bin/env python3
"""validate every evidence file against the schema and print obligations/discharged and the slowest obligation"""
import glob, json, os, sys
import jsonschema
HERE = os.path.dirname(os.path.dirname(os.path.abspath(__file__)))
sch = json.load(open('/root/.vp/EVIDENCE.schema.json'))
bad = 0
for f in sorted(glob.glob(os.path.join(HERE, 'evidence', '*.json'))):
    e = json.load(open(f))
    jsonschema.validate(e, sch)
    c = e['coverage']
    flag = '' if c['obligations'] == c['discharged'] and not c.get('checker_errors') else '   <-- NOT CLEAN'
    bad += bool(flag)
    so = c.get('slowest_obligations') or [['', 0, '']]
    print("%s obligations=%d discharged=%d wall=%.0fs slowest=%.0fs %s%s" % (os.path.basename(f), c['obligations'], c['discharged'], e['wall_s'], so[0][1], so[0][2], flag))
sys.exit(1 if bad else 0)
