#!/bin/sh
# tools/patchcheck.sh <patch-file> <check-id>: run a check against a scratch copy of /repo with the patch applied
P=$1; CK=$2
d=$(mktemp -d /tmp/patchck.XXXX)
for f in src setup.py setup_base.py pyproject.toml README.md LICENSE MANIFEST.in; do cp -r /repo/$f $d/ 2>/dev/null; done
find $d -name "*.so" -delete
(cd $d && patch -p1 -s < $P) || { echo "patch failed"; rm -rf $d; exit 2; }
VERIF_REPO=$d VERIF_OUT=$d/out /verif/check $CK --tier quick > $d/log.txt 2>&1; rc=$?
echo "check $CK with $P: exit=$rc"
grep -E "^C[0-9]+ tier=" $d/log.txt
grep "^VIOLATION\|^KNOWN-FINDING" $d/log.txt | head -4 | cut -c1-330
grep "^CHECKER-ERROR\|^UNDECIDED" $d/log.txt | head -3
rm -rf $d
exit $rc
