#!/usr/bin/env python3
"""Regenerate MANIFEST.json from the table below (single source of truth)."""
import json
import os

HERE = os.path.dirname(os.path.dirname(os.path.abspath(__file__)))

COMMON_NOTE = ("Trusted: clang-14 AST of the real TU (record layouts cross-checked with gcc each run), z3/cvc5, the "
               "self-written VC generator (vf/cexec.py / vf/pyexec.py; canaries in selftest/), assumed contracts of "
               "CPython C-API / libc functions (listed in the evidence), A-PYINT, A-ALLOC, A-REFCNT, A-SEP. ")

CLAIMED = {
    'C01': dict(
        category='proof',
        text="b_complete_struct_or_union_lock_held is verified as three units against an ABI layout step written in bit "
             "coordinates (specs/layout.py): ONE iteration of the field loop, for every running state and every member of "
             "the property's class (ordinary members, named/unnamed/zero-width bit-fields of integer type, flexible "
             "arrays, nested and anonymous aggregates, unions, packed=True / pack=N without bit-fields), leaves exactly "
             "the first free bit, alignment and bytes-used that the ABI step gives, creates a field object whose "
             "offset/bitshift/bitsize denote exactly the ABI bits and lie inside the aggregate, and rejects nothing of "
             "the class; the anonymous-member loop copies inner placements shifted by the member's offset; the "
             "prologue establishes the loop invariant and the epilogue turns the final state into sizeof/alignof. "
             "get_alignment (backward goto under a label invariant), complete_sflags, force_lazy_struct, "
             "detect_custom_layout and _add_field are under contract. Counter-models are exhibited by a battery of 1300+ "
             "declarations compared with gcc.",
        design_ref='DESIGN.md section 4 C01',
        note=COMMON_NOTE + "T-SPEC: that the step function is gcc's rule is validated against gcc by the battery "
             "(bounded, thorough tier and every replay), not proved. The fold over all members is the induction over the "
             "loop-body contract (summarised loop: invariant proved at entry, restated in the body contract's pre and "
             "post). Assumed: sizes below 2^55; integer types naturally aligned (C06); the Python side passes "
             "sflags in {0, SF_PACKED} and a power-of-two pack (Parser.parse / finish_backend_type are not under "
             "contract). Known finding C01-empty-aggregate: GNU size 0 is reported as 1.",
        technique="contract-based deductive verification: loop-body contract refining a bit-coordinate ABI step, label "
                  "invariant for a goto cycle, lemma obligations for the two's-complement form of round-up/down; cvc "
                  "(clang AST -> z3/cvc5)",
    ),
    'C05': dict(
        category='proof',
        text="Floating-point plumbing under contract with z3's IEEE-754 theory: write_raw_float_data stores the double "
             "rounded to nearest (float) or itself (double, bit-exact unless NaN), read_raw_float_data widens exactly; "
             "the complex reader/writer treat each part the same way, real part first; long double readers/writers copy "
             "all 16 bytes; the floating-point branch of convert_from_object (assignment, ffi.new) and of do_cast "
             "(ffi.cast), verified as contract instances of their own, store exactly RNE(value) for a Python float -- "
             "infinities kept, NaN stays NaN -- and copy a long double cdata bit for bit without going through a "
             "double; a 1-character bytes gives its byte value.",
        design_ref='DESIGN.md section 4 C05',
        note=COMMON_NOTE + "T-SPEC: C's (float)double = RNE on this target (battery: struct.pack('f') on special values "
             "and random bit patterns). Values are compared modulo NaN payload. Not under contract: the complex "
             "branches of convert_from_object/do_cast and PyComplex_AsCComplex (their leaf writers are), __float__ "
             "objects, 1-character str sources.",
        technique="contract-based deductive verification with z3 floating-point (RNE narrowing), contract instances for "
                  "the float branches of two large functions; cvc (clang AST -> z3/cvc5)",
    ),
    'C12': dict(
        category='proof',
        text="The checking predicates of API mode are under contract. (1) The integer-constant getters are cut "
             "mechanically out of the module that the real recompiler emits for a sentinel cdef and instantiated for "
             "every C integer type of the constant (84 instances): the getter delivers (value <= 0, value mod 2^64) and "
             "sets the 'disagrees with the cdef' flag exactly when the C value differs from the expected one -- for "
             "every 64-bit value and every expected value; a '#define X ...', a 'static const int X;' and the "
             "enumerators of an enum declared with '...' are never flagged. (2) realize_global_int turns a flagged "
             "constant into ffi.error and an unflagged one into its exact value; one iteration of parse_sequel's "
             "'[...]' loop uses a constant as an array length only if its getter flagged nothing. (3) "
             "detect_custom_layout is exact; the API-mode instances of b_complete_struct_or_union_lock_held raise "
             "ffi.error exactly when a checked struct's computed field offset, total size or alignment differs from "
             "the compiler's, and adopt the compiler's numbers silently for a struct declared with '...'. (4) "
             "read_global_var / write_global_var convert from / to the address that fetch_global_var_addr returns -- "
             "the stored one, or whatever the module's address function returns at that moment. (5) The flag word "
             "Recompiler._struct_ctx prints (which declarations are checked at all) is decided by a segment contract run on "
             "every combination of outcomes of the tests the segment makes: CHECK_FIELDS exactly for own, non-opaque "
             "declarations without '...' and without anonymous struct fields; PACKED exactly for own packed=True; "
             "pack=N refused; EXTERNAL exactly for types from an included FFI.",
        design_ref='DESIGN.md section 4 C12',
        note=COMMON_NOTE + "Not decided (generated programs and the compiler are outside contracts on cffi's functions): "
             "that the emitted offsetof()/sizeof() expressions and wrappers, once compiled, deliver the compiler's "
             "numbers; calls returning what the C function returns (C13); one iteration of do_realize_lazy_struct's field loop "
             "(the per-field size check) is under a loop-body contract, what surrounds it is not; "
             "lib_build_and_cache_attr's global-variable size check is not under contract. Known finding "
             "C12-enum-unchecked: enumerators of an enum without '...' are not checked (the existing tests pin it).",
        technique="contract-based deductive verification: generated getters cut from the real recompiler's output and "
                  "instantiated per integer type, loop-body contracts, ghost call traces; cvc (clang AST -> z3/cvc5)",
    ),
    'C27': dict(
        category='proof',
        text="The cache of unique ctypes is verified as an invariant over ghost state (the dict by key content, weak "
             "references, the set of live ctype objects): I1 a live entry is filed under its referent's key, I2 every "
             "live ctype with a key is the referent of the entry under that key -- hence two live ctypes with the same "
             "key are one object. get_or_insert_unique_type returns the live ctype filed under the key or installs "
             "the new one; remove_dead_unique_reference removes only a dead entry (a type rebuilt under the same key "
             "keeps its entry); ctypedescr_dealloc leaves no entry referring to the dying type; each re-establishes "
             "the invariant, so it holds after any history. get_unique_type files a type under the content of its key "
             "words; new_pointer_type and new_array_type use exactly (item type) and (pointer type, length) as key.",
        design_ref='DESIGN.md section 4 C27',
        note=COMMON_NOTE + "The dict / weakref / bytes C-API functions are assumed contracts over the ghost state "
             "(keys compared by content). A-REFCNT: when ctypedescr_dealloc runs is CPython's business. Not under "
             "contract: new_function_type's key (variable length), new_primitive_type, new_void_type, the Python-level "
             "model.global_cache. The invariant's satisfiability is shown by a witness obligation (empty cache).",
        technique="contract-based deductive verification: quantified cache invariant over ghost maps, preserved by every "
                  "operation; cvc (clang AST -> z3/cvc5)",
    ),
    'C20': dict(
        category='proof',
        text="ffi.new under contract: allocate_owning_object / allocate_with_allocator give a zero-filled data area of "
             "the requested size; direct_newp (three cases: pointer to a plain item, pointer to struct/union, array) "
             "sizes the data area as the property says (item, item*2 for char, array, length*itemsize with a sound "
             "overflow test, or the size computed by the sizing pass), finds it all zero when the single conversion of "
             "the initializer starts, and makes exactly the convert_from_object call (address, type, value) that "
             "cdata_ass_sub makes for p[0] = init -- so both leave the same bytes; one iteration of the list loop "
             "of convert_struct_from_object hands the i-th initializer to the next field not marked "
             "ignore-in-constructor (union: first member), one iteration of the dict loop to the field stored under "
             "the key; convert_vfield_from_object / add_varsize_length make the required size cover offset + "
             "itemsize*length (overflow test proved with a Lean lemma) and never shrink it; the stored length is what "
             "direct_sizeof_cdata reports for p[0]; the 'ends in a flexible array' mark is propagated from members "
             "exactly.",
        design_ref='DESIGN.md section 4 C20',
        note=COMMON_NOTE + "convert_from_object is a recording (trace) contract here: what it writes is C03/C04/C15's "
             "subject. Scope: default allocator; flexible arrays with items that are not zero-sized; initializers that "
             "are lists/tuples/bytes/ints/dicts of those; recursive sizing of nested structs that themselves end in a "
             "flexible array is not covered (their marking is). A-ALLOC below 2^46 bytes, A-STACK.",
        technique="contract-based deductive verification: allocation/zero-fill contracts, loop-body contracts, ghost call "
                  "trace, Lean-proved overflow lemma used as instance; cvc (clang AST -> z3/cvc5)",
    ),
    'C02': dict(
        category='proof',
        text="Every obligation generated from the current source of the bit-field reader/writer, the raw integer "
             "readers/writers and the plain integer converters they delegate to is discharged by z3 for all widths "
             "1..64, all shifts, all storage units and all Python ints; spec-level lemmas give round-trip and "
             "neighbour isolation. A code change that breaks range-exactness, the written bits or the frame fails a "
             "named obligation and its counter-model is replayed on a build of the working tree.",
        design_ref='DESIGN.md section 4 C02',
        note=COMMON_NOTE + "Placement of the field (bitshift/bitsize) is C01's postcondition, assumed here as "
             "bitfield_wf; 'the value C reads' = specs/ints.py:bf_read, validated against gcc in the thorough tier.",
        technique="contract-based deductive verification: sidecar contracts on the real C functions, VCs from clang's "
                  "AST, z3 bit-vectors",
    ),
    'C03': dict(
        category='proof',
        text="All obligations of the integer store paths are discharged for every integer type and every Python int: "
             "_my_PyLong_As(Unsigned)LongLong, convert_from_object/convert_to_object (integer, _Bool), the eight "
             "API-mode converters _cffi_to_c_i8..u64 and _cffi_to_c__Bool, the callback-result widening "
             "convert_from_object_fficallback, and the header macros _cffi_to_c_int/_cffi_from_c_int instantiated "
             "from the real _cffi_include.h for 42 integer type names with every _cffi_exports[k] resolved against "
             "the backend's cffi_exports[] initialiser. Lemmas: read-after-store returns v; ABI and API ranges agree.",
        design_ref='DESIGN.md section 4 C03',
        note=COMMON_NOTE + "Scope: Python-int sources; objects converted through __int__/__index__ run arbitrary "
             "code and are outside the proved scope. Not decided: libffi delivering the widened callback result; "
             "the compiled call in generated modules; global-variable and item/field assignment call sites reach "
             "convert_from_object directly (their dispatch is C16/C20's business).",
        technique="contract-based deductive verification: sidecar contracts on the real C functions and on header-"
                  "macro instances, VCs from clang's AST, z3/cvc5 bit-vectors",
    ),
    'C04': dict(
        category='proof',
        text="cast_to_integer_or_char, do_cast, cdata_int, _new_casted_primitive, new_simple_cdata and the integer "
             "readers/writers are verified against: stored bytes = x mod 2^(8*sizeof T) (0/1 by non-zeroness for "
             "_Bool), int() reads them back with T's signedness; two spec lemmas state that this is x reduced "
             "modulo 2^(8*sizeof T) into T's range. Sources: Python int/bool of any magnitude, 1-byte bytes, "
             "pointer/array/function cdata (address; exact for 8-byte targets).",
        design_ref='DESIGN.md section 4 C04',
        note=COMMON_NOTE + "Not decided here: float sources (truncation happens in the float type's nb_int slot), "
             "1-character str sources and character target types, and the 'and back' half of pointer<->intptr_t "
             "(int(cdata) reached through a type slot). try_extract_directfnptr is a trusted cffi function.",
        technique="contract-based deductive verification: contracts incl. fresh-allocation frames, VCs from clang's "
                  "AST, z3 bit-vectors",
    ),
    'C09': dict(
        category='proof', engine='pyvc',
        text="Parser._parse_constant and _c_div are verified per AST node class and operator (structural induction "
             "through the function's own contract): for every pair of operand values each of + - * / % << >> & | ^ "
             "and unary +/- yields the C value whenever C defines it (truncating division and remainder proved "
             "against an independent definition), plain and escaped character constants have their C value, a "
             "previously declared constant yields its stored value, unsupported operators are rejected. Counter-"
             "models are replayed against gcc.",
        design_ref='DESIGN.md section 4 C09',
        note="Trusted: z3; the Python VC generator vf/pyexec.py (A-PY semantics); float division is over-"
             "approximated by reals within relative error 2^-53. Not decided: literal text -> value (decimal/octal/"
             "hex digits, suffixes), typing of constants (cffi computes on unbounded ints: unsigned wrap-around is a "
             "recorded divergence, see DESIGN.md), '#define' and 'static const' literals, enumerator auto-increment.",
        technique="contract-based deductive verification of the real Python function: path-wise VCs from ast.parse, "
                  "z3 integers/strings",
    ),
    'C10': dict(
        category='proof', engine='pyvc',
        text="EnumType.build_baseinttype is verified for all (smallest, largest) enumerator values: it returns "
             "int/long/unsigned int/unsigned long exactly when gcc's rule chooses that type and raises CDefError "
             "exactly when no 64-bit type fits; counter-models are replayed against gcc in in-line and out-of-line "
             "ABI mode.",
        design_ref='DESIGN.md section 4 C10',
        note="Trusted: z3; vf/pyexec.py; ffi.sizeof(int)=4 / sizeof(long)=8 (C06's subject); min/max of the value "
             "tuple as two ghost integers. Not decided here: enumerator values (C09), API mode (compiler-reported "
             "size), ffi.string() of enum cdata (backend b_new_enum_type).",
        technique="contract-based deductive verification of the real Python function: path-wise VCs from ast.parse, "
                  "z3 integers",
    ),
    'C30': dict(
        category='proof', engine='cvc+pyvc',
        text="Exception-escape obligations on the real constant-expression evaluator: for every AST node class and "
             "operator and all operand values, no built-in operation of Parser._parse_constant/_c_div can raise "
             "anything but CDefError/FFIError (division by zero, negative shift counts, missing dict keys, string "
             "indexing are each an obligation). Parser._parse_decl's chain that classifies a variable declaration (literal "
             "initializers) is a segment contract run for every node class of the installed pycparser as initializer, "
             "and every operator x node class for a UnaryOp: no AttributeError or other foreign exception leaves. "
             "Compiled FFIs: _ffi_type (ffi_obj.c), the entry of typeof(string) & co., returns a ctype or NULL with an "
             "exception for any argument and hands the type-string parser a C string (call-site obligation; it did not: "
             "defect found, replayed, repaired in b3f2eba). In-line typeof: Parser.parse_type_and_quals on the shapes pycparser "
             "returns (empty text, type name, unknown identifier; with and without macros) and the refusal of a bare "
             "'...' for nodes with and without coordinates, and the creation of a struct / union / enum with '...' as its tag "
             "and Parser._declare on names made with '...' (five more defects found, replayed, repaired: 5aa363e, 780523a, 631c6ee, c7f5649, f6ddf8c). The '#define' literal path is covered by a labelled bounded "
             "stand-in on the real code (all values up to length 4/5 over a 14-letter alphabet).",
        design_ref='DESIGN.md section 4 C30',
        note="Trusted: z3; vf/pyexec.py, vf/cexec.py. Not decided: pycparser, the regex preprocessing, the rest of "
             "cparser.py (the shapes of pycparser's output are assumptions), and the C "
             "type-string parser parse_c_type.c itself (assumed contract here). The bounded stand-in is reported under "
             "bounded_stand_ins and never counted as proved.",
        technique="contract-based deductive verification (exception-escape obligations, path-wise VCs, z3) plus a "
                  "bounded exhaustive stand-in for literal processing",
    ),
    'C35': dict(
        category='proof', engine='pyvc',
        text="All functions of pkgconfig.py are under contract: each of the six token filters is verified on a "
             "generic whitespace-free token (included iff its prefix designates the keyword; -I/-L/-l strip two "
             "characters; -Dk=v splits at the first '=' and -Dk gives (k, None); the other lists keep the token), "
             "flags_from_pkgconfig wires each keyword to the right filter over the right pkg-config output in "
             "package order, merge_flags concatenates per key and raises TypeError for non-lists, call() returns "
             "the decoded output or raises PkgConfigError on OSError, non-zero status, undecodable output and "
             "backslashes, and nothing else escapes. Two lemmas give the partition of tokens.",
        design_ref='DESIGN.md section 4 C35',
        note="Trusted: z3 string theory; vf/pyexec.py; str.split() semantics and the filter/map congruence lemma "
             "(not mechanised); assumed contracts of subprocess.Popen/communicate/bytes.decode. The outer loop over "
             "the package list is checked for 0, 1 and 2 packages.",
        technique="contract-based deductive verification of the real Python functions: per-token and structural "
                  "obligations, path-wise VCs from ast.parse, z3 strings",
    ),
    'C11': dict(
        category='proof', engine='cvc+pyvc',
        text="The serialisation between emit_python_code() and the C loader is verified on both sides: "
             "format_four_bytes / CffiOp.as_python_bytes emit the text of the four big-endian bytes of n mod 2^32 "
             "(array lengths >= 2^31 are refused, never truncated), cdl_4bytes / cdl_opcode read them back, two "
             "loops of ffiobj_init (type words; names, opcodes and integer constants of globals) are verified as "
             "loop-body contracts, _cdl_realize_global_int / realize_global_int return the exact integer for the "
             "(sign flag, value mod 2^64) pair; bit-vector lemmas close the round trips (GETOP/GETARG of an encoded "
             "(op, arg); every integer constant in [-2^63, 2^64)).",
        design_ref='DESIGN.md section 4 C11',
        note=COMMON_NOTE + "Whole-module equality (same list_types(), same dlopen()ed symbols, same realised ctypes) "
             "is not decided by contracts on single functions; the rest of ffiobj_init (argument parsing, allocation, "
             "struct/enum/typename loops) and the recompiler's table construction are not under contract. Known "
             "divergences recorded in DESIGN.md (FILE/_IO_FILE in list_types, pack=N refused, constants >= 2^64 "
             "truncated) are outside the proved ingredients.",
        technique="contract-based deductive verification on both sides of the encoding: pyvc (ast.parse) + cvc "
                  "(clang AST, loop-body contracts), z3 bit-vector round-trip lemmas",
    ),
    'C15': dict(
        category='proof',
        text="The str -> character-unit writers are verified from the real code including the CPython header code "
             "they expand: _my_PyUnicode_AsChar16 (loop invariant over a ghost prefix sum of UTF-16 units; every "
             "write inside the destination; per-iteration contract: a BMP code point incl. U+FFFF gives one unit, "
             "an astral one its surrogate pair; a terminating zero unit whenever the destination has room), "
             "_my_PyUnicode_AsChar32 (terminator), _my_PyUnicode_SizeAsChar16 (= number of units), and the four "
             "zero-unit scans of ffi.string() (stop at the first zero unit, or at maxlen); a lemma gives the "
             "surrogate round trip per code point.",
        design_ref='DESIGN.md section 4 C15',
        note=COMMON_NOTE + "T-U16 (ghost prefix sums) instances; PyUnicode_AsUCS4 assumed. Not in the proved scope: "
             "convert_array_from_object's sizing branch and the bytes path, the decoders _my_PyUnicode_FromChar16/32, "
             "ffi.unpack, direct_newp's extra-unit sizing; list-level 'units == utf16(s)' is by induction over the "
             "per-iteration contract (not mechanised). Lone surrogate pairs in a str are joined by char16_t "
             "(inherent to UTF-16; recorded in DESIGN.md).",
        technique="contract-based deductive verification: loop invariants, loop-body/exit contracts and memory-safety "
                  "obligations on the real C (+ CPython header) code; z3",
    ),
    'C16': dict(
        category='proof',
        text="Index, slice and pointer-arithmetic functions are verified against the byte model: an array index is "
             "accepted iff 0 <= i < n (owning pointer: iff i == 0), otherwise IndexError with memory untouched; the "
             "returned address is A + i*z inside [A, A+n*z); a slice is accepted iff 0 <= i <= j <= n with no step "
             "and yields a view at A + i*z of length j-i; slice assignment from bytes requires exactly j-i values "
             "and writes only the view; p +/- i is p + i*z and pointer difference divides by z; lemmas give "
             "(p+i)-p == i and (p+i)[j] aliasing p[i+j].",
        design_ref='DESIGN.md section 4 C16',
        note=COMMON_NOTE + "Scope: integer keys, slices with int/None members. Not in the proved scope: the array-"
             "cdata memmove path and the generic-iterator path of slice assignment, ffi.addressof/offsetof entry "
             "points (direct_typeoffsetof), pointer cdata dereference validity (a precondition, as in C). "
             "new_array_type is a trusted cffi function here. Arithmetic lemma instances are proved in Lean "
             "(lemmas/Arith.lean, re-checked in the thorough tier).",
        technique="contract-based deductive verification: bounds/address contracts, VCs from clang's AST, z3/cvc5 "
                  "with uninterpreted-product abstraction plus Lean-proved arithmetic lemma instances",
    ),
    'C17': dict(
        category='proof',
        text="cdata_richcompare and cdata_hash are verified as dispatch contracts: two pointer-like cdata (pointer, "
             "array, struct, function) compare with all six operators exactly as their addresses, a pointer-like "
             "cdata against anything else gives NotImplemented, integer cdata compare with integer cdata and with "
             "Python ints exactly as the Python values they convert to (through convert_to_object's contract), "
             "float/double cdata compare with float/double cdata exactly as the Python floats they convert to (IEEE "
             "754: -0.0 == 0.0, nan != nan), integer cdata hash as that Python int and pointer-like cdata hash by "
             "address; two congruence lemmas give a == b ==> hash(a) == hash(b).",
        design_ref='DESIGN.md section 4 C17',
        note=COMMON_NOTE + "T-API: PyObject_RichCompare / PyObject_Hash on int objects are functions of the values, "
             "PyObject_RichCompare on two float objects is the IEEE comparison. Float against int, char, complex, "
             "long double and _Bool cdata go through the same dispatch but are outside the proved scope.",
        technique="contract-based deductive verification: dispatch contracts, VCs from clang's AST, z3/cvc5",
    ),
    'C22': dict(
        category='proof',
        text="The sequential half of the statement is verified on the four errno functions with the saved errno "
             "as ghost state: ffi.errno = v stores v (int range, else OverflowError and unchanged), ffi.errno reads "
             "the saved value, save_errno_only/restore_errno_only copy between C errno and the saved value and touch "
             "nothing else. The brackets: fetch_global_var_addr (API-mode globals), invoke_callback and "
             "cffi_call_python are under contract over a trace of 'foreign C code runs' / 'Python code runs' events "
             "(C is entered with the saved errno, the errno it leaves becomes the saved errno; inside a callback "
             "ffi.errno is the C caller's errno and the value at its end is what the C caller sees); the bracket "
             "around ffi_call in cdata_call, the text the recompiler emits around a direct call and the export-table "
             "entries behind _cffi_restore_errno / _cffi_save_errno are structural obligations on the clang / Python "
             "AST. The thread half is reduced to a declaration check on the real build's AST: the saved errno has "
             "thread-local storage.",
        design_ref='DESIGN.md section 4 C22',
        note=COMMON_NOTE + "No interleaving is explored: isolation between threads rests on the C semantics of "
             "__thread (assumed). Structural obligations decide the order of calls, not values. Assumed: the GIL "
             "functions preserve the calling thread's errno; _update_cache_to_call_python runs no user code.",
        technique="contract-based deductive verification with ghost state and an event trace + structural AST "
                  "obligations + AST declaration check",
    ),
    'C34': dict(
        category='proof', engine='cvc+pyvc',
        text="Python side (pyvc): Parser._declare and Parser._add_constants are decided by an exhaustive case split (new / "
             "identical / same object with other qualifiers / another object, x override x included): the name denotes "
             "the very object given with the qualifiers given, other declarations are untouched, an included object is "
             "marked as such, a conflicting redeclaration raises FFIError and replaces nothing. Parser.include, run on an "
             "included parser with one entry of every kind word that the real cparser.py ever declares (collected from "
             "its AST on every run), shares exactly the struct / union / enum / anonymous / typedef entries as the same "
             "objects, skips anonymous enums, functions, variables, constants and macros, and adds every integer "
             "constant with its value. Compiled side (cvc): _fetch_external_struct_or_union returns what an included "
             "module's OWN builder realizes for its entry of the same name and kind that is not itself external -- "
             "through any depth of includes (own contract at the recursive call), NULL without an exception when "
             "nothing is found, RuntimeError beyond depth 100. make_included_tuples builds the two include tuples of a "
             "module: member j of each (every j, proved for an arbitrary index) is the ffi / the lib attribute of the "
             "module imported for the j-th name of the include list, in order; on failure both slots are NULL again. "
             "One iteration of lib_build_and_cache_attr's delegation loop: lib.<name> found in included module i is that "
             "module's cached attribute, or what building it in THAT lib gives, or (no lib) that ffi's integer "
             "constant; the search moves on only if module i has none, and stops on an exception.",
        design_ref='DESIGN.md section 4 C34',
        note=COMMON_NOTE + "Known finding C34-enum-not-shared: compiled modules build their own ctype for an enum of an "
             "included FFI (structural obligation on the _CFFI_OP_ENUM branch fails; replayed on every run). Recorded, not "
             "specified: _realize_c_struct_or_union; search_in_struct_unions through a weaker restatement of its C25 "
             "contract. Not under contract: what surrounds lib_build_and_cache_attr's delegation loop, "
             "ffi_fetch_int_constant, the recompiler's emission of _CFFI_F_EXTERNAL, model.global_cache.",
        technique="contract-based deductive verification: exhaustive case contracts on the Python functions (pyvc), the C "
                  "lookup through include chains over a trace of recorded realizations (cvc), structural AST obligations",
    ),
    'C37': dict(
        category='proof', engine='cvc+pyvc',
        text="State-machine invariant by contracts: the library handle (dl_handle / l_libhandle) is written only by "
             "the close functions (frame obligations on every accessor), closing sets it to NULL and calls dlclose "
             "exactly once for an open library and never for a closed one (ghost call counters); with the handle "
             "NULL, dl_load_function / dl_read_variable / dl_write_variable / cdlopen_fetch return an error without "
             "any dlsym call or memory write; dlsym/dlclose carry a 'handle is not NULL' obligation at every call "
             "site; ffi_dlclose empties the lib's cache dict together with the close; FFILibrary.__cffi_close__ "
             "closes the backend library and then empties the instance dict.",
        design_ref='DESIGN.md section 4 C37',
        note=COMMON_NOTE + "PyArg_ParseTuple is an assumed contract keyed by the format string. Not decided: "
             "lib_build_and_cache_attr (its three cdlopen_fetch call sites) and the attribute protocol of the in-line "
             "FFILibrary class (properties, __getattr__).",
        technique="contract-based deductive verification: closed-flag invariant through frame obligations, ghost "
                  "call traces; cvc + pyvc",
    ),
    'C06': dict(
        category='proof', engine='cvc',
        text="The property's domain (all primitive type names) is finite and is enumerated completely: for every "
             "name, ground obligations over tables read from the real sources on every run state that the backend's "
             "types[] entry (clang's evaluation of the real initialiser) has the size, alignment, signedness and kind "
             "a gcc probe program reports for that name, that the Python kind letter agrees, and that name -> opcode "
             "index (cffi_opcode.PRIMITIVE_TO_INDEX) -> name (primitive_name[] in realize_c_type.c) is the identity, "
             "with PRIM_* equal to the _CFFI_PRIM_* macros. search_standard_typename, the C parser's recogniser for "
             "the *_t names, is verified by contract for all byte strings against that same index table.",
        design_ref='DESIGN.md section 4 C06',
        note=COMMON_NOTE + "Not under contract: new_primitive_type's search loop and FITS_LONG computation, the keyword "
             "path of the C type parser (parse_complete). Integer ranges follow from size + signedness through the "
             "converters of C03.",
        technique="exhaustive enumeration of the finite name set as ground obligations over tables extracted from the "
                  "real sources + contract-based deductive verification of search_standard_typename (cvc)",
    ),
    'C18': dict(
        category='proof', engine='cvc',
        text="b_unpack under contract: the fast path chosen before the loop is, as a proved loop-entry fact, one that "
             "is only selected for the item types it reads correctly (signed/unsigned integers of the exact size, "
             "float, double, pointers, _Bool) and never for any other item type; one arbitrary loop iteration is "
             "verified under that fact against the contract of convert_to_object (the function p[i] uses): the "
             "object stored as item i is an int with the stored value / the float the stored float or double widens "
             "to / False or True / a cdata of the item type holding the stored pointer, and a _Bool byte other than "
             "0/1 goes through convert_to_object. convert_to_object itself is verified for integer, float and "
             "double ctypes.",
        design_ref='DESIGN.md section 4 C18',
        note=COMMON_NOTE + "The loop is summarised (entry fact + one arbitrary iteration; termination and the "
             "function's result list as a whole are not verified). char / wchar_t string results and items of "
             "complex, struct, array, long double type are covered by the replay battery only (they take the "
             "element-wise converter on both sides, which is proved).",
        technique="contract-based deductive verification: loop-entry invariant + loop-body contract against the "
                  "callee contract of convert_to_object; cvc (clang AST -> z3/cvc5)",
    ),
    'C19': dict(
        category='proof',
        text="The buffer object's operations are verified against a byte-array model, with frame conditions saying "
             "that exactly the addressed bytes change: b_buffer_new (a view of exactly n bytes at the cdata's address "
             "for an explicit n >= 0, 0 included; otherwise the pointed-to type's size / length * item size; only "
             "pointers and arrays; never a negative length), minibuffer_new, mb_length, mb_item, mb_slice, "
             "mb_ass_item, mb_ass_slice (equal length required, else ValueError and no write) and b_memmove (byte k "
             "of dest becomes the old byte k of src for every k < n, for any overlap; negative n refused). "
             "Counter-models are exhibited through a battery of buffer operations compared with a bytearray.",
        design_ref='DESIGN.md section 4 C19',
        note=COMMON_NOTE + "Assumed contracts: PyBytes_FromStringAndSize, the buffer protocol "
             "(_fetch_as_buffer / _my_PyObject_GetContiguousBuffer), PyArg_ParseTupleAndKeywords keyed by the format "
             "string; slice bounds reaching mb_slice / mb_ass_slice are those PySlice_GetIndicesEx computes. Scope of "
             "mb_ass_slice: the right operand is not a cdata and does not overlap the destination. Not decided: "
             "mb_subscript / mb_ass_subscript (index normalisation), mb_richcompare, direct_from_buffer "
             "(from_buffer item counts), keep-alive and export locking.",
        technique="contract-based deductive verification of the buffer object's operations against a byte-array "
                  "model (frame conditions: exactly the addressed bytes change); cvc (clang AST -> z3/cvc5)",
    ),
    'C29': dict(
        category='proof',
        text="The closure allocator of malloc_closure.h is verified under a representation invariant of its free list "
             "over ghost state (free set, live set, rank, length): cffi_closure_alloc hands out a block that was not "
             "live -- so it differs from every live closure -- and makes exactly it live; cffi_closure_free makes "
             "exactly its argument free; more_core links the blocks of a fresh mapping one by one (loop invariant with "
             "ghost assignments); each re-establishes the invariant, so it holds after any history of creating and "
             "dropping callbacks. b_callback binds the closure, through libffi's user_data, to the info tuple of exactly "
             "its ctype and callable and makes the closure the cdata's C address; invoke_callback passes that "
             "user_data on unchanged; cdataowninggc_dealloc gives the closure back exactly once.",
        design_ref='DESIGN.md section 4 C29',
        note=COMMON_NOTE + "Assumed: mmap returns memory disjoint from every block tracked so far; libffi's "
             "ffi_prep_closure / trampoline; prepare_callback_info_tuple (C14's subject); A-REFCNT for when dealloc "
             "runs; the free-threaded build's mutex is not the build verified. The invariant's satisfiability is shown "
             "by a witness obligation (initial state).",
        technique="contract-based deductive verification: representation invariant with ghost sets/ranks, ghost "
                  "assignments at exits and loop ends, quantified obligations; cvc (clang AST -> z3/cvc5)",
    ),
    'C14': dict(
        category='proof',
        text="general_invoke_callback -- what runs when C calls an ffi.callback() or an extern \"Python\" function -- is "
             "verified over a trace of recorded conversions and calls: argument j (every j, proved for an arbitrary index) "
             "is converted exactly once, from slot j of libffi's pointer array or of the wrapper's block of 8-byte slots "
             "(long double / struct / union by address), as the j-th declared type, and stored as member j of the tuple "
             "the Python function is called with, once, without keywords; its result is converted exactly once into "
             "*result as the declared result type (with libffi's widening for callbacks); when a conversion fails, the "
             "function raises or its result cannot be converted, *result holds the declared error value (every byte "
             "of the info tuple's error bytes) when error handling starts, onerror -- if given -- is called exactly once "
             "and what it returns (unless None or an exception) is converted into *result; on every path no exception "
             "is left pending for the C caller. prepare_callback_info_tuple builds exactly (ctype, callable, error "
             "bytes, onerror) with zero-filled error bytes of max(result size, ffi_arg) into which the error value is "
             "converted once.",
        design_ref='DESIGN.md section 4 C14',
        note=COMMON_NOTE + "The conversions themselves are recorded here and specified elsewhere (C03 incl. the ffi_arg "
             "widening, C04, C05, C15). Assumed: tuples and bytes objects are immutable while Python code runs; the "
             "ctypes of the signature keep size and flags; _my_PyErr_WriteUnraisable leaves no exception pending. Not "
             "under contract: libffi itself; the C wrapper the recompiler emits for extern \"Python\" (it fills the "
             "slots whose decoding is proved). A bounded battery (replay only) exercises both routes on the real build.",
        technique="contract-based deductive verification over a trace of recorded calls: ghost sequences assigned per loop "
                  "iteration, arbitrary-index clauses; cvc (clang AST -> z3/cvc5)",
    ),
    'C21': dict(
        category='proof',
        text="Operation contracts over the engine's trace of calls: cdatagcp_finalize / cdata_exit (ffi.release, with-exit, "
             "tp_finalize) call the destructor exactly once with the original object iff the wrapper is armed, and "
             "disarm it BEFORE the call (re-entrant release finds nothing); ffi.gc(p, None) disarms without a call and "
             "touches no other wrapper; cdatagcp_dealloc calls it iff still armed; an exception of the destructor never "
             "replaces the pending one. A history lemma over these contracts (calls + [armed] == 1 unless removed) "
             "and a whole-TU scan obligation (three functions write the destructor member) give exactly-once over any "
             "history. new_allocator(): alloc is called once and the result is an ffi.gc wrapper around the very "
             "object it returned, armed with free. from_buffer: the view is acquired once, stored, released exactly "
             "once by release/clear/dealloc (never twice), and released again on every failure path. p[0] of "
             "ffi.new('struct *') is the owning object itself. from_handle returns the object stored by the "
             "new_handle call; a handle's address is the handle object.",
        design_ref='DESIGN.md section 4 C21',
        note=COMMON_NOTE + "Assumed: WHEN CPython deallocates/finalizes/clears an object (A-REFCNT, cyclic GC order); "
             "the buffer protocol (view->obj holds the exporter until PyBuffer_Release, which is idempotent); "
             "_my_PyErr_WriteUnraisable leaves no exception pending; a dead handle given to from_handle is the "
             "caller's error. A sampled history battery (bounded, replay only) runs the same histories on the real build.",
        technique="contract-based deductive verification: operation contracts over a call trace + history lemma over "
                  "the contracts + whole-TU frame scans; cvc (clang AST -> z3/cvc5)",
    ),
    'C23': dict(
        category='proof', engine='pyvc',
        text="_make_c_or_py_source is verified over a ghost file system with one externally visible state per I/O "
             "call: identical content => no write, no rename, no scratch file, result False; otherwise result True, "
             "the final target content is the new text, the text is written to a scratch file (never to the target "
             "path), reaches the target by exactly one rename, and after every I/O call the target path holds the "
             "complete old or the complete new content. Determinism is decided by a set-iteration audit of the "
             "files on the emission path: every order-exposing use of a set is under sorted() or on a provably "
             "singleton set, and no hash()/id() reaches emitted text.",
        design_ref='DESIGN.md section 4 C23',
        note="Trusted: z3 strings; vf/pyexec.py and vf/pyaudit.py (syntactic set-type inference); the I/O calls "
             "succeed and os.rename is atomic and does not fail (crash points, not faults: the unlink+rename fallback "
             "after a failed rename is not atomic and outside the claim). Not decided: other sources of "
             "non-determinism (global caches, cdef version counter).",
        technique="contract-based deductive verification over a ghost file system (pyvc) + set-iteration audit as "
                  "determinism obligations",
    ),
    'C32': dict(
        category='proof', engine='pyvc',
        text="ffiplatform._flatten is verified for every kind of object it accepts: str -> '<len>s<chars>', int -> "
             "'<value>i', list/tuple -> '<n>l' + items in order, dict -> '<n>d' + key/value pairs in sorted key order "
             "(the two insertion orders of a two-key dict give the same text, so keyword order cannot matter), "
             "anything else -> TypeError; prefix-freeness lemmas (unique decodability of the str and int encodings, "
             "no shared prefix between them) are discharged by cvc5; an audit shows no set iteration, hash() or "
             "id() on the key path of ffiplatform.py / verifier.py.",
        design_ref='DESIGN.md section 4 C32',
        note="Trusted: z3/cvc5 string theories; vf/pyexec.py; A-FMT axioms on '%d'. Injectivity for nested containers "
             "is the structural induction over the leaf lemmas (not mechanised). Not decided: Verifier.__init__ itself "
             "(NUL-joined components, CRC32 halves); the NUL join is not injective when a component contains U+0000 "
             "(recorded divergence).",
        technique="contract-based deductive verification of the real _flatten per object kind + SMT prefix-freeness "
                  "lemmas + set-iteration audit",
    ),
    'C24': dict(
        category='proof', engine='pyvc',
        text="Every function of _cffi_gen_src.py is under a call-trace contract: read_sources performs exactly "
             "FFI(); cdef(cdef text); set_source(module name, prelude); emit_c_code(buffer) and writes the buffer's "
             "text unchanged to the UTF-8 output file or, for '-', to sys.stdout and nothing else; exec_python uses "
             "the object bound under --ffi-var (called iff it is a non-FFI callable; NameError/TypeError otherwise), "
             "the script runs once as module cffi.gen_src with sys.path restored; _make_c_or_py_source with a "
             "file-like target prints nothing to sys.stdout; both documented invocations reach the same run().",
        design_ref='DESIGN.md section 4 C24',
        note="Trusted: vf/pyexec.py; FFI.emit_c_code's text is a ghost function of the FFI object on both sides; "
             "argparse, exec() and run()'s dispatch are assumed; byte identity with emit_c_code(path) assumes a UTF-8 "
             "default encoding (the recompiler opens its file with the locale encoding).",
        technique="contract-based deductive verification as call-trace contracts (pyvc) + syntactic entry-point "
                  "obligations",
    ),
    'C25': dict(
        category='proof',
        text="search_sorted (the binary search behind all four runtime lookups) is verified with a loop invariant "
             "over an abstract strictly sorted table: it returns i iff entry i equals the key and -1 iff no entry "
             "does, for every table length, key and name set, and every byte it reads lies in the table, the key's "
             "search_len bytes or the examined name up to its NUL; the four search_in_* instances pass the table "
             "invariant through. Counter-models are exhibited through a battery of real generated modules.",
        design_ref='DESIGN.md section 4 C25',
        note=COMMON_NOTE + "T-STR/T-ORDER (sign facts of strncmp vs. string order; monotone comparisons on a sorted "
             "table) are assumed and validated by exhaustive enumeration over short strings each run (bounded). The "
             "table invariant itself (generator sorts names in strcmp order, names distinct) is the precondition; "
             "the Python side that establishes it is covered when the pyvc part of this check is present.",
        technique="contract-based deductive verification: binary-search loop invariant, explicit instances of the "
                  "quantified table invariant, memory-safety obligations; z3 + cvc5 portfolio",
    ),
}

NOT_APPLICABLE = {
    'C07': "relational property between two parsers over an infinite grammar; one of them is pycparser, a third-party "
           "table-driven LALR parser that cannot be put under contract, so there is no verified denotation of the Python "
           "side to relate parse_c_type.c to (DESIGN.md section 5)",
    'C08': "a round trip through two parsers: ffi.getctype() builds a declarator TEXT (ct_name splicing, get_c_name) and "
           "ffi.typeof() parses it again with pycparser or parse_c_type.c, and the last clause asks a C compiler to accept "
           "the text; the function-level ingredient within reach (ctypedescr_new_on_top's splice at ct_name_position) does "
           "not decide 're-parses to the type the declarator denotes', which is a statement about the grammar of C "
           "declarators accepted by a third-party LALR parser (same obstacle as C07); no contract on it was attempted "
           "in this round",
    'C13': "a relational property across four call routes, three of which run through code that is not cffi's and not "
           "within reach of the verifier: libffi's ffi_call (machine-level argument marshalling), and the C that the "
           "recompiler EMITS and a compiler then compiles (the _cffi_f_ / _cffi_d_ wrappers). The ingredients that are "
           "cffi functions are decided elsewhere (the converters of every route against one spec: C03/C04/C05/C15; "
           "the errno bracket of every route: C22); 'same outcome through every route' itself is not a post-condition "
           "of any one of them",
    'C26': "a statement over every interleaving of concurrent init_once calls (mutual exclusion, at most one completion, "
           "no call blocked forever): contracts on sequential functions decide neither schedules nor liveness, and the "
           "verifier has no model of threads; the sequential reading (second call returns the cached result, an "
           "exception caches nothing) is a small part of the statement and is not claimed on its own",
    'C28': "interleavings and faults inside CPython start-up (CAS spin lock, lazily created mutex, function-pointer "
           "switch) with a liveness clause; the code is a header pasted into generated modules; contracts on sequential "
           "functions do not decide schedule/fault properties (DESIGN.md section 5)",
    'C31': "invariance of regex-based preprocessing under insertions at every token boundary needs the leftmost-match "
           "semantics of Python's re (lazy quantifiers, MULTILINE|DOTALL) that neither SMT string solver decides, plus "
           "pycparser's lexer (DESIGN.md section 5)",
    'C33': "equivalence of the programs generated by three code generators after compilation: contracts on cffi's own "
           "functions do not reach the behaviour of generated-and-compiled code (DESIGN.md section 5)",
    'C36': "thread-state lifetime across foreign threads, pthread key destructors and CPython internals: a "
           "schedule/history property whose state lives inside CPython (DESIGN.md section 5)",
}

PENDING_REASON = "machinery for this property not finished yet (plan: DESIGN.md section 4)"


def main():
    props = [json.loads(l)['id'] for l in open(os.path.join(HERE, 'properties.jsonl'))]
    checks = []
    for pid in props:
        if pid in CLAIMED:
            c = CLAIMED[pid]
            checks.append({
                'property_id': pid,
                'quick_cmd': './check %s --tier quick' % pid,
                'thorough_cmd': './check %s --tier thorough' % pid,
                'evidence_file': 'evidence/%s.json' % pid,
                'replay_cmd_template': './check %s --replay {path}' % pid,
                'engine': c.get('engine', 'cvc'),
                'level_claimed': {'category': c['category'], 'text': c['text'], 'design_ref': c['design_ref']},
                'level_note': c['note'],
                'technique': c['technique'],
            })
    na = [{'property_id': p, 'reason': NOT_APPLICABLE.get(p, PENDING_REASON)} for p in props if p not in CLAIMED]
    m = {
        'version': 1,
        'setup_cmd': "python3-vt -c 'import z3, cvc5' && clang --version >/dev/null && gcc --version >/dev/null && "
                     "/venv/bin/python -c 'import sysconfig, pycparser'",
        'hooks': {
            'guard': 'PYTHON_CFFI_CFFI_VERIF',
            'enable': 'no hooks: contracts are sidecar files in /verif keyed by function name; /repo is read, '
                      'never instrumented',
            'baseline_off_cmd': 'cd /repo && /venv/bin/python -m pytest -ra -q -p no:cacheprovider --timeout=900 '
                                '--continue-on-collection-errors',
            'source_commits': [],
            'add_only': True,
        },
        'engines': [
            {'name': 'cvc', 'path': 'vf/cexec.py', 'serves_properties': [p for p in CLAIMED if CLAIMED[p].get('engine', 'cvc') in ('cvc', 'cvc+pyvc')],
             'kind_free_text': "verification-condition generator over clang's JSON AST of the real C translation unit "
                               "(symbolic execution with state merging, contracts at calls, invariants at loops), "
                               "discharged by z3 5.1 with cvc5 1.0.3 for unknowns"},
            {'name': 'pyvc', 'path': 'vf/pyexec.py', 'serves_properties': [p for p in CLAIMED if 'pyvc' in CLAIMED[p].get('engine', '')],
             'kind_free_text': "verification-condition generator over ast.parse of the real Python sources"},
        ],
        'checks': checks,
        'not_applicable': na,
        'notes': "Technique family: contract-based deductive verification of the real code. See DESIGN.md.",
    }
    json.dump(m, open(os.path.join(HERE, 'MANIFEST.json'), 'w'), indent=1)
    try:
        import jsonschema
        jsonschema.validate(m, json.load(open('/root/.vp/MANIFEST.schema.json')))
        print("MANIFEST.json valid: %d checks, %d not_applicable" % (len(checks), len(na)))
    except ImportError:
        print("written (jsonschema not available)")


if __name__ == '__main__':
    main()
