#!/bin/sh
# tools/try_patch.sh <name> <patch>: apply a candidate repair in a scratch worktree of /repo, build, run the baseline suite,
# report how many baseline stable_pass tests still pass.  The worktree is removed afterwards.
NAME=$1; PATCH=$2
WT=/tmp/fixwt/$NAME
mkdir -p /tmp/fixwt
git -C /repo worktree remove --force $WT 2>/dev/null
git -C /repo worktree add --detach $WT HEAD >/dev/null 2>&1 || { echo "worktree failed"; exit 2; }
cd $WT
git apply $PATCH || { echo "patch does not apply"; exit 2; }
/venv/bin/python setup.py -q build_ext -i >/tmp/fixwt/$NAME.build.log 2>&1 && echo "builds=true" || echo "builds=false"
PYTHONPATH=$WT/src /venv/bin/python -m pytest -q -p no:cacheprovider --timeout=900 --continue-on-collection-errors --junitxml=/tmp/fixwt/$NAME.junit.xml >/tmp/fixwt/$NAME.pytest.log 2>&1
/venv/bin/python - $NAME <<'PY'
import json, sys, xml.etree.ElementTree as ET
NAME = sys.argv[1]
base = set(json.load(open('/root/.vp/BASELINE.json'))['stable_pass'])
ok = set()
for tc in ET.parse('/tmp/fixwt/%s.junit.xml' % NAME).getroot().iter('testcase'):
    name = "%s::%s" % (tc.get('classname'), tc.get('name'))
    if not any(ch.tag in ('failure', 'error', 'skipped') for ch in tc):
        ok.add(name)
missing = [t for t in base if t not in ok]
print("baseline_tests=%d passing_with_patch=%d not_passing=%d" % (len(base), len(base) - len(missing), len(missing)))
for t in missing[:12]: print("  NOT PASSING:", t)
PY
cd /; git -C /repo worktree remove --force $WT
echo "done $NAME"
