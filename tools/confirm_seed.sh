#!/bin/sh
# tools/confirm_seed.sh <ID> [demo-file]: confirm a seeded change in a scratch worktree of /repo:
#   builds; demo passes without the change and fails with it; every baseline stable_pass test still passes with it.
# Prints a summary and writes /tmp/seedwt/<ID>.result ; the worktree is removed afterwards.
ID=$1
SD=/verif/seeded/$ID
DEMO=${2:-$(ls $SD | grep -E '^demo' | head -1)}
WT=/tmp/seedwt/$ID
mkdir -p /tmp/seedwt
git -C /repo worktree remove --force $WT 2>/dev/null
git -C /repo worktree add --detach $WT HEAD >/dev/null 2>&1 || { echo "worktree failed"; exit 2; }
cd $WT
res=/tmp/seedwt/$ID.result
: > $res
/venv/bin/python setup.py -q build_ext -i >/tmp/seedwt/$ID.build0.log 2>&1 || { echo "build(clean) failed" | tee -a $res; }
PYTHONPATH=$WT/src timeout 600 /venv/bin/python $SD/$DEMO >/tmp/seedwt/$ID.demo0.log 2>&1; echo "demo_without_change exit=$?" | tee -a $res
git apply $SD/patch.diff || { echo "patch does not apply" | tee -a $res; }
/venv/bin/python setup.py -q build_ext -i -f >/tmp/seedwt/$ID.build1.log 2>&1 && echo "builds=true" | tee -a $res || echo "builds=false" | tee -a $res
PYTHONPATH=$WT/src timeout 600 /venv/bin/python $SD/$DEMO >/tmp/seedwt/$ID.demo1.log 2>&1; echo "demo_with_change exit=$?" | tee -a $res
PYTHONPATH=$WT/src /venv/bin/python -m pytest -q -p no:cacheprovider --timeout=900 --continue-on-collection-errors --junitxml=/tmp/seedwt/$ID.junit.xml >/tmp/seedwt/$ID.pytest.log 2>&1
/venv/bin/python - $ID <<'PY' | tee -a $res
import json, sys, xml.etree.ElementTree as ET
ID = sys.argv[1]
base = set(json.load(open('/root/.vp/BASELINE.json'))['stable_pass'])
ok = set(); bad = set()
for tc in ET.parse('/tmp/seedwt/%s.junit.xml' % ID).getroot().iter('testcase'):
    name = "%s::%s" % (tc.get('classname'), tc.get('name'))
    failed = any(ch.tag in ('failure', 'error') for ch in tc)
    skipped = any(ch.tag == 'skipped' for ch in tc)
    (bad if failed else ok).add(name) if not skipped else None
missing = [t for t in base if t not in ok]
print("baseline_tests=%d passing_with_change=%d not_passing=%d" % (len(base), len(base) - len(missing), len(missing)))
for t in missing[:8]: print("  NOT PASSING:", t)
PY
cd /; git -C /repo worktree remove --force $WT
echo "done $ID"
