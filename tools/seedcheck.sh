#!/bin/sh
# tools/seedcheck.sh <ID> [check-id]: run a check against a scratch copy of /repo with the seeded patch applied
ID=$1; CK=${2:-$1}
d=$(mktemp -d /tmp/seedck.XXXX)
for f in src setup.py setup_base.py pyproject.toml README.md LICENSE MANIFEST.in; do cp -r /repo/$f $d/ 2>/dev/null; done
find $d -name "*.so" -delete
(cd $d && patch -p1 -s < /verif/seeded/$ID/patch.diff) || { echo "patch failed"; rm -rf $d; exit 2; }
VERIF_REPO=$d VERIF_OUT=$d/out /verif/check $CK --tier quick > $d/log.txt 2>&1; rc=$?
echo "check $CK on seeded $ID: exit=$rc"
grep -c "^VIOLATION" $d/log.txt | sed 's/^/violation lines: /'
grep "^VIOLATION" $d/log.txt | head -2 | cut -c1-330
grep "^CHECKER-ERROR\|^UNDECIDED" $d/log.txt | head -3
rm -rf $d
exit $rc
