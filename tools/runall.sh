#!/bin/sh
# run every claimed check (quick tier by default) and print one summary line each
cd "$(dirname "$0")/.."
TIER=${1:-quick}
for id in $(python3 -c "import json;print(' '.join(c['property_id'] for c in json.load(open('MANIFEST.json'))['checks']))"); do
  ./check $id --tier $TIER > /tmp/runall_$id.log 2>&1; rc=$?
  echo "$id exit=$rc $(grep -E '^C[0-9]+ tier=' /tmp/runall_$id.log | tail -1)"
  grep -E '^(VIOLATION|CHECKER-ERROR|UNDECIDED|KNOWN-FINDING)' /tmp/runall_$id.log | head -3 | cut -c1-200
done
