"""known finding C14-complex-slot: the C wrapper the recompiler emits for an extern "Python" function stores every
argument by value in an 8-byte slot unless it is a struct, a union or a long double; a 'double _Complex' argument is 16
bytes, so it overlaps the next slot (and the last one overruns the buffer `char a[8*n]`)."""
import importlib.util
import os
import sys
import warnings

import cffi

warnings.simplefilter("ignore")
fb = cffi.FFI()
fb.cdef("""
    extern "Python" double ep_c(double _Complex, double _Complex);
    double call_c(double, double, double, double);
""")
fb.set_source("_c14_complex_demo", """
    #include <complex.h>
    static double ep_c(double _Complex, double _Complex);
    double call_c(double a, double b, double c, double d) { return ep_c(a + b*I, c + d*I); }
""", extra_compile_args=["-w"])
path = fb.compile(tmpdir=os.getcwd(), verbose=False)
spec = importlib.util.spec_from_file_location("_c14_complex_demo", path)
mod = importlib.util.module_from_spec(spec)
spec.loader.exec_module(mod)
seen = []


@mod.ffi.def_extern()
def ep_c(x, y):
    seen.append((x, y))
    return 0.0


mod.lib.call_c(1.0, 2.0, 3.0, 4.0)
if seen != [((1 + 2j), (3 + 4j))]:
    print("FAIL C calls ep_c(1+2i, 3+4i); the Python function receives %r" % (seen,))
    sys.exit(1)
print("ok")
