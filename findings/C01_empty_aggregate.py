"""known finding C01-empty-aggregate: aggregates whose GNU size is 0 are given size 1 by cffi (by design: the comment
at the computation of `alignedsize` in b_complete_struct_or_union_lock_held says so)."""
import os, subprocess, sys, tempfile
import cffi
decls = ["struct s0 { int :0; };", "struct s1 { };", "union u0 { char :0; int :0; };"]
d = tempfile.mkdtemp()
src = "#include <stdio.h>\n" + "\n".join(decls) + "\nint main(void){printf(\"%zu %zu %zu\\n\", sizeof(struct s0), sizeof(struct s1), sizeof(union u0));return 0;}\n"
open(os.path.join(d, "t.c"), "w").write(src)
subprocess.check_call(["gcc", "-w", "t.c", "-o", "t"], cwd=d)
want = subprocess.check_output([os.path.join(d, "t")]).decode().split()
ffi = cffi.FFI()
ffi.cdef("\n".join(decls))
got = [str(ffi.sizeof(t)) for t in ("struct s0", "struct s1", "union u0")]
if got != want:
    print("FAIL sizeof of %s: cffi %s, gcc %s" % (decls, got, want))
    sys.exit(1)
print("ok")
