"""known finding C34-enum-not-shared: a compiled (out-of-line / API-mode) FFI that includes another compiled FFI builds
its OWN ctype for an enum of the included FFI -- 'enum color' (and a typedef of it) is not the same ctype object, and a
pointer to it made by the including ffi is refused by the included module's functions.  (Structs and unions are
fetched from the included module; in-line FFIs share the enum.)"""
import os
import sys
import warnings

import cffi

warnings.simplefilter("ignore")
sys.path.insert(0, os.getcwd())
b = cffi.FFI()
b.cdef("enum color { RED, GREEN=5 }; typedef enum color color_t; struct pt { int x; }; int getcol(enum color *p);")
b.set_source("_c34_enum_base", "enum color { RED, GREEN=5 }; typedef enum color color_t; struct pt { int x; };"
             " int getcol(enum color *p) { return *p; }")
b.compile(tmpdir=os.getcwd(), verbose=False)
t = cffi.FFI()
t.include(b)
t.cdef("int other(void);")
t.set_source("_c34_enum_top", "enum color { RED, GREEN=5 }; typedef enum color color_t; struct pt { int x; };"
             " int other(void) { return 1; }")
t.compile(tmpdir=os.getcwd(), verbose=False)
import _c34_enum_base                      # noqa: E402
import _c34_enum_top                       # noqa: E402
fb, ft = _c34_enum_base.ffi, _c34_enum_top.ffi
problems = []
if ft.typeof("struct pt") is not fb.typeof("struct pt"):
    problems.append("struct pt is not shared either")
if ft.typeof("enum color") is not fb.typeof("enum color"):
    problems.append("ffi.typeof('enum color') of the including module is a different ctype object")
if ft.typeof("color_t") is not fb.typeof("color_t"):
    problems.append("so is the typedef color_t")
try:
    _c34_enum_top.lib.getcol(ft.new("enum color *", 5))
except TypeError as e:
    problems.append("lib.getcol(ffi.new('enum color *')) raises TypeError: %s" % e)
if problems:
    print("FAIL " + " ;; ".join(problems))
    sys.exit(1)
print("ok")
