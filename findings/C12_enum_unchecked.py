"""known finding C12-enum-unchecked: in API mode the getters of enumerators are generated without the expected value, so
an enumerator whose cdef value differs from the C source silently takes the compiler's value (a '#define' raises)."""
import sys, os, importlib
import cffi
ffi = cffi.FFI()
ffi.cdef("enum e { EA = 5, EB };\n#define M 10\n")
ffi.set_source("_c12_enum_demo", "enum e { EA = 6, EB };\n#define M 11\n")
ffi.compile(tmpdir=os.getcwd(), verbose=False)
sys.path.insert(0, os.getcwd())
m = importlib.import_module("_c12_enum_demo")
out = {}
for n in ("M", "EA"):
    try:
        out[n] = getattr(m.lib, n)
    except m.ffi.error:
        out[n] = "ffi.error"
if out["EA"] != "ffi.error":
    print("FAIL the cdef says enum e { EA = 5 }, the C source says EA = 6: lib.EA gives %r without any error "
          "(the mismatching '#define M' gives %r)" % (out["EA"], out["M"]))
    sys.exit(1)
print("ok")
