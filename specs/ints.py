"""Spec functions for integer storage (C02, C03, C04).  Written from the property
statements in mathematical terms (wide bit-vectors so that no operation here can
wrap or be undefined); they do not follow the implementation's arithmetic.
"""
import z3

BV = z3.BitVecVal
WIDE = 160           # wide enough for  (2^79-range value) << 63  and friends


def wide(v, signed):
    n = WIDE - v.size()
    return z3.SignExt(n, v) if signed else z3.ZeroExt(n, v)


def W(x):
    return BV(x, WIDE)


def pow2(e):
    """2^e for a WIDE term 0 <= e < WIDE"""
    return W(1) << e


def le_unit(byte_at, addr, size):
    """little-endian value (zero-extended to 64 bits) of the `size` bytes at addr,
    size a 64-bit term in {1,2,4,8}; byte_at(a) reads one byte"""
    bs = [byte_at(addr + BV(k, 64)) for k in range(8)]
    v8 = z3.Concat(*reversed(bs))
    v4 = z3.ZeroExt(32, z3.Concat(*reversed(bs[:4])))
    v2 = z3.ZeroExt(48, z3.Concat(bs[1], bs[0]))
    v1 = z3.ZeroExt(56, bs[0])
    return z3.If(size == 1, v1, z3.If(size == 2, v2, z3.If(size == 4, v4, v8)))


def signed_of_unit(unit64, size):
    """two's-complement value (sign-extended to 64 bits) of a size-byte unit"""
    return z3.If(size == 1, z3.SignExt(56, z3.Extract(7, 0, unit64)),
                 z3.If(size == 2, z3.SignExt(48, z3.Extract(15, 0, unit64)),
                       z3.If(size == 4, z3.SignExt(32, z3.Extract(31, 0, unit64)), unit64)))


# -- bit-fields ---------------------------------------------------------------

def bitfield_wf(size, bitsize, bitshift):
    """size: 64-bit term; bitsize, bitshift: terms of any width (sign-extended)"""
    bs, sh = z3.SignExt(64 - bitsize.size(), bitsize), z3.SignExt(64 - bitshift.size(), bitshift)
    return z3.And(z3.Or(size == 1, size == 2, size == 4, size == 8),
                  bs >= 1, sh >= 0, sh + bs <= 8 * size)


def bf_read(unit64, bitsize, bitshift, signed):
    """value of the field as a WIDE signed term.  signed: z3 Bool."""
    u = wide(unit64, False)
    bs, sh = wide(bitsize, True), wide(bitshift, True)
    field = z3.LShR(u, sh) & (pow2(bs) - W(1))               # (unit div 2^sh) mod 2^bs, no wrap at WIDE bits
    half = pow2(bs - W(1))
    return z3.If(z3.And(signed, z3.UGE(field, half)), field - pow2(bs), field)


def bf_in_range(v_wide, bitsize, signed):
    """v in the representable range of the field (a signed 1-bit field also accepts 1)"""
    bs = wide(bitsize, True)
    half = pow2(bs - W(1))
    s_ok = z3.Or(z3.And(v_wide >= -half, v_wide <= half - W(1)), z3.And(bs == W(1), v_wide == W(1)))
    u_ok = z3.And(v_wide >= W(0), v_wide <= pow2(bs) - W(1))
    return z3.If(signed, s_ok, u_ok)


def bf_write(unit64, v_wide, bitsize, bitshift):
    """unit after storing v:  (unit and not mask) or ((v mod 2^bs) << sh), as a 64-bit term"""
    u = wide(unit64, False)
    bs, sh = wide(bitsize, True), wide(bitshift, True)
    mask = pow2(bs) - W(1)
    vm = v_wide & mask                                       # v mod 2^bs  (two's complement at WIDE bits)
    return z3.Extract(63, 0, (u & ~(mask << sh)) | (vm << sh))


# -- plain integers -------------------------------------------------------------

def int_lo(size, signed, is_bool=None):
    """lowest representable value (WIDE) of an integer type of `size` bytes"""
    sz = wide(size, False)
    return z3.If(signed, -pow2(W(8) * sz - W(1)), W(0))


def int_hi(size, signed):
    sz = wide(size, False)
    return z3.If(signed, pow2(W(8) * sz - W(1)) - W(1), pow2(W(8) * sz) - W(1))
