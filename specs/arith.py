"""Arithmetic lemmas about 64-bit products that SMT solvers do not find by bit-blasting.
Each function returns an *instance* of a lemma proved once and for all in Lean
(lemmas/Arith.lean, re-checked with `lean` in the thorough tier and listed in the evidence);
contracts attach instances to the clause that needs them.
"""
import z3

BV = z3.BitVecVal
USED = set()


def mul_mono_step(i, n, z):
    """Arith.mul_mono_step:  0 <= i < n < 2^40,  0 <= z < 2^20  ==>
         i*z + z <= n*z   (no wrap-around: all three are < 2^60)"""
    USED.add('mul_mono_step')
    lim = BV(1 << 60, 64)
    return z3.Implies(z3.And(i >= 0, i < n, n < BV(1 << 40, 64), z >= 0, z < BV(1 << 20, 64)),
                      z3.And(z3.ULE(i * z + z, n * z), z3.ULE(i * z, i * z + z), z3.ULT(n * z, lim)))


def mul_mono(a, b, z):
    """Arith.mul_mono:  0 <= a <= b < 2^40,  0 <= z < 2^20  ==>  a*z <= b*z < 2^60"""
    USED.add('mul_mono')
    return z3.Implies(z3.And(a >= 0, a <= b, b < BV(1 << 40, 64), z >= 0, z < BV(1 << 20, 64)),
                      z3.And(z3.ULE(a * z, b * z), z3.ULT(b * z, BV(1 << 60, 64))))


def div_mul_cancel(i, z):
    """Arith.div_mul_cancel:  |i| < 2^40, 0 < z < 2^20  ==>  (i*z) sdiv z = i  and  (i*z) srem z = 0"""
    USED.add('div_mul_cancel')
    return z3.Implies(z3.And(i > BV(-(1 << 40), 64), i < BV(1 << 40, 64), z > 0, z < BV(1 << 20, 64)),
                      z3.And((i * z) / z == i, z3.SRem(i * z, z) == 0))


def mul_tdiv_overflow(z, n, width=130):
    """Arith.mul_tdiv_overflow + Arith.wrap64_id, read on bit-vectors (bvmul on 64 bits = wrap64 of the mathematical
    product, bvsdiv = truncating division, the `width`-bit product of the sign-extended operands = the mathematical
    product):  0 < z, 0 <= n  ==>
        ((z*n) sdiv z == n)  <=>  wide(z)*wide(n) <= 2^63 - 1      and
        wide(z)*wide(n) <= 2^63 - 1  ==>  sign_extend(z*n) == wide(z)*wide(n)"""
    USED.add('mul_tdiv_overflow')
    wz, wn = z3.SignExt(width - 64, z), z3.SignExt(width - 64, n)
    pw = wz * wn
    fits = pw <= z3.BitVecVal((1 << 63) - 1, width)
    return z3.Implies(z3.And(z > 0, n >= 0),
                      z3.And(((z * n) / z == n) == fits, z3.Implies(fits, z3.SignExt(width - 64, z * n) == pw),
                             pw >= 0))
