"""Layout of a struct/union on x86-64 GNU/Linux (System V psABI + GCC's bit-field rule), in BIT coordinates.

Written from the ABI, not from cffi's arithmetic: the running state is
    pos     first free bit            align   alignment so far (bytes)            maxend   bytes used so far
and one member of size s bytes, alignment a bytes (both of its TYPE), bit width w (w < 0: not a bit-field),
`named` (has a declarator), under `#pragma pack(pack)` (pack = HUGE when no packing is in force) does

  union                 pos <- 0 first
  ordinary member       a' = min(a, pack);  place at p = up(up(pos, 8), 8*a');  pos <- p + 8*s;  align <- max(align, a')
  T : 0                 pos <- up(pos, 8*a)                                       (never named, no alignment effect)
  T x : w  (w > 0)      if the bits [pos, pos+w) would cross a boundary of T's alignment unit of 8*s bits,
                        i.e.  pos - down(pos, 8*a) + w > 8*s,  start at the next unit  down(pos, 8*a) + 8*a,
                        else at pos;  pos <- start + w;  align <- max(align, a) only when named
  then                  maxend <- max(maxend, ceil(pos / 8))
  finally               sizeof = up(maxend, align), alignof = align

The same text runs on Python ints (validation against gcc, replay batteries) and on z3 64-bit vectors (the
contracts); `up`/`down` for an alignment that is one of the powers of two 2^0..2^36 are defined through the ordinary
remainder by that constant.  Flexible array members count with s = 0.
"""
import z3

HUGE = 0x40000000
MAXLOG = 36


def _sym(*xs):
    return any(z3.is_expr(x) for x in xs)


def _bv(x):
    return x if z3.is_expr(x) else z3.BitVecVal(x, 64)


def _up_const(x, m):
    return x + z3.URem(z3.BitVecVal(m, 64) - z3.URem(x, z3.BitVecVal(m, 64)), z3.BitVecVal(m, 64))


def up_def(x, a):
    """DEFINITION (symbolic a): smallest multiple of a that is >= x, for a one of 2^0..2^MAXLOG, by cases through the
    ordinary remainder by that constant"""
    r = x                      # (a outside the table: unspecified, the contracts require a power of two in range)
    for k in range(MAXLOG, -1, -1):
        r = z3.If(a == z3.BitVecVal(1 << k, 64), _up_const(x, 1 << k), r)
    return r


def down_def(x, a):
    r = x
    for k in range(MAXLOG, -1, -1):
        r = z3.If(a == z3.BitVecVal(1 << k, 64), x - z3.URem(x, z3.BitVecVal(1 << k, 64)), r)
    return r


def up(x, a):
    """smallest multiple of a that is >= x.  For a symbolic power of two the contracts use the equal two's-complement
    form (x + a - 1) & -a; that it equals the definition above is lemma `up-form`, discharged for each of the
    powers 2^0..2^MAXLOG on every run (lemmas() below)"""
    if not _sym(x, a):
        return (x + a - 1) // a * a
    x = _bv(x)
    if not z3.is_expr(a):
        return _up_const(x, a)
    return (x + a - 1) & -a


def down(x, a):
    """largest multiple of a that is <= x (symbolic power of two: x & -a, lemma `down-form`)"""
    if not _sym(x, a):
        return x // a * a
    x = _bv(x)
    if not z3.is_expr(a):
        return x - z3.URem(x, z3.BitVecVal(a, 64))
    return x & -a


def lemmas():
    """for each power of two a = 2^k, k = 0..MAXLOG, and every 64-bit x:  up(x, a) and down(x, a) in the form the
    contracts use equal the remainder definitions"""
    from vf.smt import Ob
    x = z3.BitVec('x', 64)
    out = []
    for k in range(MAXLOG + 1):
        a = z3.BitVecVal(1 << k, 64)
        av = z3.BitVec('a', 64)
        out.append(Ob('specs/layout.py:lemma:up-form[a=2^%d]' % k, [av == a],
                      z3.And(up(x, av) == up_def(x, av), up(x, av) == _up_const(x, 1 << k)), kind='lemma'))
        out.append(Ob('specs/layout.py:lemma:down-form[a=2^%d]' % k, [av == a],
                      z3.And(down(x, av) == down_def(x, av), down(x, av) == x - z3.URem(x, a)), kind='lemma'))
    return out


def is_pow2(a, maxlog=30):
    if not z3.is_expr(a):
        return a in [1 << k for k in range(maxlog + 1)]
    return z3.Or(*[a == z3.BitVecVal(1 << k, a.size()) for k in range(maxlog + 1)])


def _ite(c, a, b):
    if z3.is_expr(c):
        return z3.If(c, _bv(a), _bv(b))
    return a if c else b


def _max(a, b):
    if _sym(a, b):
        return z3.If(z3.UGE(_bv(a), _bv(b)), _bv(a), _bv(b))
    return max(a, b)


def _min(a, b):
    if _sym(a, b):
        return z3.If(z3.ULE(_bv(a), _bv(b)), _bv(a), _bv(b))
    return min(a, b)


def _gt(a, b):
    if _sym(a, b):
        return z3.UGT(_bv(a), _bv(b))
    return a > b


def _div8(x):
    if z3.is_expr(x):
        return z3.LShR(x, z3.BitVecVal(3, 64))
    return x // 8


def step(pos, align, maxend, is_union, pack, s, a, w, named):
    """one member.  s, a: size/alignment of the member's type in bytes (s = 0 for a flexible array);
    w: bit width, any negative value for an ordinary member; -> dict with the new state and the placement"""
    sym = _sym(pos, align, maxend, is_union, pack, s, a, w, named)
    pos0 = _ite(is_union, 0, pos)
    # ordinary member
    a2 = _min(a, pack)
    p = up(up(pos0, 8), 8 * a2 if not z3.is_expr(a2) else a2 * 8)
    pos_nb = p + s * 8
    align_nb = _max(align, a2)
    # T : 0
    a8 = 8 * a if not z3.is_expr(a) else a * 8
    pos_z = up(pos0, a8)
    # T x : w
    unit = down(pos0, a8)
    crosses = _gt(pos0 - unit + w, s * 8)
    start = _ite(crosses, unit + a8, pos0)
    pos_bf = start + w
    align_bf = _ite(named, _max(align, a), align)
    if sym:
        w_ = _bv(w)
        is_bf = w_ >= 0               # signed comparison on the 64-bit vector
        is_zero = w_ == 0
        npos = z3.If(is_bf, z3.If(is_zero, pos_z, pos_bf), pos_nb)
        nalign = z3.If(is_bf, z3.If(is_zero, _bv(align), align_bf), align_nb)
    else:
        is_bf, is_zero = w >= 0, w == 0
        npos = (pos_z if is_zero else pos_bf) if is_bf else pos_nb
        nalign = (align if is_zero else align_bf) if is_bf else align_nb
    nmax = _max(maxend, _div8(up(npos, 8)))
    return {'pos': npos, 'align': nalign, 'maxend': nmax,
            'offset': _div8(p),                    # ordinary member: byte offset
            'start': start,                        # bit-field of width > 0: first bit
            'unit_offset': _div8(down(start, a8))}  # ... and the byte offset of the aligned unit of its type holding it


def total(maxend, align):
    return up(maxend, align)


def layout(members, is_union=False, pack=HUGE):
    """fold of step over [(s, a, w, named)] on Python ints -> (sizeof, alignof, [placement])"""
    pos, align, maxend, out = 0, 1, 0, []
    for (s, a, w, named) in members:
        r = step(pos, align, maxend, is_union, pack, s, a, w, named)
        pos, align, maxend = r['pos'], r['align'], r['maxend']
        if w < 0:
            out.append(('byte', r['offset']))
        elif w > 0 and named:
            out.append(('bit', r['start'], w))
        else:
            out.append(None)
    return total(maxend, align), align, out
