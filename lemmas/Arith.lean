/- Arithmetic lemmas used as instances by the contracts (specs/arith.py).
   Checked with `lean lemmas/Arith.lean` (thorough tier). -/
import Mathlib.Tactic

namespace Arith

/-- natural-number core of `mul_mono_step` -/
theorem mul_mono_step_nat (i n z : ℕ) (h : i < n) : i * z + z ≤ n * z := by
  have : (i + 1) * z ≤ n * z := Nat.mul_le_mul_right z h
  linarith [Nat.succ_mul i z]

theorem mul_mono_nat (a b z : ℕ) (h : a ≤ b) : a * z ≤ b * z := Nat.mul_le_mul_right z h

theorem bound_nat (n z : ℕ) (hn : n < 2 ^ 40) (hz : z < 2 ^ 20) : n * z < 2 ^ 60 := by
  calc n * z < 2 ^ 40 * 2 ^ 20 := by
        apply Nat.mul_lt_mul'' hn hz
    _ = 2 ^ 60 := by norm_num

/-- 64-bit statement: with 0 ≤ i < n < 2^40 and 0 ≤ z < 2^20 (as unsigned values, which is what the
    signed comparisons in specs/arith.py say for non-negative operands) the products do not wrap and
    `i*z + z ≤ n*z`. -/
theorem mul_mono_step (i n z : BitVec 64) (hin : i.toNat < n.toNat) (hn : n.toNat < 2 ^ 40)
    (hz : z.toNat < 2 ^ 20) :
    (i * z + z).toNat ≤ (n * z).toNat ∧ (i * z).toNat ≤ (i * z + z).toNat ∧ (n * z).toNat < 2 ^ 60 := by
  have hi : i.toNat < 2 ^ 40 := lt_trans hin hn
  have b1 : i.toNat * z.toNat < 2 ^ 60 := bound_nat _ _ hi hz
  have b2 : n.toNat * z.toNat < 2 ^ 60 := bound_nat _ _ hn hz
  have e1 : (i * z).toNat = i.toNat * z.toNat := by
    rw [BitVec.toNat_mul]; apply Nat.mod_eq_of_lt; omega
  have e2 : (n * z).toNat = n.toNat * z.toNat := by
    rw [BitVec.toNat_mul]; apply Nat.mod_eq_of_lt; omega
  have e3 : (i * z + z).toNat = i.toNat * z.toNat + z.toNat := by
    rw [BitVec.toNat_add, e1]; apply Nat.mod_eq_of_lt; omega
  have key := mul_mono_step_nat i.toNat n.toNat z.toNat hin
  refine ⟨?_, ?_, ?_⟩ <;> omega

theorem mul_mono (a b z : BitVec 64) (hab : a.toNat ≤ b.toNat) (hb : b.toNat < 2 ^ 40)
    (hz : z.toNat < 2 ^ 20) : (a * z).toNat ≤ (b * z).toNat ∧ (b * z).toNat < 2 ^ 60 := by
  have ha : a.toNat < 2 ^ 40 := lt_of_le_of_lt hab hb
  have b1 : a.toNat * z.toNat < 2 ^ 60 := bound_nat _ _ ha hz
  have b2 : b.toNat * z.toNat < 2 ^ 60 := bound_nat _ _ hb hz
  have e1 : (a * z).toNat = a.toNat * z.toNat := by
    rw [BitVec.toNat_mul]; apply Nat.mod_eq_of_lt; omega
  have e2 : (b * z).toNat = b.toNat * z.toNat := by
    rw [BitVec.toNat_mul]; apply Nat.mod_eq_of_lt; omega
  have key := mul_mono_nat a.toNat b.toNat z.toNat hab
  constructor <;> omega

/-- integer core of `div_mul_cancel` (truncating division, as C and SMT-LIB bvsdiv) -/
theorem div_mul_cancel_int (i z : ℤ) (hz : 0 < z) : Int.tdiv (i * z) z = i ∧ Int.tmod (i * z) z = 0 := by
  constructor
  · exact Int.mul_tdiv_cancel i (ne_of_gt hz)
  · exact Int.mul_tmod_left i z

/-- signed 64-bit wrap-around of an integer: what `bvmul` / `bvadd` on 64-bit vectors compute, read as
    two's-complement numbers -/
def wrap64 (x : ℤ) : ℤ := (x + 9223372036854775808) % 18446744073709551616 - 9223372036854775808

theorem wrap64_range (x : ℤ) : -9223372036854775808 ≤ wrap64 x ∧ wrap64 x < 9223372036854775808 := by
  unfold wrap64; omega

theorem wrap64_congr (x : ℤ) : ∃ k : ℤ, wrap64 x = x - k * 18446744073709551616 := by
  unfold wrap64
  exact ⟨(x + 9223372036854775808) / 18446744073709551616, by omega⟩

/-- `wrap_id`: a value that fits is not changed by wrapping -/
theorem wrap64_id (x : ℤ) (h1 : -9223372036854775808 ≤ x) (h2 : x < 9223372036854775808) : wrap64 x = x := by
  unfold wrap64; omega

/-- `mul_tdiv_overflow`: the overflow test `(z*n wrapped) / z == n` (truncating division, C and `bvsdiv`) for
    0 < z and 0 ≤ n succeeds exactly when the mathematical product fits a signed 64-bit integer -/
theorem mul_tdiv_overflow (z n : ℤ) (hz : 0 < z) (hn : 0 ≤ n) :
    Int.tdiv (wrap64 (z * n)) z = n ↔ z * n < 9223372036854775808 := by
  have hzn : 0 ≤ z * n := mul_nonneg (le_of_lt hz) hn
  constructor
  · intro h
    obtain ⟨k, hk⟩ := wrap64_congr (z * n)
    have hr := wrap64_range (z * n)
    generalize wrap64 (z * n) = W at h hk hr
    generalize hP : z * n = P at hk hzn
    by_cases hWneg : W < 0
    · -- a negative dividend gives a non-positive quotient: n = 0, so P = 0, so W = 0
      have h0 : Int.tdiv W z ≤ 0 := by
        have h1 : Int.tdiv (-W) z = -(Int.tdiv W z) := Int.neg_tdiv W z
        have h2 : 0 ≤ Int.tdiv (-W) z := Int.tdiv_nonneg (by omega) (le_of_lt hz)
        omega
      have hn0 : n = 0 := by omega
      subst hn0
      simp at hP
      omega
    · have hW : 0 ≤ W := by omega
      rw [Int.tdiv_eq_ediv_of_nonneg hW] at h
      have h1 := Int.ediv_mul_le W (ne_of_gt hz)
      have h2 := Int.lt_ediv_add_one_mul_self W hz
      rw [h] at h1 h2
      have h3 : n * z = P := by rw [mul_comm]; exact hP
      have h4 : (n + 1) * z = P + z := by rw [add_mul, one_mul, h3]
      rw [h3] at h1
      rw [h4] at h2
      omega
  · intro h
    rw [wrap64_id (z * n) (by omega) h, mul_comm]
    exact Int.mul_tdiv_cancel n (ne_of_gt hz)

end Arith
