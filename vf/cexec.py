"""cvc: symbolic execution / verification-condition generation over the clang
AST of the real functions (see DESIGN.md section 2.2).

State merging at joins, invariants (or complete unrolling) at loops, callee
contracts at calls, named obligations for ensures / requires-at-call / loop
invariants / undefined operations / frames.
"""
import itertools

import z3

from . import cfront
from .cfront import CType, line_of
from .smt import Ob

BV = z3.BitVecVal
B64 = z3.BitVecSort(64)
B8 = z3.BitVecSort(8)

USER_LO = 0x1000
USER_HI = 0x7f0000000000        # heap/data regions are below, this frame's stack locals above
STACK_HI = 0x7ffffffff000


class NotSupported(Exception):
    pass


# ---------------------------------------------------------------------------
# helpers

def fp_bits(v):
    """the IEEE bit pattern of a float/double value with every NaN mapped to the quiet NaN: a total function of
    the VALUE (z3 leaves fp.to_ieee_bv of NaN unspecified, and its congruence closure of uninterpreted functions over
    floating-point arguments distinguishes NaN representations -- so ghost functions take these bits, not the
    floating-point term)"""
    w = v.sort().ebits() + v.sort().sbits()
    qnan = BV(0x7fc00000, 32) if w == 32 else BV(0x7ff8000000000000, 64)
    return z3.If(z3.fpIsNaN(v), qnan, z3.fpToIEEEBV(v))


_LD_OF_DOUBLE = z3.Function('ld_of_double', z3.BitVecSort(64), z3.BitVecSort(128))


def ld_of_double(v):
    """the long double with the value of the double v (opaque 128-bit pattern; exact embedding)"""
    return _LD_OF_DOUBLE(fp_bits(v))


def b2i(c, bits=32):
    return z3.If(c, BV(1, bits), BV(0, bits))


def truth(v):
    """C truth value of a term -> z3 Bool (recognises the b2i pattern)."""
    if z3.is_bool(v):
        return v
    if z3.is_app_of(v, z3.Z3_OP_ITE):
        a, b = v.arg(1), v.arg(2)
        if z3.is_bv_value(a) and z3.is_bv_value(b):
            if a.as_long() == 1 and b.as_long() == 0:
                return v.arg(0)
            if a.as_long() == 0 and b.as_long() == 1:
                return z3.Not(v.arg(0))
    if z3.is_fp(v):
        return z3.Not(z3.fpIsZero(v))
    return v != BV(0, v.size())


def sort_of(t):
    if t.kind in ('int',):
        return z3.BitVecSort(t.bits)
    if t.kind == 'ptr':
        return B64
    if t.kind == 'float':
        if t.size == 4:
            return z3.Float32()
        if t.size == 8:
            return z3.Float64()
        return z3.BitVecSort(128)       # long double: opaque
    raise NotSupported("no scalar sort for %r" % (t,))


def cast_int(v, frm, to_bits):
    """integer/pointer conversion C6.3.1.3 on two's complement (GCC: modulo)."""
    fw = v.size()
    if to_bits == fw:
        return v
    if to_bits < fw:
        return z3.Extract(to_bits - 1, 0, v)
    return z3.SignExt(to_bits - fw, v) if frm.signed and frm.kind == 'int' else z3.ZeroExt(to_bits - fw, v)


def in_range(a, lo, n):
    """lo <= a < lo+n  (no wrap assumed: regions are valid)"""
    return z3.And(z3.ULE(lo, a), z3.ULT(a, lo + n))


class Loc:
    __slots__ = ('kind', 'a', 'b', 'c', 'ctype')

    def __init__(self, kind, ctype, a=None, b=None, c=None):
        self.kind, self.ctype, self.a, self.b, self.c = kind, ctype, a, b, c


def heap0(key):
    """the field heap `key` ("record:offset:bits") as it is at function entry"""
    return z3.Array('H0_' + key, B64, z3.BitVecSort(int(key.rsplit(':', 1)[1])))


def ghost0(key, sort):
    """the ghost variable / C global `key` as it is at function entry"""
    return z3.Const('G0_' + (key[2:] if key.startswith('g:') else key), sort)


class State:
    """fh / ghost hold only the heaps and ghost variables touched so far; an absent key stands for the value
    dh(key) / dg(key, sort): the function-entry value, or -- after a havoc (a call that may run arbitrary code, a
    loop head) -- the arbitrary value of that havoc.  Merging and havocking go through these defaults, so a
    heap first touched on one branch, or first read after a havoc, is never mistaken for the other branch's or
    the function-entry heap."""
    __slots__ = ('env', 'raw', 'fh', 'err', 'ghost', 'pc', 'dh', 'dg', 'last_callee_raw')

    def __init__(self):
        self.env = {}
        self.raw = None
        self.fh = {}
        self.err = None
        self.ghost = {}
        self.pc = []
        self.dh = heap0
        self.dg = ghost0

    def copy(self):
        s = State()
        s.env = dict(self.env)
        s.raw = self.raw
        s.fh = dict(self.fh)
        s.err = self.err
        s.ghost = dict(self.ghost)
        s.pc = list(self.pc)
        s.dh, s.dg = self.dh, self.dg
        return s

    def heap(self, key):
        if key not in self.fh:
            self.fh[key] = self.dh(key)
        return self.fh[key]

    def gvar(self, key, sort):
        if key not in self.ghost:
            self.ghost[key] = self.dg(key, sort)
        return self.ghost[key]

    def take(self, m):
        """become state m (used to fold side effects of sub-expressions back)"""
        self.env, self.raw, self.fh, self.err, self.ghost, self.pc, self.dh, self.dg = \
            m.env, m.raw, m.fh, m.err, m.ghost, m.pc, m.dh, m.dg

    _hv = itertools.count()

    def havoc(self, tag, keep=None, raw=True, fields=True, err=None, ghost=True, keep_trace=False, keep_stack=(),
              keep_records=()):
        """everything named becomes arbitrary (unless `keep`, a Bool, holds): existing entries and the defaults.
        keep_trace: the havoc models what a CALLEE may do; the engine's trace of the calls made by the body under
        verification ('tmp:calls:', 'tmp:arg:' ghosts, set at call sites only) is not the callee's to change"""
        uid = "%s!hv%d" % (tag, next(State._hv))

        def mix(old, new):
            return new if keep is None else z3.If(keep, old, new)
        if raw:
            new = z3.Const('raw_' + uid, z3.ArraySort(B64, B8))
            if keep_stack:
                # (A-STACK) what a callee does cannot reach the caller's locals whose address it was not given.  The
                # new heap is a plain arbitrary array; the engine resolves reads of those private locals against the
                # heap before the call (Exec._callee_raw).  A read it cannot resolve syntactically sees an arbitrary
                # byte instead of the preserved one: an over-approximation (the real execution is the valuation in
                # which the arbitrary array agrees with the old heap on those locals).
                self.last_callee_raw = (self.raw, new, new)
            self.raw = mix(self.raw, new)
        if fields:
            odh = self.dh
            ndh = lambda key: z3.Array('H_%s_%s' % (uid, key), B64, z3.BitVecSort(int(key.rsplit(':', 1)[1])))
            kept = lambda key: key.split(':')[0] in keep_records
            for key in list(self.fh):
                if not kept(key):
                    self.fh[key] = mix(self.fh[key], ndh(key))
            if keep is None:
                self.dh = lambda key: odh(key) if kept(key) else ndh(key)
            else:
                self.dh = lambda key: odh(key) if kept(key) else z3.If(keep, odh(key), ndh(key))
        if ghost:
            odg = self.dg
            ndg = lambda key, sort: z3.Const('g_%s_%s' % (uid, key), sort)
            trace = (lambda key: keep_trace and key.startswith('tmp:'))
            for key in list(self.ghost):
                if not trace(key):
                    self.ghost[key] = mix(self.ghost[key], ndg(key, self.ghost[key].sort()))
            if keep is None:
                self.dg = lambda key, sort: odg(key, sort) if trace(key) else ndg(key, sort)
            else:
                self.dg = lambda key, sort: odg(key, sort) if trace(key) else z3.If(keep, odg(key, sort), ndg(key, sort))
        if err is not None:
            self.err = mix(self.err, err)

    def havoc_trace(self, tag, keep=lambda key: False):
        """every variable of the call trace ('tmp:'), touched so far or not, becomes arbitrary -- except `keep(key)`"""
        uid = "%s!tr%d" % (tag, next(State._hv))
        odg = self.dg
        ndg = lambda key, sort: z3.Const('g_%s_%s' % (uid, key), sort)
        for key in list(self.ghost):
            if key.startswith('tmp:') and not keep(key):
                self.ghost[key] = ndg(key, self.ghost[key].sort())
        self.dg = lambda key, sort: ndg(key, sort) if (key.startswith('tmp:') and not keep(key)) else odg(key, sort)

    def assume(self, c):
        if z3.is_true(c):
            return
        self.pc.append(c)

    def pcterm(self):
        return z3.And(*self.pc) if self.pc else z3.BoolVal(True)


class CaseOf(list):
    """clause extra: a list of hypotheses t == v (a case of an exhaustive case split) that are, in addition, substituted
    into the obligation before it goes to the solver -- `hyps /\\ t == v |- goal` is proved as `hyps[v/t] /\\ t == v
    |- goal[v/t]`, the same statement, but the size-dependent ite chains collapse before bit-blasting"""

    def __init__(self, pairs):
        list.__init__(self, [t == v for t, v in pairs])
        self.pairs = list(pairs)


class QuantifierFree(list):
    """clause extra: this clause does not depend on the quantified hypotheses (type / cache invariants): they are left
    out of its query.  Proving from fewer hypotheses is sound; and when the clause FAILS the solver does not have to
    build a model of the quantified facts, so the failure is decided (a 'quantifier-free companion' of a quantified
    clause).  A refutation found this way is reported without the quantified facts having been taken into account"""

    def __bool__(self):          # (an empty list of extra hypotheses, but not "no extra")
        return True


def _norm(entries):
    """contract clauses: (label, formula) or (label, formula, extra) where extra is 'callers'
    (a precondition clause only callers must establish; not assumed when verifying the body)
    or a list of hypotheses (instances of quantified preconditions) for that clause only"""
    for e in entries:
        if len(e) == 2:
            yield e[0], e[1], None
        else:
            yield e[0], e[1], e[2]


def _same(a, b):
    return a is b or (a is not None and b is not None and a.eq(b))


def _mentions_array(e, seen=None):
    seen = set() if seen is None else seen
    todo = [e]
    while todo:
        x = todo.pop()
        if x.get_id() in seen:
            continue
        seen.add(x.get_id())
        if z3.is_quantifier(x) or z3.is_array(x) or (z3.is_app(x) and x.decl().kind() == z3.Z3_OP_UNINTERPRETED
                                                     and x.num_args() > 0):
            return True
        if z3.is_app(x):
            todo.extend(x.children())
    return False


def merge_states(states):
    states = [s for s in states if s is not None]
    if not states:
        return None
    if len(states) == 1:
        return states[0]
    acc = states[0]
    for s in states[1:]:
        acc = _merge2(acc, s)
    return acc


def _merge2(s1, s2):
    # common pc prefix
    k = 0
    while k < len(s1.pc) and k < len(s2.pc) and _same(s1.pc[k], s2.pc[k]):
        k += 1
    r1, r2 = s1.pc[k:], s2.pc[k:]
    c1 = z3.And(*r1) if len(r1) != 1 else r1[0]
    c2 = z3.And(*r2) if len(r2) != 1 else r2[0]
    if not r1:
        c1 = z3.BoolVal(True)
    if not r2:
        c2 = z3.BoolVal(True)
    out = State()
    out.pc = list(s1.pc[:k])
    if len(r1) == 1 and len(r2) == 1 and (_same(z3.Not(r1[0]), r2[0]) or _same(r1[0], z3.Not(r2[0]))):
        pass
    else:
        out.pc.append(z3.Or(c1, c2))

    def pick(a, b):
        if _same(a, b):
            return a
        if a is None:
            return b
        if b is None:
            return a
        return z3.If(c1, a, b)
    for k_ in set(s1.env) | set(s2.env):
        out.env[k_] = pick(s1.env.get(k_), s2.env.get(k_))
    out.raw = pick(s1.raw, s2.raw)
    # a heap / ghost variable absent on one side stands for that side's default (see State)
    for k_ in set(s1.fh) | set(s2.fh):
        out.fh[k_] = pick(s1.fh[k_] if k_ in s1.fh else s1.dh(k_), s2.fh[k_] if k_ in s2.fh else s2.dh(k_))
    out.err = pick(s1.err, s2.err)
    for k_ in set(s1.ghost) | set(s2.ghost):
        srt = (s1.ghost.get(k_) if k_ in s1.ghost else s2.ghost[k_]).sort()
        out.ghost[k_] = pick(s1.ghost[k_] if k_ in s1.ghost else s1.dg(k_, srt),
                             s2.ghost[k_] if k_ in s2.ghost else s2.dg(k_, srt))
    d1h, d2h, d1g, d2g = s1.dh, s2.dh, s1.dg, s2.dg
    out.dh = d1h if d1h is d2h else (lambda key: z3.If(c1, d1h(key), d2h(key)))
    out.dg = d1g if d1g is d2g else (lambda key, sort: z3.If(c1, d1g(key, sort), d2g(key, sort)))
    return out


# ---------------------------------------------------------------------------
# contracts

class Contract:
    """Sidecar contract of one C function.  Subclass and override."""
    name = None
    inline = False           # expand the body at call sites instead of using pre/post
    loops = {}               # ordinal -> LoopSpec
    labels = {}              # label name -> LoopSpec for a label that is the target of a BACKWARD goto
    replay_labels = ()       # labels at the top level of the function body reached by a backward goto that is NOT a
    #                          cycle (`goto done;` from an error path placed after `done: ...; return;`): the code from
    #                          the label to the end of the function is executed again from the goto's state
    trusted = False          # contract is assumed, body not verified (listed in evidence)
    pure = False             # assigns nothing

    def pre(self, c):        # -> [(label, Bool)]
        return []

    def scope(self, c):      # -> [(label, Bool)]  extra hypotheses for verifying the body only:
        return []            #    post() must then be conditional on them (callers get no more than was proved)

    def post(self, c):       # -> [(label, Bool)]     c.result, c.old, c.new
        return []

    def frame(self, c):      # -> Frame
        return Frame()

    def witness(self, c):    # -> {name: term} values of interest for replay
        return {}

    def ghost_update(self, c):    # -> {ghost key: new value}: ghost assignments made at every return (c.new, c.result)
        return {}                 #    before the postcondition and the frame are checked (the keys must be in the frame)

    def post_witness(self, c):   # -> {name: term} over the state at a return (c.new, c.result): for known-finding conditions
        return {}

    def accessible(self, c):  # -> None (no memory-safety obligations) or {'read': pred, 'write': pred} with pred(st, addr, nbytes) -> Bool
        return None

    loop_ordinal = None      # set: this is a loop-body contract for that loop of function `function`
    function = None          # (name of the enclosing C function when it differs from `name`)

    def post_break(self, c):          # loop-body contracts: obligations on paths leaving by `break`
        return []

    def post_exit(self, c):           # loop-body contracts: obligations when the invariant holds and the condition fails
        return []

    def post_goto(self, c, label):    # loop-body contracts: obligations on paths leaving by `goto label`
        return []

    def post_return(self, c):         # loop-body contracts: obligations on paths leaving by `return` (c.result)
        return []

    keep_fields = False      # loop-body contracts: one iteration leaves every struct-field heap as it found it
    #                          (obligations 'field heap ... unchanged'), so the summarising LoopSpec may keep them

    record_calls = False     # the engine keeps a ghost trace (count, latest arguments) of the calls to this function

    def allocates(self, c):  # -> [(addr, nbytes)] regions that are freshly allocated on return (c.result, c.new)
        return []


class Frame:
    def __init__(self, raw=(), fields=(), err=False, ghost=(), all_fields=False, all_raw=False, havoc_if=None,
                 all_raw_if=None, trace=None, keep_records=()):
        self.keep_records = tuple(keep_records)   # with all_fields: records whose field heaps are nevertheless kept
        self.trace = None if trace is None else list(trace)
        #                               the engine's call trace ('tmp:' ghost variables: counts and arguments of calls to
        #                               recorded callees and modelled externals).  None: this function may extend any
        #                               trace -- at a call site every trace variable is arbitrary afterwards unless the
        #                               post-condition pins it.  A list: only these trace variables may change; that
        #                               is an obligation of the body ('ghost-unchanged:tmp:...') and a fact for callers
        self.all_raw_if = all_raw_if  # Bool: when true any byte may change, when false only the `raw` regions
        self.havoc_if = havoc_if      # Bool: when true the callee may change everything (outside the proved scope)
        self.raw = list(raw)          # [(addr, nbytes-term)]
        self.fields = list(fields)    # [heap keys] or [(rec, field)]
        self.err = err
        self.ghost = list(ghost)
        self.all_fields = all_fields
        self.all_raw = all_raw


def _has_quantifier(e, _seen=None):
    _seen = set() if _seen is None else _seen
    if e.get_id() in _seen:
        return False
    _seen.add(e.get_id())
    if z3.is_quantifier(e):
        return True
    return any(_has_quantifier(ch, _seen) for ch in e.children())


class LoopSpec:
    def __init__(self, invariant=None, unroll=None, raw=None, summarise=False, assume_exit=False, readonly=False,
                 keep_fields=False, ghost_update=None, forget=(), trace=None, keep_records=()):
        self.keep_records = tuple(keep_records)   # records whose field heaps the loop does not change: kept at the head
        #                               (although the loop calls things); every back edge carries the obligation that
        #                               each of their heaps is the head's heap
        self.trace = None if trace is None else list(trace)
        #                               None: a loop that calls anything may extend any trace (all trace variables are
        #                               arbitrary at the head).  A list: only these trace variables (and the engine's
        #                               record of direct calls) change in an iteration -- the others are kept at the
        #                               head, and every back edge carries the obligation that they are unchanged
        self.forget = tuple(forget)   # names of locals the loop does not assign whose VALUE is nevertheless forgotten at
        #                               the head (as if assigned): what the iterations need to know about them must then
        #                               be in the invariant.  Keeps hard defining expressions (floating point, division)
        #                               out of every obligation of the loop
        self.ghost_update = ghost_update  # fn(c, state at the head of the iteration, state at its end) -> {ghost key: value}:
        #                                 ghost assignments made at the end of every iteration, before the invariant is
        #                                 checked again (ghost variables are never written by the code)
        self.keep_fields = keep_fields  # summarised loops only: the struct-field heaps are NOT made arbitrary; allowed
        #                               only when the loop-body contract of the same loop declares keep_fields too,
        #                               which makes "every field heap after one iteration is the one before it" an
        #                               obligation of that contract
        self.readonly = readonly      # the cycle writes nothing (no heap, byte, error-indicator or ghost change on any
        #                               path back to its head): nothing but the assigned locals is made arbitrary at
        #                               the head, and every back edge carries the obligation that its heaps ARE the
        #                               head's heaps (so, by induction, the entry heaps)
        self.assume_exit = assume_exit  # summarised loops only: the invariant (whose preservation is the business of the
        #                               loop-body contract that restates it in pre() and post()) and the negated loop
        #                               condition are assumed for the otherwise arbitrary state after the loop
        self.summarise = summarise    # True: only the invariant's loop-entry obligations are generated here; the
        #                               iterations are verified by a loop-body contract of their own and the state
        #                               after the loop is arbitrary (nothing is assumed about it)
        self.invariant = invariant    # fn(c, st) -> [(label, Bool)]
        self.unroll = unroll          # int: complete unrolling with unwinding assertion
        self.raw = raw                # fn(c, st) -> [(addr, nbytes)]: the only byte regions the loop may write


class Ctx:
    """What a contract sees: arguments, old/new state, result, readers."""

    def __init__(self, ex, args, old, new=None, result=None):
        self.ex, self.args, self.old, self.new, self.result = ex, args, old, new, result
        self.tu = ex.tu

    def __getitem__(self, name):
        return self.args[name]

    def field(self, st, ptr, typename, fname):
        return self.ex.read_field(st, ptr, typename, fname)

    def raw(self, st, addr, nbytes):
        return self.ex.load_raw(st, addr, nbytes)

    def byte(self, st, addr):
        return z3.Select(st.raw, addr)

    def local(self, st, name):
        return self.ex.local_value(st, name)

    def global_value(self, st, name, bits=64):
        """value of a scalar C global variable in state st"""
        return st.gvar('g:' + name, z3.BitVecSort(bits))

    def off_stack(self, addr, n):
        """[addr, addr+n) does not overlap this frame's stack locals (declared so far)"""
        n = n if z3.is_bv(n) else BV(n, 64)
        return z3.And(*[z3.Or(z3.ULE(addr + n, sa), z3.UGE(addr, sa + BV((ssize + 15) // 16 * 16, 64)))
                        for sa, ssize in self.ex.stack_syms]) if self.ex.stack_syms else z3.BoolVal(True)

    def valid(self, addr, n):
        """[addr, addr+n) is mapped memory (no wrap-around).  Regions named by a function's
        own precondition are, in addition, disjoint from that function's stack locals."""
        n = n if z3.is_bv(n) else BV(n, 64)
        if getattr(self.ex, 'collecting_regions', False):
            self.ex.declared_regions.append((addr, n))
        return z3.And(z3.UGE(addr, BV(USER_LO, 64)), z3.ULE(addr, BV(STACK_HI, 64)),
                      z3.ULE(n, BV(STACK_HI, 64)), z3.ULE(addr + n, BV(STACK_HI, 64)))


# ---------------------------------------------------------------------------

class Exec:
    def __init__(self, tu, registry, fname, contract, prop=None, mode='verify'):
        self.tu = tu
        self.reg = registry            # .contracts {name: Contract}, .models {name: fn}
        self.fname = fname
        self.fn = tu.functions[fname]
        self.contract = contract
        self.obs = []
        self.global_hyps = []
        self.returns = []              # (state, value)
        self.gotos = {}
        self.ctlstack = []             # dicts with 'breaks','continues'
        self.loop_ordinal = 0
        self.params = {}               # name -> decl id
        self.locals_by_name = {}
        self.memlocals = {}            # decl id -> (addr const, ctype)
        self.addr_taken = set()
        self.labels_seen = set()
        self.back_labels = {}          # label -> state at first entry (for c.entry in label invariants)
        self.decl_types = {}
        self._fresh = itertools.count()
        self._globals_addr = {}
        self._glob_syms = []
        self._glob_symnames = set()
        self._alias_cache = {}
        self._outside_stores = {}
        self._callee_raw = {}           # id of a byte heap made by a call -> (heap before it, ids of private locals, term)
        self._field_ptrs = {}           # id of an address term made by &x->f -> (term, the field location)
        self.alias_stats = {'proved': 0, 'open': 0}
        self.stack_syms = []
        self.calls = []                # names of callee contracts used
        self.trusted_used = set()
        self.inline_depth = 0
        self.nloops = 0
        self.prune = True
        self.pruned = 0
        self.declared_regions = []
        self.collecting_regions = False
        self.fresh_regions = []        # (addr, nbytes) allocated during this execution
        self.summarised_loops = []
        self.loop_regions = []
        self.literals = {}             # string literals seen: key -> (address, bytes)
        self.literal_hyps = []
        self.access_regions = None     # {'read': [(addr, n)], 'write': [...]} when the contract declares them
        self.cur_line = None

    # -- naming ------------------------------------------------------------
    def fresh(self, base, sort):
        return z3.Const("%s!%d" % (base, next(self._fresh)), sort)

    def ob(self, kind, line, label, st, goal, witness=None, hyps_extra=()):
        name = "%s:%s:L%s:%s" % (self.fninfo_file(), self.fname, line, kind)
        if label:
            name += "[%s]" % label
        # make unique
        n0, k = name, 1
        names = getattr(self, '_names', None)
        if names is None:
            names = self._names = set()
        while name in names:
            k += 1
            name = "%s#%d" % (n0, k)
        names.add(name)
        w = dict(self.base_witness)
        if witness:
            w.update(witness)
        o = Ob(name, list(self.global_hyps) + list(st.pc) + list(hyps_extra), goal, kind=kind,
               fn=self.fname, line=line, witness=w)
        if isinstance(hyps_extra, CaseOf):
            o.meta['subst'] = hyps_extra.pairs
        if isinstance(hyps_extra, QuantifierFree):
            o.hyps = [h for h in o.hyps if not _has_quantifier(h)]
            o.meta['quantified_hyps_left_out'] = True
        self.obs.append(o)
        return o

    def fninfo_file(self):
        if not hasattr(self, '_file'):
            self._file = self.tu.function_info(self.fname)['file'].split('/')[-1]
        return self._file

    # -- memory ------------------------------------------------------------
    def heap_key(self, reckey, off, bits):
        reckey, off = self.reg.field_alias.get((reckey, off), (reckey, off))
        return "%s:%d:%d" % (reckey, off, bits)

    def get_heap(self, st, key, bits):
        return st.heap(key)

    def norm_field(self, base, reckey, fname):
        """innermost record + absolute base for rec.fname (fname may be dotted)"""
        off_acc = 0
        parts = fname.split('.')
        for i, p in enumerate(parts):
            ltu = self.tu
            if reckey not in ltu.records and getattr(self.reg, 'layout_tu', None) is not None:
                ltu = self.reg.layout_tu        # record opaque in this TU (Py_LIMITED_API): backend's definition
            size, align, fields = ltu.layout(reckey)
            if p not in fields:
                raise NotSupported("no field %s in %s" % (p, reckey))
            off, ft, bits_ = fields[p]
            if bits_ is not None and i == len(parts) - 1:
                return base, reckey, (off, bits_[0], bits_[1]), ft
            if i < len(parts) - 1:
                if ft.kind != 'record':
                    raise NotSupported("dotted path through non-record")
                base = base + BV(off, 64)
                reckey = ft.name
            else:
                return base, reckey, off, ft

    def read_field(self, st, ptr, typename, fname):
        t = self.tu.parse_type(typename)
        if t.kind != 'record':
            raise NotSupported("read_field on non-record %s" % typename)
        base, reckey, off, ft = self.norm_field(ptr, t.name, fname)
        while ft.kind == 'record':
            # first member of nested record
            raise NotSupported("read_field of record-typed field")
        if ft.kind == 'array':
            return base + BV(off, 64)
        if isinstance(off, tuple):
            return self.load(st, Loc('bitfield', ft, base, reckey, off))
        return self.load(st, Loc('field', ft, base, reckey, off))

    def write_field(self, st, ptr, typename, fname, val):
        t = self.tu.parse_type(typename)
        base, reckey, off, ft = self.norm_field(ptr, t.name, fname)
        self.store(st, Loc('field', ft, base, reckey, off), val)

    # -- reads of this frame's stack locals through the byte heap ------------------------------------
    # A local whose address is taken lives in the byte heap, so `cd` after `size = ...` is a select through
    # a chain of byte stores (and ite-merged chains).  The reader below resolves such a select syntactically
    # when both the read and the store address are `stack base + constant` inside the declared extent of
    # this frame's locals: same base -> hit or skip by offset; different bases -> skip, because finish_hyps()
    # states that the frame's locals are pairwise disjoint and do not wrap.  The result is equal to the plain
    # select under those hypotheses (which every obligation carries); anything else is left as a select.
    def _stack_split(self, a):
        off = 0
        if not self.stack_syms:
            return None
        if z3.is_app(a) and a.num_args() and not z3.is_const(a):
            a = z3.simplify(a)            # (`aa + (0 + 1) * 8` is `aa + 8`)
        while z3.is_app(a) and a.decl().kind() == z3.Z3_OP_BADD and a.num_args() == 2:
            x, y = a.arg(0), a.arg(1)
            if z3.is_bv_value(y):
                a, off = x, off + y.as_long()
            elif z3.is_bv_value(x):
                a, off = y, off + x.as_long()
            else:
                return None
        off &= (1 << 64) - 1
        for idx, (sa, size) in enumerate(self.stack_syms):
            if sa.eq(a):
                return (sa.get_id(), off, idx) if off < size else None
        return None

    # A store (or read) through a pointer that is not syntactically a local: the generator asks z3, once per
    # address term, whether the frame hypotheses and the function's precondition alone (no path facts, so the
    # answer holds on every path) put the accessed bytes outside every local of this frame declared so far.
    # A proved answer lets reads of those locals skip that store (and lets such a read skip stores into
    # locals); no answer within the resource limit changes nothing (the plain select/store is emitted).
    ALIAS_RLIMIT = 40000000

    def _outside_frame(self, addr, nbytes):
        """number of leading entries of stack_syms the bytes [addr, addr+nbytes) are proved disjoint from"""
        pre = getattr(self, 'pre_pc', None)
        if pre is None or not self.stack_syms or nbytes <= 0 or nbytes > 64:
            return 0
        nsyms = len(self.stack_syms)
        addr = z3.simplify(addr)           # one query for all spellings of an address
        key = (addr.get_id(), nbytes)
        hit = self._alias_cache.get(key)
        if hit is not None and (hit[0] >= nsyms or not hit[1]):
            return hit[0] if hit[1] else 0
        # hypotheses: the frame layout and the precondition (the facts about literals and globals are left out:
        # fewer hypotheses, still sound)
        s = z3.Solver()
        s.set('rlimit', self.ALIAS_RLIMIT)
        s.set('timeout', 20000)
        for h in self.finish_hyps(frame_only=True) + list(pre):
            s.add(h)
        end = addr + BV(nbytes, 64)
        apart = [z3.ULE(addr, end)]
        for sa, size in self.stack_syms:
            apart.append(z3.Or(z3.ULE(end, sa), z3.UGE(addr, sa + BV((size + 15) // 16 * 16, 64))))
        ok = True
        for a in apart:                   # one local at a time: each query is small
            s.push()
            s.add(z3.Not(a))
            ok = s.check() == z3.unsat
            s.pop()
            if not ok:
                break
        self._alias_cache[key] = (nsyms, ok, addr)
        self.alias_stats['proved' if ok else 'open'] += 1
        return nsyms if ok else 0

    def _read_byte(self, arr, addr, sp, memo):
        key = arr.get_id()
        if key in memo:
            return memo[key]
        a0 = arr
        while True:
            k = arr.decl().kind() if z3.is_app(arr) else None
            if k == z3.Z3_OP_STORE:
                if self._outside_stores.get(arr.get_id(), (0,))[0] > sp[2]:
                    arr = arr.arg(0)       # a store proved to lie outside this frame's locals
                    continue
                sp2 = self._stack_split(arr.arg(1))
                if sp2 is not None:
                    if sp2[0] == sp[0] and sp2[1] == sp[1]:
                        r = arr.arg(2)
                        break
                    arr = arr.arg(0)       # same local, other byte; or another local of this frame
                    continue
            elif k == z3.Z3_OP_ITE:
                r1 = self._read_byte(arr.arg(1), addr, sp, memo)
                r2 = self._read_byte(arr.arg(2), addr, sp, memo)
                r = r1 if r1.eq(r2) else z3.If(arr.arg(0), r1, r2)
                break
            tag = getattr(self, "_callee_raw", {}).get(arr.get_id())
            if tag is not None and sp[2] in tag[1]:
                arr = tag[0]               # the byte heap after a call: this frame's private locals are as before it
                continue
            r = z3.Select(arr, addr)
            break
        memo[key] = memo[a0.get_id()] = r
        return r

    def _read_outside(self, arr, addr, memo):
        key = arr.get_id()
        if key in memo:
            return memo[key]
        a0 = arr
        while True:
            k = arr.decl().kind() if z3.is_app(arr) else None
            if k == z3.Z3_OP_STORE:
                if self._stack_split(arr.arg(1)) is not None:
                    arr = arr.arg(0)
                    continue
                if arr.arg(1).eq(addr):
                    r = arr.arg(2)
                    break
            elif k == z3.Z3_OP_ITE:
                r1 = self._read_outside(arr.arg(1), addr, memo)
                r2 = self._read_outside(arr.arg(2), addr, memo)
                r = r1 if r1.eq(r2) else z3.If(arr.arg(0), r1, r2)
                break
            tag = getattr(self, "_callee_raw", {}).get(arr.get_id())
            if tag is not None and tag[3] is not None:
                # the byte heap after a call that may write anything: outside this frame it is the callee's heap
                r = z3.Select(tag[3], addr)
                break
            r = z3.Select(arr, addr)
            break
        memo[key] = memo[a0.get_id()] = r
        return r

    def load_raw(self, st, addr, nbytes):
        bs = []
        for k in range(nbytes):
            a = addr + BV(k, 64) if k else addr
            sp = self._stack_split(a)
            if sp is not None:
                bs.append(self._read_byte(st.raw, a, sp, {}))
                continue
            if self.stack_syms and self._outside_frame(addr, nbytes) >= len(self.stack_syms):
                # a read proved to lie outside this frame's locals: stores into the locals are skipped, merged
                # heaps are read branch-wise, a store at the syntactically same address is a hit
                bs.append(self._read_outside(st.raw, a, {}))
                continue
            arr = st.raw
            bs.append(z3.Select(arr, a))
        if nbytes > 1:
            # the bytes of one stored value, in order: the value itself
            v0 = bs[0]
            if z3.is_app(v0) and v0.decl().kind() == z3.Z3_OP_EXTRACT and v0.arg(0).size() == 8 * nbytes:
                whole = v0.arg(0)
                if all(z3.is_app(b) and b.decl().kind() == z3.Z3_OP_EXTRACT and b.arg(0).eq(whole)
                       and b.params() == [8 * k + 7, 8 * k] for k, b in enumerate(bs)):
                    return whole
        return z3.Concat(*reversed(bs)) if nbytes > 1 else bs[0]

    def store_raw(self, st, addr, val, nbytes):
        r = st.raw
        covered = 0 if self._stack_split(addr) is not None else self._outside_frame(addr, nbytes)
        for k in range(nbytes):
            r = z3.Store(r, addr + BV(k, 64) if k else addr, z3.Extract(8 * k + 7, 8 * k, val))
            if covered:
                # (the term is kept referenced: z3 reuses the ids of freed terms)
                self._outside_stores[r.get_id()] = (max(covered, self._outside_stores.get(r.get_id(), (0,))[0]), r)
        st.raw = r

    def load(self, st, loc):
        t = loc.ctype
        if loc.kind == 'var':
            if loc.a not in st.env:
                st.env[loc.a] = self.fresh('uninit', sort_of(t))
            return st.env[loc.a]
        if loc.kind == 'global':
            if loc.a in getattr(self.reg, 'const_globals', ()):
                return self.global_addr('val:' + loc.a)
            return st.gvar('g:' + loc.a, sort_of(t))
        if loc.kind == 'mem':
            if t.kind == 'record':
                return loc.a           # the value of an aggregate is represented by the address of its bytes
            if t.kind == 'array':
                raise NotSupported("rvalue of aggregate")
            self.check_access(st, loc.a, t.size, 'read')
            v = self.load_raw(st, loc.a, t.size)
            if t.kind == 'float' and t.size in (4, 8):
                return z3.fpBVToFP(v, sort_of(t))
            return v
        if loc.kind == 'bitfield':
            off, shift, width = loc.c
            h = self.get_heap(st, self.heap_key(loc.b, off, t.bits), t.bits)
            unit = z3.Select(h, loc.a)
            v = z3.LShR(unit, BV(shift, t.bits)) & BV((1 << width) - 1, t.bits)
            if t.signed:
                v = z3.SignExt(t.bits - width, z3.Extract(width - 1, 0, v))
            return v
        if loc.kind == 'field':
            if t.kind == 'float':
                raise NotSupported("float field")
            h = self.get_heap(st, self.heap_key(loc.b, loc.c, t.bits), t.bits)
            return z3.Select(h, loc.a)
        raise NotSupported("load " + loc.kind)

    def store(self, st, loc, val):
        t = loc.ctype
        if loc.kind == 'var':
            st.env[loc.a] = val
        elif loc.kind == 'global':
            st.ghost['g:' + loc.a] = val
        elif loc.kind == 'mem':
            if t.kind == 'float' and t.size in (4, 8):
                # (z3 leaves fp.to_ieee_bv of NaN unspecified -- not even a NaN pattern; a stored NaN is a NaN)
                val = fp_bits(val)
            self.check_access(st, loc.a, t.size, 'write')
            self.store_raw(st, loc.a, val, t.size)
        elif loc.kind == 'field':
            key = self.heap_key(loc.b, loc.c, t.bits)
            h = self.get_heap(st, key, t.bits)
            st.fh[key] = z3.Store(h, loc.a, val)
        else:
            raise NotSupported("store " + loc.kind)

    def check_access(self, st, addr, nbytes, what):
        """memory-safety obligation (only for contracts that declare what is accessible): every byte
        accessed satisfies the contract's ghost predicate readable()/writable(), whose extent the
        precondition states, or lies in this frame's locals, fresh allocations or string literals"""
        regs = self.access_regions
        if regs is None or nbytes == 0:
            return
        pred = regs[what]
        n = BV(nbytes, 64)
        oks = [pred(st, addr, nbytes)]
        oks += [z3.And(z3.UGE(addr, sa), z3.ULE(addr + n, sa + BV(ssize, 64))) for sa, ssize in self.stack_syms]
        oks += [z3.And(z3.UGE(addr, fa), z3.ULE(addr + n, fa + fn_)) for fa, fn_ in self.fresh_regions]
        oks += [z3.And(z3.UGE(addr, la), z3.ULE(addr + n, la + BV(len(lv) + 1, 64)))
                for la, lv in self.literals.values() if lv is not None]
        self.ob('memory', self.cur_line, '%s-of-%d-bytes-is-inside-accessible-memory' % (what, nbytes), st,
                z3.Or(*oks), witness={'access_addr': addr})

    def alloc(self, st, nbytes, tag='alloc', region=None):
        """a freshly allocated region: mapped, and disjoint from every region the precondition
        names, from earlier allocations and from this frame's stack locals"""
        n = nbytes if z3.is_bv(nbytes) else BV(nbytes, 64)
        p = region if region is not None else self.fresh(tag, B64)
        st.assume(z3.And(z3.UGE(p, BV(USER_LO, 64)), z3.ULE(n, BV(USER_HI, 64)), z3.ULE(p + n, BV(USER_HI, 64)),
                         z3.ULE(p, BV(USER_HI, 64))))
        for (r, n2) in self.declared_regions + self.fresh_regions:
            st.assume(z3.Or(z3.UGE(p, r + n2), z3.ULE(p + n, r)))
        self.fresh_regions.append((p, n))
        return p

    def global_addr(self, name):
        if name not in self._globals_addr:
            # SMT-LIB quoted symbols may hold neither '|' nor '\\' (cvc5 rejects z3's escaping of them)
            sym = '&' + name.replace('\\', '!bsl!').replace('|', '!bar!')
            while sym != '&' + name and sym in self._glob_symnames:
                sym += "'"
            self._glob_symnames.add(sym)
            a = z3.BitVec(sym, 64)
            self._globals_addr[name] = a
            self._glob_syms.append(a)
        return self._globals_addr[name]

    def local_value(self, st, name):
        did = self.locals_by_name.get(name) or self.params.get(name)
        if did in self.memlocals:
            addr, t = self.memlocals[did]
            return self.load(st, Loc('mem', t, addr))
        return st.env[did]

    # -- setup ---------------------------------------------------------------
    def prescan(self, node):
        k = node.get('kind')
        if k == 'UnaryOperator' and node.get('opcode') == '&':
            sub = node['inner'][0]
            while sub.get('kind') == 'ParenExpr':
                sub = sub['inner'][0]
            if sub.get('kind') == 'DeclRefExpr' and sub['referencedDecl']['kind'] in ('VarDecl', 'ParmVarDecl'):
                self.addr_taken.add(sub['referencedDecl']['id'])
        for c in node.get('inner', []) or []:
            if isinstance(c, dict):
                self.prescan(c)

    def new_stack(self, name, t):
        a = z3.BitVec("stk_%s!%d" % (name, next(self._fresh)), 64)
        self.stack_syms.append((a, max(t.size, 1)))
        return a

    def finish_hyps(self, frame_only=False):
        hy = []
        prev_end = BV(USER_LO, 64)
        # this frame's stack locals: pairwise disjoint (fixed order), no wrap, and disjoint
        # from every region the precondition names (a fresh frame overlaps nothing handed in)
        for a, size in self.stack_syms:
            hy.append(z3.UGE(a, prev_end))
            hy.append(z3.ULE(a, BV(STACK_HI, 64)))
            end = a + BV((size + 15) // 16 * 16, 64)
            hy.append(z3.ULE(end, BV(STACK_HI, 64)))
            for (r, n) in self.declared_regions + self.fresh_regions:
                # (only for regions that really are mapped memory: a garbage (addr, n) pair named under a
                #  false antecedent of the precondition constrains nothing)
                mapped = z3.And(z3.UGE(r, BV(USER_LO, 64)), z3.ULE(n, BV(STACK_HI, 64)),
                                z3.ULE(r, BV(STACK_HI, 64)), z3.ULE(r + n, BV(STACK_HI, 64)))
                hy.append(z3.Implies(mapped, z3.Or(z3.UGE(a, r + n), z3.ULE(end, r))))
            prev_end = end
        if frame_only:
            return hy
        hy += self.literal_hyps
        # globals / literals / exception-class constants: distinct objects 4 KiB apart (fixed order),
        # disjoint from this frame's stack locals
        gprev = BV(USER_LO, 64)
        for g in self._glob_syms:
            hy.append(z3.And(z3.UGE(g, gprev), z3.ULE(g, BV(USER_HI, 64))))
            gprev = g + BV(4096, 64)
            for a, size in self.stack_syms:
                hy.append(z3.Or(z3.UGE(g, a + BV((size + 15) // 16 * 16, 64)), z3.ULE(g + BV(4096, 64), a)))
        return hy

    def run_loop_body(self, ordinal):
        """Verify ONE iteration of the loop with the given ordinal (source order) of this function as a
        unit of its own ("loop-body contract"): every parameter and local of the function is arbitrary,
        the contract's pre(c) is assumed at the loop head together with the loop condition, the body (and
        increment) is executed once, post(c) is checked.  Used for loops of functions that are too large to
        bring under a whole-function contract; what surrounds the loop stays unverified (listed)."""
        tu = self.tu
        st = State()
        st.raw = self.raw0 = z3.Array('RAW0', B64, B8)
        st.err = self.err0 = z3.BitVec('ERR0', 64)
        self.base_witness = {}
        self.prescan(self.fn)
        loops = []

        def walk(x, in_loop_depth=0):
            k = x.get('kind')
            if k in ('WhileStmt', 'ForStmt') or (k == 'DoStmt' and self.const_value(x['inner'][1]) != 0):
                loops.append(x)
            for c in x.get('inner', []) or []:
                if isinstance(c, dict):
                    walk(c)
        walk(self.fn)
        if ordinal >= len(loops):
            raise NotSupported("function %s has only %d loops" % (self.fname, len(loops)))
        loop = loops[ordinal]
        args = {}

        def declare(d):
            t = tu.ctype_of(d)
            self.decl_types[d['id']] = t
            if d['kind'] == 'ParmVarDecl':
                self.params[d['name']] = d['id']
            else:
                self.locals_by_name[d['name']] = d['id']
            if d.get('storageClass') == 'static':
                self.static_locals = getattr(self, 'static_locals', {})
                self.static_locals[d['id']] = d['name']
                return
            if t.kind in ('record', 'array') or d['id'] in self.addr_taken:
                addr = self.new_stack(d['name'], t)
                self.memlocals[d['id']] = (addr, t)
                if t.kind not in ('record', 'array'):
                    v = z3.Const('var_' + d['name'], sort_of(t))
                    self.store(st, Loc('mem', t, addr), v)
                    args.setdefault(d['name'], v)
            else:
                v = z3.Const('var_' + d['name'], sort_of(t))
                st.env[d['id']] = v
                args.setdefault(d['name'], v)

        def decls(x):
            if x.get('kind') in ('ParmVarDecl', 'VarDecl'):
                declare(x)
            for c in x.get('inner', []) or []:
                if isinstance(c, dict) and x.get('kind') != 'VarDecl':
                    decls(c)
        decls(self.fn)
        # names are resolved as at the loop: declarations of the enclosing blocks win (innermost last)
        def path_to(x, target, acc):
            if x is target:
                return True
            for c in x.get('inner', []) or []:
                if isinstance(c, dict):
                    acc.append(c)
                    if path_to(c, target, acc):
                        return True
                    acc.pop()
            return False
        chain = []
        path_to(self.fn, loop, chain)
        for blk in chain:
            if blk.get('kind') == 'CompoundStmt':
                for s_ in blk.get('inner', []) or []:
                    if s_.get('kind') == 'DeclStmt':
                        for d in s_['inner']:
                            if d.get('kind') == 'VarDecl' and d['id'] in self.decl_types:
                                self.locals_by_name[d['name']] = d['id']
                                if d['id'] in st.env:
                                    args[d['name']] = st.env[d['id']]
                                elif d['id'] in self.memlocals and self.decl_types[d['id']].kind not in ('record', 'array'):
                                    a_, t_ = self.memlocals[d['id']]
                                    args[d['name']] = self.load(st, Loc('mem', t_, a_))
        self.args = args
        self.st0 = st.copy()
        c0 = Ctx(self, args, self.st0)
        self.c0 = c0
        self.collecting_regions = True
        self.callers_pre = []
        for label, p, extra in _norm(self.contract.pre(c0)):
            st.assume(p)
        self.collecting_regions = False
        init, cond, inc, body = self.loop_parts(loop)
        line = line_of(loop)
        if cond:
            cv = truth(self.ev(cond, st))
            xst = st.copy()
            xst.assume(z3.Not(cv))
            cx = Ctx(self, args, self.st0, xst)
            for label, g, extra in _norm(self.contract.post_exit(cx)):
                self.ob('loop-exit', line, label, xst, g, hyps_extra=extra or ())
            st.assume(cv)
        self.pre_pc = list(st.pc)
        self.restate_pre(st, c0)
        self.base_witness = dict(self.contract.witness(c0))
        acc = self.contract.accessible(c0)
        if acc is not None:
            self.access_regions = acc
        ctl = {'breaks': [], 'continues': [], 'loop': True}
        self.ctlstack.append(ctl)
        self.loop_ordinal = ordinal + 1     # loops nested in the body keep their source-order ordinals
        end = self.exec_stmt(body, st)
        self.ctlstack.pop()
        cur = merge_states([end] + ctl['continues'])
        line = line_of(loop)
        if cur is not None:
            if inc:
                self.ev(inc, cur, want=False)
            c = Ctx(self, args, self.st0, cur)
            for label, g, extra in _norm(self.contract.post(c)):
                self.ob('loop-body', line, label, cur, g, hyps_extra=extra or ())
            if self.contract.keep_fields:
                if cur.dh is not self.st0.dh:
                    self.ob('loop-body', line, 'field heaps unchanged: a call that may change everything was made', cur,
                            z3.BoolVal(False))
                for key in sorted(set(cur.fh) | set(self.st0.fh)):
                    x = cur.fh[key] if key in cur.fh else cur.dh(key)
                    y = self.st0.fh[key] if key in self.st0.fh else self.st0.dh(key)
                    if not _same(x, y):
                        a = z3.BitVec('kf_p', 64)
                        self.ob('loop-body', line, 'field heap %s unchanged by one iteration' % key, cur,
                                z3.Select(x, a) == z3.Select(y, a))
            self.returns.append((cur, None, 'L%s-next-iteration' % line))
        for k, bst in enumerate(ctl['breaks']):
            c = Ctx(self, args, self.st0, bst)
            for label, g, extra in _norm(self.contract.post_break(c)):
                self.ob('loop-body', line, 'break: ' + label, bst, g, hyps_extra=extra or ())
            self.returns.append((bst, None, 'L%s-break' % line))
        for (rst, rval, rline) in list(self.returns):
            if isinstance(rline, str) and rline.startswith('L'):
                continue
            c = Ctx(self, args, self.st0, rst, rval)
            for label, g, extra in _norm(self.contract.post_return(c)):
                self.ob('loop-body', rline, 'return: ' + label, rst, g, hyps_extra=extra or ())
        for label, states in self.gotos.items():
            for gst in states:
                c = Ctx(self, args, self.st0, gst)
                for lab, g, extra in _norm(self.contract.post_goto(c, label)):
                    self.ob('loop-body', line, 'goto %s: %s' % (label, lab), gst, g, hyps_extra=extra or ())
                self.returns.append((gst, None, 'L%s-goto-%s' % (line, label)))
        self.gotos = {}
        self.global_hyps[:] = self.finish_hyps()
        for o in self.obs:
            o.hyps = list(self.global_hyps) + o.hyps
            if o.meta.get('quantified_hyps_left_out'):
                o.hyps = [h for h in o.hyps if not _has_quantifier(h)]
        return self.obs

    def run(self):
        if getattr(self.contract, 'loop_ordinal', None) is not None:
            return self.run_loop_body(self.contract.loop_ordinal)
        tu = self.tu
        body = None
        st = State()
        st.raw = self.raw0 = z3.Array('RAW0', B64, B8)
        st.err = self.err0 = z3.BitVec('ERR0', 64)
        self.base_witness = {}
        args = {}
        self.prescan(self.fn)
        for c in self.fn['inner']:
            if c['kind'] == 'ParmVarDecl':
                t = tu.ctype_of(c)
                self.decl_types[c['id']] = t
                if t.kind == 'record':
                    # an aggregate passed by value: a private copy in this frame with arbitrary contents; the
                    # contract sees its address
                    addr = self.new_stack(c['name'], t)
                    self.memlocals[c['id']] = (addr, t)
                    args[c['name']] = addr
                    self.params[c['name']] = c['id']
                    continue
                v = z3.Const('arg_' + c['name'], sort_of(t))
                args[c['name']] = v
                self.params[c['name']] = c['id']
                if c['id'] in self.addr_taken:
                    addr = self.new_stack(c['name'], t)
                    self.memlocals[c['id']] = (addr, t)
                    self.store(st, Loc('mem', t, addr), v)
                else:
                    st.env[c['id']] = v
            elif c['kind'] == 'CompoundStmt':
                body = c
        self.args = args
        self.st0 = st.copy()
        c0 = Ctx(self, args, self.st0)
        self.c0 = c0
        self.collecting_regions = True
        self.callers_pre = []
        for label, p, extra in _norm(self.contract.pre(c0)):
            if extra != 'callers':
                st.assume(p)
            else:
                self.callers_pre.append(p)     # used only to discharge callee preconditions (pass-through)
        for label, p in self.contract.scope(c0):
            st.assume(p)
        self.collecting_regions = False
        self.pre_pc = list(st.pc)
        self.restate_pre(st, c0)
        self.base_witness = dict(self.contract.witness(c0))
        acc = self.contract.accessible(c0)
        if acc is not None:
            self.access_regions = acc          # {'read': pred, 'write': pred}
        end = self.exec_stmt(body, st)
        if end is not None:
            self.returns.append((end, None, line_of(self.fn['range']['end']) if False else 'end'))
        # post-conditions per return
        for (rst, rval, rline) in self.returns:
            c = Ctx(self, args, self.st0, rst, rval)
            for gk, gv in self.contract.ghost_update(c).items():
                rst.ghost[gk] = gv
            pw = self.contract.post_witness(c)
            for label, g, extra in _norm(self.contract.post(c)):
                self.ob('ensures', rline, label, rst, g, hyps_extra=extra or (), witness=pw)
            self.check_frame(c, rst, rline)
        self.global_hyps[:] = self.finish_hyps()
        for o in self.obs:
            o.hyps = list(self.global_hyps) + o.hyps
            if o.meta.get('quantified_hyps_left_out'):
                o.hyps = [h for h in o.hyps if not _has_quantifier(h)]
        return self.obs

    def restate_pre(self, st, c0):
        """The precondition was built before it could be used to resolve reads (see _outside_frame), so its
        reads of memory are plain selects through the stores that spill the address-taken locals, while the
        same reads made by the code afterwards are resolved.  State it a second time, now resolved: each
        restated conjunct P' is P with sub-terms replaced by terms equal to them under hyps /\\ P, so
        hyps /\\ P |- P' and assuming it as well adds nothing (P itself stays assumed)."""
        if not self.stack_syms:
            return
        seen = {p.get_id() for p in st.pc}
        again = [p for _l, p, extra in _norm(self.contract.pre(c0)) if extra != 'callers']
        if getattr(self.contract, 'loop_ordinal', None) is None:
            again += [p for _l, p in self.contract.scope(c0)]
        for p in again:
            if p.get_id() not in seen:
                seen.add(p.get_id())
                st.assume(p)
                self.pre_pc.append(p)

    def check_frame(self, c, rst, rline):
        fr = self.contract.frame(c)
        if fr is None:
            return
        if fr.havoc_if is not None:
            rst = rst.copy()
            rst.assume(z3.Not(fr.havoc_if))
        if not fr.all_raw and not _same(rst.raw, self.raw0):
            a = z3.BitVec('frame_a', 64)
            conds = [z3.Not(in_range(a, lo, n if z3.is_bv(n) else BV(n, 64))) for lo, n in fr.raw]
            if fr.all_raw_if is not None:
                conds.append(z3.Not(fr.all_raw_if))
            for sa, ssize in self.stack_syms:            # stack locals of this frame are dead on return
                conds.append(z3.Not(in_range(a, sa, BV((ssize + 15) // 16 * 16, 64))))
            for fa, fn_ in self.fresh_regions:           # memory allocated by this call did not exist before
                conds.append(z3.Not(in_range(a, fa, fn_)))
            self.ob('frame', rline, 'raw-bytes-outside-assigns-unchanged', rst,
                    z3.Implies(z3.And(*conds), z3.Select(self._anon_stores(rst.raw, {}), a) == z3.Select(self.raw0, a)),
                    witness={'frame_a': a})
        if not fr.all_fields:
            allowed = set()
            for f in fr.fields:
                if isinstance(f, tuple):
                    t = self.tu.parse_type(f[0])
                    _, reckey, off, ft = self.norm_field(BV(0, 64), t.name, f[1])
                    allowed.add(self.heap_key(reckey, off, ft.bits))
                else:
                    allowed.add(f)
            for key, h in rst.fh.items():
                h0 = heap0(key)
                if key in allowed or _same(h, h0):
                    continue
                a = z3.BitVec('frame_p', 64)
                notstack = [z3.Not(in_range(a, sa, BV((ssize + 15) // 16 * 16, 64))) for sa, ssize in self.stack_syms]
                notstack += [z3.Not(in_range(a, fa, fn_)) for fa, fn_ in self.fresh_regions]
                self.ob('frame', rline, 'field-heap-unchanged:' + key, rst,
                        z3.Implies(z3.And(*notstack) if notstack else z3.BoolVal(True),
                                   z3.Select(h, a) == z3.Select(h0, a)),
                        witness={'frame_p': a})
        if fr.all_fields and fr.keep_records:
            ref = self.st0
            self.kept_records_ob(rst, ref, self.record_names(fr.keep_records), rline, 'frame', 'frame')
        if not fr.err and not _same(rst.err, self.err0):
            self.ob('frame', rline, 'error-indicator-unchanged', rst, rst.err == self.err0)
        if fr.trace is not None:
            # trace variables never touched by name: a call that may extend any trace makes their default arbitrary
            pv, p0 = rst.gvar('tmp:(any other trace variable)', B64), ghost0('tmp:(any other trace variable)', B64)
            if not _same(pv, p0):
                self.ob('frame', rline, 'ghost-unchanged:tmp:(any other trace variable)', rst, pv == p0)
        for gk, gv in list(rst.ghost.items()):
            g0 = ghost0(gk, gv.sort())
            if gk == 'tmp:(any other trace variable)':
                continue
            if gk in fr.ghost or gk.startswith('g:') and gk[2:] in fr.ghost:
                continue
            if gk.startswith('tmp:') and (fr.trace is None or gk in fr.trace or self.direct_key(gk)):
                continue
            if not _same(gv, g0):
                self.ob('frame', rline, 'ghost-unchanged:' + gk, rst, gv == g0)

    def _anon_stores(self, arr, memo):
        """the same byte heap with every stored VALUE replaced by an arbitrary byte: which bytes a function writes does
        not depend on what it writes, and the frame obligation proved for arbitrary values holds for the real ones
        (keeps floating-point conversions and other heavy value terms out of the frame queries)"""
        key = arr.get_id()
        if key in memo:
            return memo[key]
        chain, cur = [], arr
        while z3.is_app(cur) and cur.decl().kind() == z3.Z3_OP_STORE and cur.get_id() not in memo:
            chain.append(cur)
            cur = cur.arg(0)
        if cur.get_id() in memo:
            r = memo[cur.get_id()]
        elif z3.is_app(cur) and cur.decl().kind() == z3.Z3_OP_ITE:
            r = z3.If(cur.arg(0), self._anon_stores(cur.arg(1), memo), self._anon_stores(cur.arg(2), memo))
        else:
            r = cur
        memo[cur.get_id()] = r
        for stx in reversed(chain):
            r = z3.Store(r, stx.arg(1), self.fresh('anybyte', B8))
            memo[stx.get_id()] = r
        return r

    # -- statements ----------------------------------------------------------
    def has_label(self, node):
        r = node.get('_haslabel')
        if r is None:
            r = node.get('kind') == 'LabelStmt' or \
                any(self.has_label(c) for c in node.get('inner', []) or [] if isinstance(c, dict))
            node['_haslabel'] = r
        return r

    def exec_block(self, stmts, st):
        for s in stmts:
            st = self.exec_stmt(s, st)
        return st

    def exec_stmt(self, n, st):
        if st is None and not self.has_label(n):
            return None
        k = n['kind']
        if k == 'CompoundStmt':
            return self.exec_block(n.get('inner', []) or [], st)
        if k == 'NullStmt':
            return st
        if k == 'DeclStmt':
            for d in n['inner']:
                self.exec_decl(d, st)
            return st
        if k == 'IfStmt':
            return self.exec_if(n, st)
        if k == 'ReturnStmt':
            v = None
            if n.get('inner'):
                v = self.ev(n['inner'][0], st)
            self.returns.append((st, v, line_of(n)))
            return None
        if k == 'GotoStmt':
            label = self.label_name(n['targetLabelDeclId'])
            if label in self.labels_seen:
                spec = self.contract.labels.get(label)
                if spec is None and label in self.contract.replay_labels:
                    return self.replay_from_label(label, st, n)
                if spec is None or label not in self.back_labels:
                    raise NotSupported("backward goto %s without a label invariant in the contract" % label)
                entry = self.back_labels[label]
                c_end = Ctx(self, self.args, self.st0, st)
                c_end.entry = entry
                if spec.readonly:
                    self.same_heaps_ob(st, entry, line_of(n), 'label %s' % label)
                for lab, g, extra in _norm(spec.invariant(c_end, st)):
                    self.ob('loop-preserved', line_of(n), 'label %s:%s' % (label, lab), st, g, hyps_extra=extra or ())
                return None
            self.gotos.setdefault(label, []).append(st)
            return None
        if k == 'LabelStmt':
            name = n['name']
            self.labels_seen.add(name)
            st = merge_states([st] + self.gotos.pop(name, []))
            if name in self.contract.labels and st is not None:
                st = self.enter_back_label(n, name, st)
            return self.exec_stmt(n['inner'][0], st)
        if k == 'DoStmt':
            return self.exec_do(n, st)
        if k in ('WhileStmt', 'ForStmt'):
            return self.exec_loop(n, st)
        if k == 'SwitchStmt':
            return self.exec_switch(n, st)
        if k == 'BreakStmt':
            self.ctlstack[-1]['breaks'].append(st)
            return None
        if k == 'ContinueStmt':
            for ctl in reversed(self.ctlstack):
                if ctl['loop']:
                    ctl['continues'].append(st)
                    return None
            raise NotSupported("continue outside loop")
        if k in ('CaseStmt', 'DefaultStmt'):
            raise NotSupported("case label outside the direct body of a switch")
        # expression statement
        self.ev(n, st, want=False)
        return st

    def replay_from_label(self, label, st, n):
        body = [c for c in self.fn['inner'] if c.get('kind') == 'CompoundStmt'][0]
        stmts = body.get('inner', []) or []
        pos = [k for k, s_ in enumerate(stmts) if s_.get('kind') == 'LabelStmt' and s_.get('name') == label]
        if not pos:
            raise NotSupported("replayed label %s is not at the top level of the function body" % label)
        if getattr(self, '_replaying', 0) >= 2:
            raise NotSupported("backward goto %s: replay does not terminate" % label)
        self._replaying = getattr(self, '_replaying', 0) + 1
        try:
            first = stmts[pos[0]]
            cur = self.exec_stmt(first['inner'][0], st)
            cur = self.exec_block(stmts[pos[0] + 1:], cur)
            if cur is not None:
                self.returns.append((cur, None, 'end'))
        finally:
            self._replaying -= 1
        return None

    def same_heaps_ob(self, st, head, line, what):
        """obligations of a read-only cycle at a back edge: every heap, the bytes, the error indicator and the
        ghosts are those of the cycle's head (identical terms need no solver)"""
        diff = []
        if st.dh is not head.dh or st.dg is not head.dg:
            diff.append(('a call that may change everything lies on the way back', z3.BoolVal(False)))
        if not _same(st.raw, head.raw):
            a = z3.BitVec('cyc_a', 64)
            diff.append(('byte heap', z3.Select(st.raw, a) == z3.Select(head.raw, a)))
        for key in set(st.fh) | set(head.fh):
            x, y = st.fh.get(key, None), head.fh.get(key, None)
            x = x if x is not None else st.dh(key)
            y = y if y is not None else head.dh(key)
            if not _same(x, y):
                a = z3.BitVec('cyc_p', 64)
                diff.append(('field heap ' + key, z3.Select(x, a) == z3.Select(y, a)))
        if not _same(st.err, head.err):
            diff.append(('error indicator', st.err == head.err))
        for key in set(st.ghost) | set(head.ghost):
            x = st.ghost.get(key)
            y = head.ghost.get(key)
            srt = (x if x is not None else y).sort()
            x = x if x is not None else st.dg(key, srt)
            y = y if y is not None else head.dg(key, srt)
            if not _same(x, y):
                diff.append(('ghost ' + key, x == y))
        for lab, g in diff:
            self.ob('loop-preserved', line, '%s: read-only cycle: %s unchanged' % (what, lab), st, g)

    def enter_back_label(self, n, name, st):
        """a label that later `goto`s jump back to is a loop head: its invariant (contract.labels[name]) holds on
        entry (obligation), every local assigned anywhere in the function and -- if the function calls anything
        -- the heaps are made arbitrary, the invariant is assumed, and each backward goto must re-establish it"""
        spec = self.contract.labels[name]
        line = line_of(n)
        self.nloops += 1
        c_entry = Ctx(self, self.args, self.st0, st)
        for lab, g, extra in _norm(spec.invariant(c_entry, st)):
            self.ob('loop-entry', line, 'label %s:%s' % (name, lab), st, g, hyps_extra=extra or ())
        acc = {'vars': set(), 'mem': False, 'calls': False, 'raw': False, 'fields': False, 'err': False}
        self.assigned_in(self.fn, acc)
        h = st.copy()
        for did in acc['vars']:
            if did in h.env:
                h.env[did] = self.fresh('label_%s_%s' % (name, self.decl_name(did)), h.env[did].sort())
        if not spec.readonly:
            h.havoc('label_%s' % name, raw=acc['raw'] or acc['calls'], fields=acc['fields'] or acc['calls'],
                    ghost=acc['calls'],
                    err=self.fresh('label_%s_err' % name, B64) if (acc['err'] or acc['calls']) else None)
        c_h = Ctx(self, self.args, self.st0, h)
        c_h.entry = st
        for lab, g, extra in _norm(spec.invariant(c_h, h)):
            h.assume(g)
        self.back_labels[name] = h.copy() if spec.readonly else st
        return h

    def label_name(self, declid):
        if not hasattr(self, '_labelnames'):
            self._labelnames = {}

            def walk(x):
                if x.get('kind') == 'LabelStmt':
                    self._labelnames[x['declId']] = x['name']
                for c in x.get('inner', []) or []:
                    if isinstance(c, dict):
                        walk(c)
            walk(self.fn)
        return self._labelnames[declid]

    def exec_decl(self, d, st):
        if d['kind'] in ('RecordDecl', 'EnumDecl', 'TypedefDecl', 'StaticAssertDecl'):
            return
        if d['kind'] != 'VarDecl':
            raise NotSupported("decl " + d['kind'])
        t = self.tu.ctype_of(d)
        self.decl_types[d['id']] = t
        self.locals_by_name[d['name']] = d['id']
        init = None
        for c in d.get('inner', []) or []:
            if c.get('kind', '').endswith('Attr'):
                continue
            init = c
        if d.get('storageClass') == 'static':
            self.static_locals = getattr(self, 'static_locals', {})
            self.static_locals[d['id']] = d['name']
            return
        if t.kind in ('record', 'array') or d['id'] in self.addr_taken:
            addr = self.new_stack(d['name'], t)
            self.memlocals[d['id']] = (addr, t)
            if init is not None:
                if t.kind in ('record', 'array'):
                    self.init_aggregate(st, addr, t, init)
                else:
                    self.store(st, Loc('mem', t, addr), self.ev(init, st))
            return
        if init is not None:
            st.env[d['id']] = self.ev(init, st)
        else:
            st.env[d['id']] = self.fresh('uninit_' + d['name'], sort_of(t))

    def init_aggregate(self, st, addr, t, init):
        if init['kind'] == 'InitListExpr' and t.kind == 'array' and t.target.kind in ('int', 'ptr'):
            elems = init.get('inner', []) or []
            if 'array_filler' in init:
                elems = [e for e in init['array_filler'] if e.get('kind') != 'ImplicitValueInitExpr']
            n = t.count or len(elems)
            for i in range(n):
                if i < len(elems):
                    v = self.ev(elems[i], st)
                else:
                    v = BV(0, t.target.bits)
                self.store(st, Loc('mem', t.target, addr + BV(i * t.target.size, 64)), v)
            return
        if init['kind'] == 'InitListExpr' and t.kind == 'record':
            fields = self.tu.layout(t.name)[2]
            elems = init.get('inner', []) or []
            order = sorted(fields.items(), key=lambda kv: kv[1][0])
            if len(elems) <= len(order) and all(ft.kind in ('int', 'ptr', 'float') and b is None for _n, (o, ft, b) in order):
                for k, (fname, (off, ft, _b)) in enumerate(order):
                    if k < len(elems):
                        v = self.ev(elems[k], st)
                    else:
                        v = z3.FPVal(0.0, sort_of(ft)) if ft.kind == 'float' else BV(0, ft.bits)
                    if ft.kind == 'float':
                        self.store(st, Loc('mem', ft, addr + BV(off, 64)), v)
                    else:
                        self.store(st, Loc('field', ft, addr, t.name, off), v)
                return
        raise NotSupported("aggregate initialiser")

    def exec_if(self, n, st):
        inner = n['inner']
        if st is None:
            a = self.exec_stmt(inner[1], None)
            b = self.exec_stmt(inner[2], None) if len(inner) > 2 else None
            return merge_states([a, b])
        c = truth(self.ev(inner[0], st))
        cs = z3.simplify(c)
        if z3.is_true(cs):
            return self.exec_stmt(inner[1], st)
        if z3.is_false(cs):
            if len(inner) > 2:
                return self.exec_stmt(inner[2], st)
            return st
        s1 = st.copy()
        s1.assume(c)
        s2 = st
        s2.assume(z3.Not(c))
        f1, f2 = self.feasible(s1), self.feasible(s2)
        r1 = self.exec_stmt(inner[1], s1 if f1 else None)
        if len(inner) > 2:
            r2 = self.exec_stmt(inner[2], s2 if f2 else None)
        else:
            r2 = s2 if f2 else None
        return merge_states([r1, r2])

    def known(self, st, cond):
        """cond is implied by the path condition (syntactically, or by a quick solver check)"""
        for p in st.pc:
            if _same(p, cond):
                return True
        s = z3.Solver()
        s.set('timeout', 500)
        for h in st.pc:
            s.add(h)
        s.add(z3.Not(cond))
        return s.check() == z3.unsat

    def feasible(self, st):
        """cheap pruning of branches whose path condition is unsatisfiable (sound: a
        pruned path is one no execution takes; 'unknown' keeps the path)"""
        if not self.prune:
            return True
        s = z3.Solver()
        s.set('timeout', 300)
        for h in st.pc:
            s.add(h)
        r = s.check() != z3.unsat
        if not r:
            self.pruned += 1
        return r

    def exec_do(self, n, st):
        body, cond = n['inner'][0], n['inner'][1]
        cv = self.const_value(cond)
        if cv == 0:
            ctl = {'breaks': [], 'continues': [], 'loop': True}
            self.ctlstack.append(ctl)
            end = self.exec_stmt(body, st)
            self.ctlstack.pop()
            return merge_states([end] + ctl['continues'] + ctl['breaks'])
        return self.exec_loop(n, st)

    def const_value(self, e):
        try:
            return self.tu._const_eval(e)
        except Exception:
            return None

    def loop_parts(self, n):
        k = n['kind']
        if k == 'WhileStmt':
            return None, n['inner'][0], None, n['inner'][1]
        if k == 'DoStmt':
            return None, n['inner'][1], None, n['inner'][0]
        init, _var, cond, inc, body = n['inner']       # ForStmt: 5 slots, {} when absent
        return (init or None), (cond or None), (inc or None), body

    def assigned_in(self, node, acc, depth=0):
        """syntactic modifies-set of a loop: local decl ids assigned; whether byte memory ('raw'), struct
        fields ('fields'), the error indicator ('err') or everything ('calls') may change"""
        k = node.get('kind')
        if k in ('BinaryOperator', 'CompoundAssignOperator') and (node.get('opcode') == '=' or k == 'CompoundAssignOperator'):
            self._lhs_target(node['inner'][0], acc)
        elif k == 'UnaryOperator' and node.get('opcode') in ('++', '--'):
            self._lhs_target(node['inner'][0], acc)
        elif k == 'CallExpr':
            nm, _ind = self.callee_name(node)
            con = self.reg.contracts.get(nm) if nm else None
            if nm in getattr(self.reg, 'pure_models', ()) or (con is not None and con.pure):
                pass
            elif nm in getattr(self.reg, 'err_only_models', ()):
                acc['err'] = True
            elif nm is not None and (nm in self.reg.inline or (con is not None and con.inline)) and \
                    nm in self.tu.functions and depth < 6:
                sub = {'vars': set(), 'raw': False, 'fields': False, 'err': False, 'calls': False, 'mem': False}
                self.assigned_in(self.tu.functions[nm], sub, depth + 1)
                for key in ('raw', 'fields', 'err', 'calls'):
                    acc[key] = acc[key] or sub[key]
                acc['raw'] = acc['raw'] or sub['mem']
            else:
                acc['calls'] = True
        elif k == 'VarDecl':
            acc['vars'].add(node['id'])
        for c in node.get('inner', []) or []:
            if isinstance(c, dict):
                self.assigned_in(c, acc, depth)

    def _lhs_target(self, lhs, acc):
        while lhs.get('kind') == 'ParenExpr':
            lhs = lhs['inner'][0]
        if lhs.get('kind') == 'DeclRefExpr' and lhs['referencedDecl']['kind'] in ('VarDecl', 'ParmVarDecl'):
            did = lhs['referencedDecl']['id']
            if did in self.memlocals or did in self.addr_taken:
                acc['raw'] = True
            acc['vars'].add(did)
            gname = lhs['referencedDecl'].get('name')
            if did not in self.decl_types and gname in self.tu.globals:
                # a C global assigned in the loop (kept as ghost 'g:<name>', not in the local environment)
                acc.setdefault('globals', set()).add(gname)
        elif lhs.get('kind') == 'MemberExpr':
            acc['fields'] = True
            ft = self.tu.ctype_of(lhs)
            if not lhs.get('isArrow') or ft.kind not in ('int', 'ptr'):
                acc['raw'] = True     # (a member of a local struct / a float or array member lives in bytes)
        else:
            acc['raw'] = True

    def exec_loop(self, n, st):
        ordinal = self.loop_ordinal
        self.loop_ordinal += 1
        self.nloops += 1
        spec = self.contract.loops.get(ordinal)
        init, cond, inc, body = self.loop_parts(n)
        is_do = n['kind'] == 'DoStmt'
        if st is None:
            raise NotSupported("label inside a loop reached only by goto")
        if init:
            st = self.exec_stmt(init, st)
        if spec is None:
            raise NotSupported("loop #%d of %s (line %s) has no invariant/unroll in its contract"
                               % (ordinal, self.fname, line_of(n)))
        line = line_of(n)
        if spec.unroll is not None:
            exits = []
            cur = st
            for it in range(spec.unroll + 1):
                if cur is None:
                    break
                if not (is_do and it == 0) and cond:
                    c = truth(self.ev(cond, cur))
                    ex_ = cur.copy()
                    ex_.assume(z3.Not(c))
                    exits.append(ex_)
                    cur.assume(c)
                elif not cond and it == spec.unroll:
                    pass
                if it == spec.unroll:
                    # unwinding assertion: no further iteration is possible
                    self.ob('unwind', line, 'loop%d-at-most-%d-iterations' % (ordinal, spec.unroll), cur,
                            z3.BoolVal(False))
                    break
                ctl = {'breaks': [], 'continues': [], 'loop': True}
                self.ctlstack.append(ctl)
                end = self.exec_stmt(body, cur)
                self.ctlstack.pop()
                exits.extend(ctl['breaks'])
                cur = merge_states([end] + ctl['continues'])
                if cur is not None and inc:
                    self.ev(inc, cur, want=False)
            return merge_states(exits)
        # invariant mode
        c_entry = Ctx(self, self.args, self.st0, st)
        proved_before = []
        for label, g, extra in _norm(spec.invariant(c_entry, st)):
            # (the clauses are obligations at one and the same state: a later one may use the earlier ones -- if an
            #  earlier one fails it is reported itself; quantified clauses are not passed on, they only slow the others)
            self.ob('loop-entry', line, 'loop%d:%s' % (ordinal, label), st, g, hyps_extra=list(extra or ()) + proved_before)
            if not _has_quantifier(g):
                proved_before = proved_before + [g]
        acc = {'vars': set(), 'mem': False, 'calls': False, 'raw': False, 'fields': False, 'err': False}
        for part in (cond, inc, body):
            if part:
                self.assigned_in(part, acc)
        if spec.summarise:
            acc['calls'] = True
        for nm in spec.forget:
            if nm not in self.locals_by_name:
                raise NotSupported("loop #%d of %s: no local named %s" % (ordinal, self.fname, nm))
            acc['vars'].add(self.locals_by_name[nm])
        h = st.copy()
        for did in acc['vars']:
            if did in h.env:
                h.env[did] = self.fresh('loop%d_%s' % (ordinal, self.decl_name(did)), h.env[did].sort())
        for gname in sorted(acc.get('globals', ())):
            for gk, srt in self.ghost_keys(h, gname):
                h.ghost[gk] = self.fresh('loop%d_%s' % (ordinal, gname), srt)
        if spec.ghost_update is not None:
            # ghost variables assigned at the end of each iteration are arbitrary at the head as well
            for gname in sorted(spec.ghost_update(Ctx(self, self.args, self.st0, h), h, h)):
                for gk, srt in self.ghost_keys(h, gname):
                    h.ghost[gk] = self.fresh('loop%d_%s' % (ordinal, gname), srt)
        if not spec.readonly:
            if acc['raw'] or acc['calls']:
                newraw = self.fresh('loop%d_raw' % ordinal, z3.ArraySort(B64, B8))
                regions = spec.raw(Ctx(self, self.args, self.st0, st), st) if (spec.raw and not acc['calls']) else None
                if regions is not None:
                    # the loop writes only inside the regions its contract names (checked: memory-safety obligations
                    # of the body / the function's frame); every other byte is as at loop entry
                    a = z3.BitVec('a!loop', 64)
                    inside = z3.Or(*[in_range(a, lo, nn if z3.is_bv(nn) else BV(nn, 64)) for lo, nn in regions])
                    h.raw = z3.Lambda([a], z3.If(inside, z3.Select(newraw, a), z3.Select(st.raw, a)))
                    self.loop_regions.append((ordinal, regions))
                else:
                    h.raw = newraw
            keepf = False
            if spec.summarise and spec.keep_fields:
                partner = [k for k in self.reg.contracts.values()
                           if (k.function or k.name) == self.fname.split('>')[-1] and k.loop_ordinal == ordinal and k.keep_fields]
                if not partner:
                    raise NotSupported("loop #%d of %s keeps field heaps but no loop-body contract proves it" % (ordinal, self.fname))
                keepf = True
            h.havoc('loop%d' % ordinal, raw=False, fields=(acc['fields'] or acc['calls']) and not keepf, ghost=acc['calls'],
                    err=self.fresh('loop%d_err' % ordinal, B64) if (acc['err'] or acc['calls']) else None,
                    keep_trace=spec.trace is not None, keep_records=self.record_names(spec.keep_records))
            if spec.trace is not None and acc['calls']:
                for gname in list(spec.trace) + self.direct_keys_all():
                    for gk, srt in self.ghost_keys(h, gname):
                        h.ghost[gk] = self.fresh('loop%d_%s' % (ordinal, gname), srt)
        head = h.copy()
        if spec.summarise:
            self.summarised_loops.append((self.fname, ordinal, line))
            self.loop_ordinal += self.count_loops(body)      # ordinals are source-order: skip the nested loops
            if spec.assume_exit:
                c_x = Ctx(self, self.args, self.st0, h)
                c_x.entry = st
                for label, g, extra in _norm(spec.invariant(c_x, h)):
                    h.assume(g)
                if cond and not is_do:
                    h.assume(z3.Not(truth(self.ev(cond, h))))
            return h
        c_h = Ctx(self, self.args, self.st0, h)
        c_h.entry = st
        for label, g, extra in _norm(spec.invariant(c_h, h)):
            h.assume(g)
        exit_st = h.copy()
        if cond and not is_do:
            cv = truth(self.ev(cond, h))
            exit_st2 = h.copy()
            exit_st2.assume(z3.Not(cv))
            h.assume(cv)
            exits = [exit_st2]
        else:
            exits = []
        ctl = {'breaks': [], 'continues': [], 'loop': True}
        self.ctlstack.append(ctl)
        end = self.exec_stmt(body, h)
        self.ctlstack.pop()
        exits.extend(ctl['breaks'])
        cur = merge_states([end] + ctl['continues'])
        if cur is not None:
            if inc:
                self.ev(inc, cur, want=False)
            if is_do and cond:
                cv = truth(self.ev(cond, cur))
                e2 = cur.copy()
                e2.assume(z3.Not(cv))
                exits.append(e2)
                cur.assume(cv)
            c_end = Ctx(self, self.args, self.st0, cur)
            c_end.entry = st
            if spec.ghost_update is not None:
                for gk, gv in spec.ghost_update(c_end, head, cur).items():
                    cur.ghost[gk] = gv
            for label, g, extra in _norm(spec.invariant(c_end, cur)):
                self.ob('loop-preserved', line, 'loop%d:%s' % (ordinal, label), cur, g, hyps_extra=extra or ())
            if spec.keep_records:
                self.kept_records_ob(cur, head, self.record_names(spec.keep_records), line, 'loop%d' % ordinal, 'loop-preserved')
            if spec.trace is not None:
                probe = 'tmp:(any other trace variable)'
                for gk in sorted(set(k_ for k_ in cur.ghost if k_.startswith('tmp:')) | {probe}):
                    if gk in spec.trace or self.direct_key(gk):
                        continue
                    srt = cur.ghost[gk].sort() if gk in cur.ghost else B64
                    x, y = cur.gvar(gk, srt), head.gvar(gk, srt)
                    if not _same(x, y):
                        self.ob('loop-preserved', line, 'loop%d:trace variable %s is unchanged in an iteration' % (ordinal, gk),
                                cur, x == y)
            if spec.readonly:
                self.same_heaps_ob(cur, head, line, 'loop%d' % ordinal)
        return merge_states(exits)

    def count_loops(self, x):
        k = 0
        for ch in x.get('inner', []) or []:
            if isinstance(ch, dict):
                kk = ch.get('kind')
                if kk in ('WhileStmt', 'ForStmt') or (kk == 'DoStmt' and self.const_value(ch['inner'][1]) != 0):
                    k += 1
                k += self.count_loops(ch)
        return k

    def decl_name(self, did):
        for nm, i in list(self.locals_by_name.items()) + list(self.params.items()):
            if i == did:
                return nm
        return did

    def exec_switch(self, n, st):
        cond, body = n['inner'][0], n['inner'][-1]
        if st is None:
            raise NotSupported("goto into a switch body")
        v = self.ev(cond, st)
        if body['kind'] != 'CompoundStmt':
            raise NotSupported("switch body")
        # collect case values at top level of the body
        cases = []

        def collect(s):
            if s['kind'] == 'CaseStmt':
                cases.append(self.case_value(s))
                collect(s['inner'][-1])
            elif s['kind'] == 'DefaultStmt':
                collect(s['inner'][-1])
        for s in body.get('inner', []):
            collect(s)
        ctl = {'breaks': [], 'continues': [], 'loop': False}
        self.ctlstack.append(ctl)
        cur = None
        has_default = False
        for s in body.get('inner', []):
            while s['kind'] in ('CaseStmt', 'DefaultStmt'):
                ent = st.copy()
                if s['kind'] == 'CaseStmt':
                    ent.assume(v == BV(self.case_value(s), v.size()))
                else:
                    has_default = True
                    for cv in cases:
                        ent.assume(v != BV(cv, v.size()))
                cur = merge_states([cur, ent])
                s = s['inner'][-1]
            cur = self.exec_stmt(s, cur)
        self.ctlstack.pop()
        outs = [cur] + ctl['breaks']
        if not has_default:
            ent = st.copy()
            for cv in cases:
                ent.assume(v != BV(cv, v.size()))
            outs.append(ent)
        return merge_states(outs)

    def case_value(self, s):
        e = s['inner'][0]
        cv = self.const_value(e)
        if cv is None:
            raise NotSupported("case value")
        return cv

    # -- lvalues -------------------------------------------------------------
    def lv(self, n, st):
        k = n['kind']
        if k == 'ParenExpr':
            return self.lv(n['inner'][0], st)
        if k == 'DeclRefExpr':
            rd = n['referencedDecl']
            did = rd['id']
            if rd['kind'] in ('VarDecl', 'ParmVarDecl'):
                if did in self.memlocals:
                    addr, t = self.memlocals[did]
                    return Loc('mem', t, addr)
                if did in self.decl_types and did not in getattr(self, 'static_locals', {}):
                    return Loc('var', self.decl_types[did], did)
                # global (or static local)
                t = self.tu.ctype_of(n)
                name = rd['name']
                if t.kind in ('record', 'array'):
                    return Loc('mem', t, self.global_addr(name))
                return Loc('global', t, name)
            if rd['kind'] == 'FunctionDecl':
                return Loc('mem', cfront.FUNC, self.global_addr(rd['name']))
            raise NotSupported("lvalue DeclRef to " + rd['kind'])
        if k == 'MemberExpr':
            base = n['inner'][0]
            ft = self.tu.ctype_of(n)
            if n.get('isArrow'):
                p = self.ev(base, st)
                rt = self.tu.ctype_of(base).target
            else:
                bl = self.lv(base, st)
                if bl.kind != 'mem' or bl.ctype.kind != 'record':
                    raise NotSupported("member of non-memory record")
                p, rt = bl.a, bl.ctype
            if rt.kind != 'record' or rt.name not in self.tu.records:
                raise NotSupported("member access on %r" % (rt,))
            fields = self.tu.layout(rt.name)[2]
            if not n.get('name'):
                # the implicit member standing for an anonymous struct/union: its members are laid out in the parent
                return Loc('mem', rt, p)
            if n['name'] not in fields:
                raise NotSupported("unknown field " + n['name'])
            off, ft2, bits_ = fields[n['name']]
            if ft2.kind in ('record', 'array'):
                return Loc('mem', ft2, p + BV(off, 64) if off else p)
            if ft2.kind == 'float' and not n.get('isArrow'):
                # (floating-point members of an aggregate held in memory by this frame -- Py_complex -- are bytes:
                #  the code copies them with memcpy)
                return Loc('mem', ft2, p + BV(off, 64) if off else p)
            if bits_ is not None:
                return Loc('bitfield', ft2, p, rt.name, (off, bits_[0], bits_[1]))
            return Loc('field', ft2, p, rt.name, off)
        if k == 'ArraySubscriptExpr':
            a, b = n['inner']
            ta, tb = self.tu.ctype_of(a), self.tu.ctype_of(b)
            if ta.kind != 'ptr':
                a, b, ta, tb = b, a, tb, ta
            p = self.ev(a, st)
            i = cast_int(self.ev(b, st), tb, 64)
            et = self.tu.ctype_of(n)
            base = a
            while base.get('kind') in ('ImplicitCastExpr', 'ParenExpr'):
                base = base['inner'][0]
            if base.get('kind') == 'MemberExpr' and base.get('name') in getattr(self.reg, 'word_arrays', ()) \
                    and et.kind in ('ptr', 'int') and et.size == 8:
                # (opt-in per registry) the elements of this array member are kept as whole words in a heap of their
                # own, indexed by element address, instead of eight bytes each in the byte heap: assumes that they are
                # reached only through this member (A-SEP for the item array of tuples)
                return Loc('field', et, p + i * BV(8, 64), 'words.' + base['name'], 0)
            return Loc('mem', et, p + i * BV(max(et.size, 1), 64))
        if k == 'UnaryOperator' and n['opcode'] == '*':
            p = self.ev(n['inner'][0], st)
            wd = getattr(self.reg, 'word_derefs', None)
            if wd:
                qt = (n['inner'][0].get('type') or {}).get('qualType', '')
                if qt in wd and self.tu.ctype_of(n).size == 8:
                    # (opt-in per registry) what a pointer of this C type points to is kept as whole words in a heap of
                    # its own, indexed by address (A-SEP: such memory is reached only through pointers of this type)
                    return Loc('field', self.tu.ctype_of(n), p, wd[qt], 0)
            hit = self._field_ptrs.get(p.get_id()) if z3.is_expr(p) else None
            if hit is not None and hit[1].ctype.size == self.tu.ctype_of(n).size:
                return hit[1]
            return Loc('mem', self.tu.ctype_of(n), p)
        if k in ('ImplicitCastExpr', 'CStyleCastExpr') and n.get('castKind') in ('NoOp', 'LValueBitCast'):
            return self.lv(n['inner'][0], st)
        raise NotSupported("lvalue kind " + k)

    def addr_of(self, loc):
        if loc.kind == 'mem':
            return loc.a
        if loc.kind == 'field':
            return loc.a + BV(loc.c, 64) if loc.c else loc.a
        if loc.kind == 'global':
            return self.global_addr(loc.a)
        raise NotSupported("address of register local")

    # -- expressions ---------------------------------------------------------
    def ev(self, n, st, want=True):
        k = n['kind']
        ln = line_of(n)
        if ln is not None:
            self.cur_line = ln
        m = getattr(self, 'ev_' + k, None)
        if m is None:
            raise NotSupported("expression kind %s (line %s)" % (k, line_of(n)))
        return m(n, st)

    def ev_ParenExpr(self, n, st):
        return self.ev(n['inner'][0], st)

    def ev_ConstantExpr(self, n, st):
        if 'value' in n:
            t = self.tu.ctype_of(n)
            return BV(int(n['value']), t.bits)
        return self.ev(n['inner'][0], st)

    def ev_IntegerLiteral(self, n, st):
        return BV(int(n['value']), self.tu.ctype_of(n).bits)

    ev_CharacterLiteral = ev_IntegerLiteral

    def ev_FloatingLiteral(self, n, st):
        t = self.tu.ctype_of(n)
        return z3.FPVal(float(n['value']), sort_of(t))

    def ev_PredefinedExpr(self, n, st):
        return self.global_addr('str:__func__')

    def ev_StringLiteral(self, n, st):
        # address of an anonymous constant array holding the literal's bytes and a NUL
        import ast as _ast
        key = 'str:' + n.get('value', '')[:80]
        a = self.global_addr(key)
        if key not in self.literals:
            try:
                val = _ast.literal_eval('b' + n['value'])
            except Exception:
                val = None
            self.literals[key] = (a, val)
            if val is not None and len(val) <= 64:
                for i, ch in enumerate(val + b'\0'):
                    self.literal_hyps.append(z3.Select(self.raw0, a + BV(i, 64)) == BV(ch, 8))
        return a

    def ev_DeclRefExpr(self, n, st):
        rd = n['referencedDecl']
        if rd['kind'] == 'EnumConstantDecl':
            return BV(self.tu.enums[rd['name']], self.tu.ctype_of(n).bits)
        if rd['kind'] == 'FunctionDecl':
            return self.global_addr(rd['name'])
        return self.load(st, self.lv(n, st))

    def ev_MemberExpr(self, n, st):
        return self.load(st, self.lv(n, st))

    ev_ArraySubscriptExpr = ev_MemberExpr

    def ev_UnaryExprOrTypeTraitExpr(self, n, st):
        if n.get('name') not in ('sizeof', 'alignof', '__alignof'):
            raise NotSupported("trait " + str(n.get('name')))
        if 'argType' in n:
            t = self.tu.parse_type(n['argType'].get('desugaredQualType') or n['argType']['qualType'],
                                   n['argType']['qualType'])
        else:
            t = self.tu.ctype_of(n['inner'][0])
        val = t.size if n['name'] == 'sizeof' else t.align
        if t.kind in ('void', 'func'):
            val = 1
        return BV(val, self.tu.ctype_of(n).bits)

    def ev_OffsetOfExpr(self, n, st):
        # clang's JSON omits the designator: recover "offsetof(T, member)" from the real source text
        import re
        b = n['range']['begin']
        b = b.get('expansionLoc', b)
        fn = b.get('_file') or self.tu.path
        if fn not in self.tu._files:
            with open(fn, 'rb') as fh:
                self.tu._files[fn] = fh.read()
        txt = self.tu._files[fn][b['offset']:b['offset'] + 200].decode('latin-1')
        m = re.match(r'\s*(?:offsetof|__builtin_offsetof)\s*\(\s*((?:struct\s+|union\s+)?\w+)\s*,\s*([\w.]+)\s*\)', txt)
        if not m:
            raise NotSupported("offsetof designator not recognised: %r" % txt[:60])
        t = self.tu.parse_type(m.group(1))
        off = 0
        key = t.name
        for part in m.group(2).split('.'):
            fields = self.tu.layout(key)[2]
            if part not in fields:
                raise NotSupported("offsetof: no member %s" % part)
            o, ft, _ = fields[part]
            off += o
            key = ft.name
        return BV(off, self.tu.ctype_of(n).bits)

    def ev_ImplicitCastExpr(self, n, st):
        ck = n['castKind']
        sub = n['inner'][0]
        if ck in ('ArrayToPointerDecay',):
            while sub['kind'] == 'ParenExpr':
                sub = sub['inner'][0]
            if sub['kind'] == 'StringLiteral':
                return self.ev(sub, st)
            if sub['kind'] == 'PredefinedExpr' and sub.get('inner') and sub['inner'][0].get('kind') == 'StringLiteral':
                return self.ev(sub['inner'][0], st)          # __func__: the string literal clang attaches to it
            return self.addr_of(self.lv(sub, st))
        if ck in ('FunctionToPointerDecay', 'BuiltinFnToFnPtr'):
            return self.ev(sub, st)
        if ck == 'LValueToRValue':
            return self.load(st, self.lv(sub, st))
        if ck == 'ToVoid':
            self.ev(sub, st, want=False)
            return None
        v = self.ev(sub, st)
        ts, tt = self.tu.ctype_of(sub), self.tu.ctype_of(n)
        if ck in ('NoOp', 'BitCast'):
            return v
        if ck in ('IntegralCast', 'IntegralToPointer', 'PointerToIntegral'):
            return cast_int(v, ts, tt.size * 8)
        if ck == 'NullToPointer':
            return BV(0, 64)
        if ck in ('IntegralToBoolean', 'PointerToBoolean'):
            return b2i(truth(v), tt.bits)
        if ck == 'IntegralToFloating':
            if tt.size not in (4, 8):
                raise NotSupported("int -> long double")
            return z3.fpSignedToFP(z3.RNE(), v, sort_of(tt)) if ts.signed else z3.fpUnsignedToFP(z3.RNE(), v, sort_of(tt))
        if ck == 'FloatingToIntegral':
            if not z3.is_fp(v):
                raise NotSupported("long double -> int conversion")
            bits = tt.size * 8
            lo = -(2.0 ** (bits - 1)) if tt.signed else -1.0
            hi = 2.0 ** (bits - 1) if tt.signed else 2.0 ** bits
            srt = v.sort()
            # C11 6.3.1.4: undefined unless the truncated value fits (lo-ish < v < hi, v not NaN)
            self.ub(n, st, 'float-to-integer-in-range',
                    z3.And(z3.Not(z3.fpIsNaN(v)), z3.fpGT(v, z3.FPVal(lo - (0.0 if not tt.signed else 1.0), srt)) if tt.signed
                           else z3.fpGT(v, z3.FPVal(-1.0, srt)), z3.fpLT(v, z3.FPVal(hi, srt))))
            return z3.fpToSBV(z3.RTZ(), v, z3.BitVecSort(bits)) if tt.signed else z3.fpToUBV(z3.RTZ(), v, z3.BitVecSort(bits))
        if ck == 'FloatingCast':
            if ts.size in (4, 8) and tt.size in (4, 8):
                return z3.fpFPToFP(z3.RNE(), v, sort_of(tt))
            return self.fp_opaque_cast(v, ts, tt)
        if ck == 'FloatingToBoolean':
            return b2i(z3.Not(z3.fpIsZero(v)), tt.bits)
        raise NotSupported("cast kind " + ck)

    ev_CStyleCastExpr = ev_ImplicitCastExpr

    def fp_opaque_cast(self, v, ts, tt):
        # double <-> long double: exact embedding modelled by an uninterpreted injective pair
        if ts.size == 8 and tt.size == 16:
            return ld_of_double(v)
        if ts.size == 16 and tt.size == 8:
            return self.reg.ghost('double_of_ld', z3.BitVecSort(128), z3.Float64())(v)
        if ts.size == 4 and tt.size == 16:
            return ld_of_double(z3.fpFPToFP(z3.RNE(), v, z3.Float64()))
        if ts.size == 16 and tt.size == 4:
            raise NotSupported("long double -> float")
        raise NotSupported("fp cast")

    def ev_UnaryOperator(self, n, st):
        op = n['opcode']
        sub = n['inner'][0]
        t = self.tu.ctype_of(n)
        if op == '&':
            loc = self.lv(sub, st)
            a = self.addr_of(loc)
            if loc.kind == 'field':
                # the address of a member held in a field heap: remembered, so that `*ptr` with this very term goes to
                # the member (Py_CLEAR(x->f) takes &x->f); other routes to the same bytes are not tracked (A-SEP)
                self._field_ptrs[a.get_id()] = (a, loc)
            return a
        if op == '*':
            tt = self.tu.ctype_of(n)
            if tt.kind == 'func':
                return self.ev(sub, st)
            return self.load(st, self.lv(n, st))
        if op in ('++', '--'):
            loc = self.lv(sub, st)
            old = self.load(st, loc)
            ts = self.tu.ctype_of(sub)
            if ts.kind == 'ptr':
                step = BV(max(ts.target.size, 1), 64)
            else:
                step = BV(1, old.size())
            new = old + step if op == '++' else old - step
            self.store(st, loc, new)
            return old if n.get('isPostfix') else new
        v = self.ev(sub, st)
        if op == '-':
            if z3.is_fp(v):
                return z3.fpNeg(v)
            return -v
        if op == '+':
            return v
        if op == '~':
            return ~v
        if op == '!':
            return b2i(z3.Not(truth(v)), t.bits)
        if op == '__extension__':
            return v
        raise NotSupported("unary " + op)

    def ub(self, n, st, label, cond):
        """undefined-operation obligation; afterwards the condition is assumed
        (every later obligation is proved under 'no UB so far')."""
        cs = z3.simplify(cond)
        if z3.is_true(cs):
            return
        self.ob('ub', line_of(n), label, st, cond)
        st.assume(cond)

    def arith(self, op, a, b, t, n, st, lt=None, rt=None):
        sg = t.signed
        if z3.is_fp(a) or z3.is_fp(b):
            if op == '+':
                return a + b
            if op == '-':
                return a - b
            if op == '*':
                return a * b
            if op == '/':
                return a / b
            raise NotSupported("fp op " + op)
        if op in ('<<', '>>'):
            w = a.size()
            cnt_t = rt
            if cnt_t.signed:
                ok = z3.And(b >= 0, b < BV(w, b.size())) if b.size() > 7 else z3.BoolVal(True)
            else:
                ok = z3.ULT(b, BV(w, b.size())) if w < (1 << b.size()) else z3.BoolVal(True)
            self.ub(n, st, 'shift-count-in-range', ok)
            b2 = cast_int(b, cnt_t, w)
            if op == '<<':
                return a << b2
            return (a >> b2) if lt.signed else z3.LShR(a, b2)
        if op == '+':
            return a + b
        if op == '-':
            return a - b
        if op == '*':
            return a * b
        if op in ('/', '%'):
            self.ub(n, st, 'division-by-zero', b != BV(0, b.size()))
            if sg:
                w = a.size()
                self.ub(n, st, 'signed-division-overflow',
                        z3.Not(z3.And(a == BV(1 << (w - 1), w), b == BV(-1, w))))
                return a / b if op == '/' else z3.SRem(a, b)
            return z3.UDiv(a, b) if op == '/' else z3.URem(a, b)
        if op == '&':
            return a & b
        if op == '|':
            return a | b
        if op == '^':
            return a ^ b
        raise NotSupported("binop " + op)

    def ev_BinaryOperator(self, n, st):
        op = n['opcode']
        L, R = n['inner']
        t = self.tu.ctype_of(n) if op != ',' else None
        if op == '=':
            loc = self.lv(L, st)
            lt = self.tu.ctype_of(L)
            if lt.kind == 'record':
                return self.assign_record(loc, R, st)
            v = self.ev(R, st)
            self.store(st, loc, v)
            return v
        if op == ',':
            self.ev(L, st, want=False)
            return self.ev(R, st)
        if op in ('&&', '||'):
            a = truth(self.ev(L, st))
            s2 = st.copy()
            s2.assume(a if op == '&&' else z3.Not(a))
            b = truth(self.ev(R, s2))
            # fold side effects of the right operand back
            s1 = st.copy()
            s1.assume(z3.Not(a) if op == '&&' else a)
            m = merge_states([s2, s1])
            st.take(m)
            return b2i(z3.And(a, b) if op == '&&' else z3.Or(a, b), t.bits)
        lt, rt = self.tu.ctype_of(L), self.tu.ctype_of(R)
        a = self.ev(L, st)
        b = self.ev(R, st)
        if op in ('==', '!=', '<', '<=', '>', '>='):
            if z3.is_fp(a):
                r = {'==': z3.fpEQ, '!=': lambda x, y: z3.Not(z3.fpEQ(x, y)), '<': z3.fpLT, '<=': z3.fpLEQ,
                     '>': z3.fpGT, '>=': z3.fpGEQ}[op](a, b)
                return b2i(r, t.bits)
            sg = lt.signed and lt.kind == 'int'
            r = {'==': lambda: a == b, '!=': lambda: a != b,
                 '<': lambda: (a < b) if sg else z3.ULT(a, b), '<=': lambda: (a <= b) if sg else z3.ULE(a, b),
                 '>': lambda: (a > b) if sg else z3.UGT(a, b), '>=': lambda: (a >= b) if sg else z3.UGE(a, b)}[op]()
            return b2i(r, t.bits)
        # pointer arithmetic
        if lt.kind == 'ptr' and rt.kind == 'int' and op in ('+', '-'):
            i = cast_int(b, rt, 64) * BV(max(lt.target.size, 1), 64)
            return a + i if op == '+' else a - i
        if lt.kind == 'int' and rt.kind == 'ptr' and op == '+':
            return b + cast_int(a, lt, 64) * BV(max(rt.target.size, 1), 64)
        if lt.kind == 'ptr' and rt.kind == 'ptr' and op == '-':
            d = a - b
            sz = max(lt.target.size, 1)
            return d if sz == 1 else d / BV(sz, 64)
        return self.arith(op, a, b, t, n, st, lt, rt)

    def assign_record(self, loc, R, st):
        """`a = b` for aggregates held in memory: member-wise copy of the scalar members (each in the heap its
        ordinary accesses use)"""
        src = self.ev(R, st)                 # the value of an aggregate is its address
        t = loc.ctype
        if loc.kind != 'mem' or t.kind != 'record':
            raise NotSupported("struct assignment to a non-memory lvalue")
        for fname, (off, ft, bits_) in self.tu.layout(t.name)[2].items():
            if bits_ is not None or ft.kind not in ('int', 'ptr', 'float'):
                raise NotSupported("struct assignment with bit-field / aggregate members")
            if ft.kind == 'float':
                v = self.load(st, Loc('mem', ft, src + BV(off, 64)))
                self.store(st, Loc('mem', ft, loc.a + BV(off, 64)), v)
            else:
                v = self.load(st, Loc('field', ft, src, t.name, off))
                self.store(st, Loc('field', ft, loc.a, t.name, off), v)
        return src

    def ev_CompoundAssignOperator(self, n, st):
        op = n['opcode'][:-1]
        L, R = n['inner']
        loc = self.lv(L, st)
        lt, rt = self.tu.ctype_of(L), self.tu.ctype_of(R)
        old = self.load(st, loc)
        b = self.ev(R, st)
        if lt.kind == 'ptr':
            i = cast_int(b, rt, 64) * BV(max(lt.target.size, 1), 64)
            new = old + i if op == '+' else old - i
        else:
            ct = self.tu.parse_type(n['computeResultType'].get('desugaredQualType') or n['computeResultType']['qualType'],
                                    n['computeResultType']['qualType'])
            clt = self.tu.parse_type(n['computeLHSType'].get('desugaredQualType') or n['computeLHSType']['qualType'],
                                     n['computeLHSType']['qualType'])
            if z3.is_fp(old) or ct.kind == 'float':
                raise NotSupported("fp compound assignment")
            a = cast_int(old, lt, clt.bits)
            r = self.arith(op, a, b, ct, n, st, clt, rt)
            new = cast_int(r, ct, lt.bits)
        self.store(st, loc, new)
        return new

    def ev_ConditionalOperator(self, n, st):
        c, a, b = n['inner']
        cv = truth(self.ev(c, st))
        cs = z3.simplify(cv)
        if z3.is_true(cs):
            return self.ev(a, st)
        if z3.is_false(cs):
            return self.ev(b, st)
        s1 = st.copy()
        s1.assume(cv)
        s2 = st.copy()
        s2.assume(z3.Not(cv))
        va = self.ev(a, s1)
        vb = self.ev(b, s2)
        m = merge_states([s1, s2])
        st.take(m)
        if va is None or vb is None:
            return None
        return z3.If(cv, va, vb)

    def ev_StmtExpr(self, n, st):
        raise NotSupported("statement expression")

    # -- calls ---------------------------------------------------------------
    def callee_name(self, n):
        c = n['inner'][0]
        while c['kind'] in ('ImplicitCastExpr', 'ParenExpr'):
            c = c['inner'][0]
        if c['kind'] == 'DeclRefExpr' and c['referencedDecl']['kind'] == 'FunctionDecl':
            return c['referencedDecl']['name'], None
        if c['kind'] == 'UnaryOperator' and c['opcode'] == '*':
            return None, c['inner'][0]
        return None, c

    def ev_CallExpr(self, n, st):
        name, indirect = self.callee_name(n)
        argnodes = n['inner'][1:]
        if name is None:
            fp = self.ev(indirect, st)
            args = [self.ev(a, st) for a in argnodes]
            h = self.reg.models.get('<indirect>')
            if h is None:
                raise NotSupported("indirect call (line %s)" % line_of(n))
            return h(self, st, [fp] + args, n)
        if name in self.reg.lazy_models:
            return self.reg.lazy_models[name](self, st, argnodes, n)
        args = [self.ev(a, st) for a in argnodes]
        if name in self.reg.models:
            return self.reg.models[name](self, st, args, n)
        con = self.reg.contracts.get(name)
        if con is not None and not con.inline and name != self.fname or \
                (con is not None and name == self.fname):
            return self.call_contract(con, name, st, args, n)
        if con is not None and con.inline or name in self.reg.inline:
            return self.call_inline(name, st, args, n)
        raise NotSupported("call to %s (line %s): no contract, model or inline mark" % (name, line_of(n)))

    def callee_havoc(self, st, tag, args=(), keep=None, err=None, keep_records=()):
        """a callee may change everything (unless `keep`) -- except this frame's private locals and the engine's
        call trace"""
        priv = self.private_stack(args)
        st.last_callee_raw = None
        st.havoc(tag, keep=keep, err=err, keep_trace=True, keep_stack=priv, keep_records=keep_records)
        if priv and getattr(st, 'last_callee_raw', None) is not None:
            before, lam, fresh = st.last_callee_raw
            privset = {k for k, sym in enumerate(self.stack_syms) if any(sym[0].eq(p[0]) for p in priv)}
            self._callee_raw[lam.get_id()] = (before, privset, lam, fresh)

    def private_stack(self, args=()):
        """this frame's locals whose address is not among the given call arguments (A-STACK: a callee can write a
        caller's local only through an address it is handed; addresses stored in the heap earlier are not tracked)"""
        given = set()
        for a in args:
            if a is not None and z3.is_bv(a) and a.size() == 64:
                sp = self._stack_split(z3.simplify(a)) or self._stack_split(a)
                if sp is not None:
                    given.add(sp[2])
        return [sym for k, sym in enumerate(self.stack_syms) if k not in given]

    def direct_key(self, key):
        """'tmp:calls:<f>' / 'tmp:arg:<f>:<param>' for a callee f whose contract has record_calls: the engine's record of
        the calls the body under verification makes DIRECTLY.  Local bookkeeping of one body: no callee can change it,
        and no callee's post-condition may speak about it (checked at every call site)"""
        if key.startswith('tmp:calls:'):
            f = key[len('tmp:calls:'):]
        elif key.startswith('tmp:arg:'):
            f = key[len('tmp:arg:'):].split(':')[0]
        else:
            return False
        return any(getattr(k, 'record_calls', False) and (k.function or k.name) == f for k in self.reg.contracts.values())

    def record_names(self, names):
        out = []
        for t in names:
            try:
                out.append(self.tu.parse_type(t).name)
            except Exception:
                out.append(t)              # (not a C type: a heap family of the engine, e.g. 'words.ob_item')
        return tuple(out)

    def kept_records_ob(self, st, ref, recs, line, what, kind):
        """obligations: every field heap of the records `recs` is, in state st, the heap it is in state ref (identical
        terms need no solver); a probe heap per record catches a havoc of heaps never touched by name"""
        keys = set(k for k in set(st.fh) | set(ref.fh) if k.split(':')[0] in recs)
        keys |= set('%s:0:8' % r for r in recs)
        for key in sorted(keys):
            x, y = st.heap(key), ref.heap(key)
            if not _same(x, y):
                a = z3.BitVec('kept_p', 64)
                self.ob(kind, line, '%s: field heap %s is unchanged' % (what, key), st, z3.Select(x, a) == z3.Select(y, a),
                        witness={'kept_p': a})

    def direct_keys_all(self):
        out = []
        for k in self.reg.contracts.values():
            if getattr(k, 'record_calls', False):
                f = k.function or k.name
                fd = self.tu.functions.get(f) or self.tu.fundecls.get(f)
                if fd is None:
                    continue
                out.append('tmp:calls:' + f)
                out += ['tmp:arg:%s:%s' % (f, c_['name']) for c_ in fd.get('inner', []) if c_.get('kind') == 'ParmVarDecl' and c_.get('name')]
        return sorted(set(out))

    def _mentions_direct_key(self, e, seen):
        if e.get_id() in seen:
            return None
        seen.add(e.get_id())
        if z3.is_const(e) and e.decl().kind() == z3.Z3_OP_UNINTERPRETED:
            nm = e.decl().name()
            k = nm.find('tmp:')
            if k >= 0 and self.direct_key(nm[k:]):
                return nm
        for ch in e.children():
            r = self._mentions_direct_key(ch, seen)
            if r:
                return r
        if z3.is_quantifier(e):
            return self._mentions_direct_key(e.body(), seen)
        return None

    def call_contract(self, con, name, st, args, n):
        fd = self.tu.functions.get(name) or self.tu.fundecls[name]
        pnames = [c['name'] for c in fd.get('inner', []) if c['kind'] == 'ParmVarDecl']
        argmap = dict(zip(pnames, args))
        self.calls.append(name)
        if con.trusted:
            self.trusted_used.add(name)
        recorded = set()
        if getattr(con, 'record_calls', False):
            # ghost call trace, kept by the engine at the call site: number of calls so far and the arguments of
            # the latest one
            st.ghost['tmp:calls:' + name] = st.gvar('tmp:calls:' + name, B64) + 1
            recorded.add('tmp:calls:' + name)
            for pn, av in argmap.items():
                if av is not None:
                    st.ghost['tmp:arg:%s:%s' % (name, pn)] = av
                    recorded.add('tmp:arg:%s:%s' % (name, pn))
            for pn, nwords in getattr(con, 'record_words', {}).items():
                # the first words of what a pointer argument points to, as they are at the call
                for k_ in range(nwords):
                    key_ = 'tmp:arg:%s:%s[%d]' % (name, pn, k_)
                    st.ghost[key_] = self.load_raw(st, argmap[pn] + BV(8 * k_, 64) if k_ else argmap[pn], 8)
                    recorded.add(key_)
        old = st.copy()
        c = Ctx(self, argmap, old)
        for label, p, extra in _norm(con.pre(c)):
            self.ob('call-requires', line_of(n), "%s:%s" % (name, label), st, p,
                    hyps_extra=getattr(self, 'callers_pre', ()) if extra == 'callers' else ())
            if extra != 'callers':
                st.assume(p)
        rt = self.tu.parse_type(fd['type']['qualType'].split('(')[0].strip())
        res = None
        if rt.kind != 'void':
            res = self.fresh('ret_' + name, sort_of(rt))
        fr = con.frame(c) if not con.pure else Frame()
        pre_call = st.copy() if fr.havoc_if is not None else None
        if fr.raw or fr.all_raw or fr.all_raw_if is not None:
            newraw = self.fresh('raw_after_' + name, z3.ArraySort(B64, B8))
            priv = self.private_stack(args)
            before_call = st.raw
            allraw_fresh = None
            a = z3.BitVec('a!bound', 64)
            mine = z3.Or(*[in_range(a, sa, BV((ssize + 15) // 16 * 16, 64)) for sa, ssize in priv]) if priv else None
            if not fr.all_raw:
                inside = z3.Or(*[in_range(a, lo, nn if z3.is_bv(nn) else BV(nn, 64)) for lo, nn in fr.raw]) \
                    if fr.raw else z3.BoolVal(False)
                if fr.all_raw_if is not None:
                    inside = z3.Or(inside, z3.And(fr.all_raw_if, z3.Not(mine)) if mine is not None else fr.all_raw_if)
                st.raw = z3.Lambda([a], z3.If(inside, z3.Select(newraw, a), z3.Select(st.raw, a)))
            else:
                st.raw = newraw           # (private locals are read through _callee_raw, see State.havoc)
                allraw_fresh = newraw
            if priv and all(self._stack_split(z3.simplify(lo)) is not None or self._outside_frame(lo, 1) >= len(self.stack_syms)
                            for lo, nn in fr.raw):
                # (regions named by the frame are either locals handed to the callee -- not private -- or proved
                #  outside this frame; so a private local reads through this heap as through the one before the call)
                privset = {k for k, sym in enumerate(self.stack_syms) if any(sym[0].eq(p[0]) for p in priv)}
                self._callee_raw[st.raw.get_id()] = (before_call, privset, st.raw, allraw_fresh)
        if fr.all_fields:
            st.havoc('after_' + name, raw=False, fields=True, ghost=False, keep_records=self.record_names(fr.keep_records))
        for f in fr.fields:
            if isinstance(f, tuple):
                t = self.tu.parse_type(f[0])
                _, reckey, off, ft = self.norm_field(BV(0, 64), t.name, f[1])
                key = self.heap_key(reckey, off, ft.bits)
                st.heap(key)
                if len(f) > 2:          # (type, field, object): only that object's field may change
                    nv = self.fresh('F_after_' + name, st.fh[key].sort().range())
                    st.fh[key] = z3.Store(st.fh[key], f[2], nv)
                    continue
            else:
                key = f
            st.fh[key] = self.fresh('H_after_' + name, st.heap(key).sort())
        if fr.err:
            st.err = self.fresh('err_after_' + name, B64)
        for gk in fr.ghost:
            # (a ghost variable the callee may change: arbitrary afterwards, whether or not it was touched before)
            for gk2, srt in self.ghost_keys(st, gk):
                st.ghost[gk2] = self.fresh('g_after_' + name, srt)
        if not con.pure:
            if fr.trace is None:
                # (what the callee adds to the trace of external events is unknown here; the record of the calls THIS
                #  body makes directly is not the callee's to change)
                st.havoc_trace('after_' + name, keep=self.direct_key)
            else:
                for gk in fr.trace:
                    if gk not in recorded and not self.direct_key(gk):
                        for gk2, srt in self.ghost_keys(st, gk):
                            st.ghost[gk2] = self.fresh('g_after_' + name, srt)
        if fr.havoc_if is not None and not self.known(old, z3.Not(fr.havoc_if)):
            self.callee_havoc(st, 'havoc_' + name, args, keep=z3.Not(fr.havoc_if), err=self.fresh('err_havoc_' + name, B64))
        c2 = Ctx(self, argmap, old, st, res)
        for label, q, extra in _norm(con.post(c2)):
            bad = self._mentions_direct_key(q, set())
            if bad:
                raise NotSupported("the post-condition of %s used at a call site speaks about the record of its own direct "
                                   "calls (%s)" % (name, bad))
            st.assume(q)
        for (addr, nb) in con.allocates(c2):
            self.alloc(st, nb, region=addr)
        return res

    GHOST_SORTS = {}          # ghost key -> sort, for ghost variables that are not C globals (registered by contracts)

    def ghost_keys(self, st, gk):
        if gk in st.ghost:
            return [(gk, st.ghost[gk].sort())]
        if 'g:' + gk in st.ghost:
            return [('g:' + gk, st.ghost['g:' + gk].sort())]
        if gk in self.GHOST_SORTS:
            return [(gk, self.GHOST_SORTS[gk])]
        gv = self.tu.globals.get(gk)
        if gv is not None:
            t = self.tu.ctype_of(gv)
            if t.kind in ('int', 'ptr', 'float'):
                return [('g:' + gk, sort_of(t))]
        return [(gk, B64)]

    def call_inline(self, name, st, args, n):
        if self.inline_depth > 6:
            raise NotSupported("inline depth")
        fd = self.tu.functions[name]
        sub = Exec(self.tu, self.reg, name, Contract())
        sub.__dict__.update({k: v for k, v in self.__dict__.items()
                             if k in ('obs', 'global_hyps', '_fresh', '_globals_addr', '_glob_syms', '_glob_symnames', 'stack_syms', '_alias_cache', '_outside_stores', '_callee_raw', 'alias_stats', 'pre_pc',
                                      'raw0', 'err0', 'base_witness', '_names',
                                      'calls', 'trusted_used', 'st0', 'args', 'prune', 'declared_regions',
                                      'fresh_regions', 'access_regions', 'cur_line', 'literals', 'literal_hyps')})
        sub.fname = self.fname + '>' + name
        sub._file = self.fninfo_file()
        sub.fn = fd
        sub.contract = self.reg.contracts.get(name) or Contract()
        sub.inline_depth = self.inline_depth + 1
        sub.prescan(fd)
        body = None
        i = 0
        saved_env = st.env
        st.env = dict(st.env)
        for c in fd['inner']:
            if c['kind'] == 'ParmVarDecl':
                t = self.tu.ctype_of(c)
                sub.decl_types[c['id']] = t
                sub.params[c['name']] = c['id']
                if c['id'] in sub.addr_taken:
                    addr = sub.new_stack(c['name'], t)
                    sub.memlocals[c['id']] = (addr, t)
                    sub.store(st, Loc('mem', t, addr), args[i])
                else:
                    st.env[c['id']] = args[i]
                i += 1
            elif c['kind'] == 'CompoundStmt':
                body = c
        end = sub.exec_stmt(body, st)
        rets = list(sub.returns)
        if end is not None:
            rets.append((end, None, 'end'))
        if not rets:
            raise NotSupported("inlined %s never returns" % name)
        # merge return states, with the result as a pseudo variable
        for (rs, rv, _) in rets:
            if rv is not None:
                rs.env['$ret'] = rv
        m = merge_states([r[0] for r in rets])
        res = m.env.pop('$ret', None)
        m.env = {k: v for k, v in m.env.items() if k in saved_env}
        for k, v in saved_env.items():
            m.env.setdefault(k, v)
        st.take(m)
        self.nloops += sub.nloops
        return res


class Registry:
    def __init__(self):
        self.contracts = {}
        self.models = {}
        self.lazy_models = {}
        self.inline = set()
        self.field_alias = {}
        self._ghosts = {}
        self.assumed = {}       # name -> description of the assumed contract (external functions)

    def fork(self):
        """a registry that starts as a copy of this one: contracts/models replaced in the copy do not affect the
        checks that use the original"""
        r = Registry()
        for k, v in self.__dict__.items():
            setattr(r, k, v.copy() if isinstance(v, (dict, set)) else v)
        r._ghosts = self._ghosts          # ghost function symbols are shared (same names = same functions)
        return r

    def ghost(self, name, *sorts):
        if name not in self._ghosts:
            self._ghosts[name] = z3.Function(name, *sorts)
        return self._ghosts[name]

    def add(self, con):
        c = con() if isinstance(con, type) else con
        self.contracts[c.name] = c
        return con

    def model(self, name, doc=None):
        def deco(fn):
            self.models[name] = fn
            self.assumed[name] = doc or (fn.__doc__ or '').strip()
            return fn
        return deco
