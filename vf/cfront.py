"""C front end: clang's JSON AST of the *real* translation unit.

Every run invokes clang on /repo/src/c/_cffi_backend.c (which #includes every
other file of src/c) with the CFLAGS and include path of the interpreter the
repository is built for, and keeps the FunctionDecls / RecordDecls /
TypedefDecls / EnumDecls.  Nothing here looks at a copy of the code.

What is dropped: attributes, asm, pragmas (never evaluated), and everything the
preprocessor removed (``assert`` under NDEBUG, inactive #if arms).
"""
import hashlib
import json
import os
import re
import subprocess
import sys

REPO = os.environ.get("VERIF_REPO", "/repo")
BACKEND_C = "src/c/_cffi_backend.c"
PY = "/venv/bin/python"


class FrontEndError(Exception):
    pass


_pyinfo_cache = {}


def pyinfo():
    if "v" not in _pyinfo_cache:
        out = subprocess.run(
            [PY, "-c", "import sysconfig;print(sysconfig.get_paths()['include']);"
                       "print(sysconfig.get_config_var('CFLAGS'))"],
            capture_output=True, text=True, check=True).stdout.split("\n")
        _pyinfo_cache["v"] = (out[0].strip(), out[1].strip())
    return _pyinfo_cache["v"]


def clang_args(repo=None):
    inc, cflags = pyinfo()
    if "-fno-strict-overflow" not in cflags.split() and "-fwrapv" not in cflags.split():
        raise FrontEndError("interpreter CFLAGS lack -fno-strict-overflow/-fwrapv: "
                            "signed-wrap semantics assumed by the encoding do not hold")
    return cflags.split() + ["-DFFI_BUILDING=1", "-DUSE__THREAD", "-DHAVE_SYNC_SYNCHRONIZE",
                             "-I" + inc, "-Wno-everything"]


# ---------------------------------------------------------------------------
# C types (LP64, x86-64)

BUILTIN = {
    'char': (1, True), 'signed char': (1, True), 'unsigned char': (1, False),
    'short': (2, True), 'unsigned short': (2, False),
    'int': (4, True), 'unsigned int': (4, False),
    'long': (8, True), 'unsigned long': (8, False),
    'long long': (8, True), 'unsigned long long': (8, False),
    '_Bool': (1, False), '__int128': (16, True), 'unsigned __int128': (16, False),
}
FLOATS = {'float': 4, 'double': 8, 'long double': 16}


class CType:
    """kind in int/ptr/float/record/array/void/func/complex"""
    __slots__ = ('kind', '_size', 'signed', 'target', 'count', 'name', '_align', '_tu')

    def __init__(self, kind, size=0, signed=False, target=None, count=None, name=None, align=None, tu=None):
        self.kind, self._size, self.signed = kind, size, signed
        self.target, self.count, self.name = target, count, name
        self._align = align if align is not None else (size if kind in ('int', 'ptr', 'float') else 1)
        self._tu = tu          # records: size/alignment resolved lazily (pointers to incomplete/recursive records)

    @property
    def size(self):
        if self._tu is not None and self.kind == 'record':
            return self._tu.layout(self.name)[0]
        if self.kind == 'array' and self.target is not None and self.count is not None:
            return self.target.size * self.count
        return self._size

    @property
    def align(self):
        if self._tu is not None and self.kind == 'record':
            return self._tu.layout(self.name)[1]
        if self.kind == 'array' and self.target is not None:
            return self.target.align
        return self._align

    @property
    def bits(self):
        return self.size * 8

    def __repr__(self):
        if self.kind == 'int':
            return "%s%d" % ('i' if self.signed else 'u', self.bits)
        if self.kind == 'ptr':
            return "ptr(%r)" % (self.target,)
        if self.kind == 'array':
            return "%r[%s]" % (self.target, self.count)
        if self.kind == 'record':
            return "rec:%s" % self.name
        return self.kind + (str(self.size) if self.size else '')


VOID = CType('void')
FUNC = CType('func')


class TU:
    def __init__(self, root, path):
        self.path = path
        self.functions = {}      # name -> FunctionDecl with body
        self.fundecls = {}       # name -> any FunctionDecl (for return types)
        self.records = {}        # key -> RecordDecl   key: "struct X" / "union X" / id
        self.record_by_id = {}
        self.typedefs = {}       # name -> qualType string (desugared one step)
        self.enums = {}          # constant name -> int
        self.enum_types = {}     # enum tag -> CType
        self.globals = {}        # name -> VarDecl
        self._layouts = {}
        self._in_progress = set()
        self._types = {}
        self._files = {}
        self._index(root)

    # -- indexing ---------------------------------------------------------
    def _index(self, root):
        state = {'file': None, 'line': None}

        def fix(d):
            # clang omits file/line when unchanged from the previously printed loc
            if isinstance(d, dict):
                if 'offset' in d and 'tokLen' in d or ('offset' in d):
                    if 'file' in d:
                        state['file'] = d['file']
                    if 'line' in d:
                        state['line'] = d['line']
                    d['_file'] = state['file']
                    d['_line'] = state['line']
                for k, v in d.items():
                    if k in ('loc', 'range', 'begin', 'end', 'spellingLoc', 'expansionLoc', 'inner'):
                        fix(v)
            elif isinstance(d, list):
                for x in d:
                    fix(x)

        for top in root['inner']:
            fix(top)
            k = top['kind']
            if k == 'FunctionDecl':
                self.fundecls.setdefault(top['name'], top)
                if any(c.get('kind') == 'CompoundStmt' for c in top.get('inner', [])):
                    self.functions[top['name']] = top
                    self.fundecls[top['name']] = top
                self._scan_local_records(top)
            elif k == 'RecordDecl':
                self._add_record(top)
            elif k == 'TypedefDecl':
                self.typedefs[top['name']] = top
            elif k == 'EnumDecl':
                self._add_enum(top)
            elif k == 'VarDecl':
                if top['name'] not in self.globals or top.get('inner'):
                    self.globals[top['name']] = top

    def _scan_local_records(self, node):
        for c in node.get('inner', []) or []:
            if isinstance(c, dict):
                if c.get('kind') == 'RecordDecl':
                    self._add_record(c)
                elif c.get('kind') == 'EnumDecl':
                    self._add_enum(c)
                self._scan_local_records(c)

    def _add_record(self, top):
        self.record_by_id[top['id']] = top
        if top.get('completeDefinition'):
            tag = top.get('tagUsed', 'struct')
            if top.get('name'):
                self.records[tag + ' ' + top['name']] = top
            # nested record declarations
            for c in top.get('inner', []):
                if c.get('kind') == 'RecordDecl':
                    self._add_record(c)

    def _add_enum(self, top):
        val = -1
        neg = False
        for c in top.get('inner', []):
            if c.get('kind') != 'EnumConstantDecl':
                continue
            v = None
            for e in c.get('inner', []) or []:
                v = self._const_eval(e)
            val = v if v is not None else val + 1
            neg = neg or val < 0
            self.enums[c['name']] = val
        if top.get('name'):
            self.enum_types['enum ' + top['name']] = CType('int', 4, neg)

    def _const_eval(self, e):
        k = e['kind']
        if k == 'ConstantExpr' and 'value' in e:
            return int(e['value'])
        if k in ('ImplicitCastExpr', 'CStyleCastExpr') and e.get('castKind') == 'IntegralCast':
            v = self._const_eval(e['inner'][0])
            t = self.ctype_of(e)
            if t.kind == 'int' and t.size:                 # conversion to an integer type wraps to its range
                bits = 8 * t.size
                v &= (1 << bits) - 1
                if t.signed and v >= 1 << (bits - 1):
                    v -= 1 << bits
            return v
        if k in ('ConstantExpr', 'ParenExpr', 'ImplicitCastExpr', 'CStyleCastExpr'):
            return self._const_eval(e['inner'][0])
        if k == 'ConditionalOperator':
            c, a, b = e['inner']
            return self._const_eval(a) if self._const_eval(c) else self._const_eval(b)
        if k == 'BinaryOperator' and e['opcode'] in ('>', '<', '>=', '<=', '==', '!='):
            a, b = [self._const_eval(x) for x in e['inner']]
            return int({'>': a > b, '<': a < b, '>=': a >= b, '<=': a <= b, '==': a == b, '!=': a != b}[e['opcode']])
        if k in ('IntegerLiteral', 'CharacterLiteral'):
            return int(e['value'])
        if k == 'UnaryExprOrTypeTraitExpr' and e.get('name') == 'sizeof':
            if 'argType' in e:
                t = e['argType']
                return self.parse_type(t.get('desugaredQualType') or t['qualType'], t['qualType']).size
            return self.ctype_of(e['inner'][0]).size
        if k == 'DeclRefExpr':
            return self.enums[e['referencedDecl']['name']]
        if k == 'UnaryOperator' and e['opcode'] == '-':
            return -self._const_eval(e['inner'][0])
        if k == 'BinaryOperator':
            a, b = [self._const_eval(x) for x in e['inner']]
            return {'+': a + b, '-': a - b, '|': a | b, '<<': a << b, '*': a * b}[e['opcode']]
        raise FrontEndError("enum initialiser kind " + k)

    # -- types ------------------------------------------------------------
    def ctype_of(self, node):
        t = node['type']
        if 'desugaredQualType' not in t and t['qualType'].startswith('typeof (') and node.get('kind') == 'VarDecl' \
                and node.get('init') == 'c' and node.get('inner'):
            # `typeof (expr) *x = &(expr)` (Py_CLEAR in CPython 3.12): clang leaves the type sugared; a C initialiser
            # of a pointer variable has the variable's type up to qualifiers
            return self.ctype_of(node['inner'][-1])
        return self.parse_type(t.get('desugaredQualType') or t['qualType'], t['qualType'])

    def parse_type(self, q, alt=None):
        key = q
        if key in self._types:
            return self._types[key]
        try:
            r = self._parse_type(q)
        except FrontEndError:
            if alt is None or alt == q:
                raise
            r = self._parse_type(alt)
        if not self._in_progress:        # sizes seen while a record is being laid out may be placeholders
            self._types[key] = r
        return r

    _quals = re.compile(r'\b(const|volatile|restrict|__restrict)\b')

    def _parse_type(self, q):
        q = self._quals.sub('', q)
        q = re.sub(r'\s+', ' ', q).strip()
        q = q.replace(' *', '*').replace('* ', '*')
        if q.startswith('__attribute__'):
            q = re.sub(r'__attribute__\(\(.*?\)\)', '', q).strip()
        # function pointer / function type
        if '(' in q:
            m = re.match(r'^(.*?)\(\*+\)\(.*\)$', q)
            if m:
                return CType('ptr', 8, False, FUNC)
            m = re.match(r'^(.*?)\(\*\)\[(\d*)\]$', q)     # pointer to array
            if m:
                return CType('ptr', 8, False, self._parse_type(m.group(1).strip() + '[' + m.group(2) + ']'))
            if re.match(r'^[^()]*\(.*\)$', q):
                return FUNC
            raise FrontEndError("type? %r" % q)
        if q.endswith(']'):
            m = re.match(r'^(.*?)((?:\[\d*\])+)$', q)
            base = self._parse_type(m.group(1).strip())
            dims = re.findall(r'\[(\d*)\]', m.group(2))
            t = base
            for dmn in reversed(dims):
                n = int(dmn) if dmn else None
                t = CType('array', (t.size * n) if n is not None else 0, False, t, n, align=t.align)
            return t
        if q.endswith('*'):
            return CType('ptr', 8, False, self._parse_type(q[:-1].strip()) if q[:-1].strip() else VOID)
        if q in BUILTIN:
            s, sg = BUILTIN[q]
            return CType('int', s, sg, name=q)
        if q in FLOATS:
            return CType('float', FLOATS[q], True, name=q)
        if q == 'void':
            return VOID
        if q.startswith('_Complex '):
            b = self._parse_type(q[len('_Complex '):])
            return CType('complex', 2 * b.size, True, b, align=b.align)
        if q.startswith('struct ') or q.startswith('union '):
            q2 = q
            if '(unnamed' in q or '(anonymous' in q:
                raise FrontEndError("anonymous record by name %r" % q)
            if q2 in self.records:
                return CType('record', 0, False, name=q2, tu=self)
            bare = q2.split(' ', 1)[1]
            if bare in self.typedefs:
                return self._parse_type(bare)
            return CType('record', 0, False, name=q2)
        if q.startswith('enum '):
            return self.enum_types.get(q, CType('int', 4, False))
        if q in self.typedefs:
            td = self.typedefs[q]
            t = td['type']
            rid = None
            for c in td.get('inner', []):
                if c.get('kind') in ('ElaboratedType', 'RecordType'):
                    rid = rid or self._find_owned_tag(c)
            if rid and rid in self.record_by_id:
                rec = self.record_by_id[rid]
                if rec.get('name') and rec.get('completeDefinition'):
                    keyname = rec.get('tagUsed', 'struct') + ' ' + rec['name']
                elif rec.get('name'):
                    # forward declaration: find the complete one by name
                    keyname = rec.get('tagUsed', 'struct') + ' ' + rec['name']
                    if keyname not in self.records:
                        return CType('record', 0, False, name=keyname)
                else:
                    keyname = 'typedef ' + q
                    self.records[keyname] = rec
                return CType('record', 0, False, name=keyname, tu=self)
            inner = t.get('desugaredQualType') or t['qualType']
            if self._quals.sub('', inner).strip() == q:
                inner = t['qualType']
                if self._quals.sub('', inner).strip() == q:
                    raise FrontEndError("self-referential typedef %r" % q)
            return self._parse_type(inner)
        if q == '__builtin_va_list' or q == 'va_list':
            return CType('record', 24, False, name='va_list', align=8)
        raise FrontEndError("type? %r" % q)

    def _find_owned_tag(self, node):
        if not isinstance(node, dict):
            return None
        if 'ownedTagDecl' in node:
            return node['ownedTagDecl']['id']
        if node.get('kind') == 'RecordType' and 'decl' in node:
            return node['decl']['id']
        for c in node.get('inner', []) or []:
            r = self._find_owned_tag(c)
            if r:
                return r
        return None

    def record_key(self, ctype):
        return ctype.name

    def layout(self, key):
        """(size, align, {field: (offset, CType, bitfield_width|None)}) under the
        LP64 SysV rule; cross-checked against the compiler by check_layouts()."""
        if key in self._layouts:
            return self._layouts[key]
        rec = self.records[key]
        is_union = rec.get('tagUsed') == 'union'
        off = 0
        align = 1
        size = 0
        fields = {}
        if key in self._in_progress:
            raise FrontEndError("record %s contains itself by value" % key)
        self._in_progress.add(key)
        pending_anon = None
        bitpos = None
        for c in rec.get('inner', []):
            if c.get('kind') == 'RecordDecl':
                self._add_record(c)
                pending_anon = c
                continue
            if c.get('kind') != 'FieldDecl':
                continue
            t = c['type']
            q = t.get('desugaredQualType') or t['qualType']
            if ('(unnamed' in q or '(anonymous' in q) and pending_anon is not None:
                akey = 'anon ' + pending_anon['id']
                self.records[akey] = pending_anon
                ft = CType('record', 0, False, name=akey, tu=self)
                m = re.search(r'((?:\[\d*\])+)$', q)
                if m:
                    for dmn in reversed(re.findall(r'\[(\d*)\]', m.group(1))):
                        n = int(dmn) if dmn else None
                        ft = CType('array', ft.size * (n or 0), False, ft, n, align=ft.align)
            else:
                ft = self.parse_type(q, t['qualType'])
            if c.get('isBitfield'):
                # GCC/SysV packing of bit-fields (non-zero widths): next free bit, moved to the next
                # storage unit of the declared type if the field would straddle one
                width = None
                for e in c.get('inner', []) or []:
                    try:
                        width = self._const_eval(e)
                    except Exception:
                        pass
                if width is None or width <= 0 or is_union or ft.kind != 'int':
                    raise FrontEndError("bit-field shape in record %s not supported by layout()" % key)
                usize = ft.size
                if bitpos is None:
                    bitpos = off * 8
                if bitpos // (8 * usize) != (bitpos + width - 1) // (8 * usize):
                    bitpos = (bitpos + 8 * usize - 1) // (8 * usize) * (8 * usize)
                uoff = bitpos // (8 * usize) * usize
                if c.get('name'):
                    fields[c['name']] = (uoff, ft, (bitpos - 8 * uoff, width))
                bitpos += width
                off = (bitpos + 7) // 8
                size = max(size, uoff + usize)
                align = max(align, ft.align)
                continue
            bitpos = None
            a = ft.align
            if is_union:
                o = 0
            else:
                o = (off + a - 1) // a * a
                off = o + ft.size
            size = max(size, o + ft.size)
            align = max(align, a)
            if c.get('name'):
                fields[c['name']] = (o, ft, None)
            elif ft.kind == 'record':
                # anonymous member: promote its fields
                for fn, (fo, fft, fb) in self.layout(ft.name)[2].items():
                    fields[fn] = (o + fo, fft, fb)
        size = (size + align - 1) // align * align
        self._layouts[key] = (size, align, fields)
        self._in_progress.discard(key)
        return self._layouts[key]

    def record_of_expr_type(self, qual, desugared=None):
        t = self.parse_type(desugared or qual, qual)
        while t.kind in ('ptr', 'array'):
            t = t.target
        if t.kind != 'record':
            raise FrontEndError("not a record: %r" % qual)
        return t

    # -- text -------------------------------------------------------------
    def function_text(self, name):
        f = self.functions[name]
        b, e = f['range']['begin'], f['range']['end']
        b = b.get('expansionLoc', b)
        e = e.get('expansionLoc', e)
        fn = b.get('_file') or self.path
        if fn not in self._files:
            with open(fn, 'rb') as fh:
                self._files[fn] = fh.read()
        return fn, b.get('_line'), e.get('_line'), self._files[fn][b['offset']:e['offset'] + e.get('tokLen', 1)]

    def function_info(self, name):
        fn, l0, l1, txt = self.function_text(name)
        return {'name': name, 'file': os.path.relpath(fn, REPO) if fn.startswith(REPO) else fn,
                'lines': [l0, l1], 'sha256': hashlib.sha256(txt).hexdigest()[:16]}


def line_of(node):
    r = node.get('range', {}).get('begin', {})
    r = r.get('expansionLoc', r)
    return r.get('_line')


def load_tu(path=None, extra_defs=(), repo=None):
    repo = repo or REPO
    path = path or os.path.join(repo, BACKEND_C)
    cmd = ["clang", "-fsyntax-only"] + clang_args() + list(extra_defs) + \
          ["-Xclang", "-ast-dump=json", path]
    p = subprocess.run(cmd, capture_output=True)
    if p.returncode != 0:
        raise FrontEndError("clang failed on %s:\n%s" % (path, p.stderr.decode()[-2000:]))
    root = json.loads(p.stdout)
    return TU(root, path)


def check_layouts(tu, keys, path=None, repo=None):
    """Cross-check our LP64 layout of the records used by contracts against the
    compiler's own offsetof/sizeof (gcc -fsyntax-only on the real TU)."""
    repo = repo or REPO
    path = path or os.path.join(repo, BACKEND_C)
    lines = ['#include "%s"' % path]
    n = 0
    for key in keys:
        if key.startswith('anon '):
            continue
        cname = key[len('typedef '):] if key.startswith('typedef ') else key
        size, align, fields = tu.layout(key)
        lines.append('_Static_assert(sizeof(%s)==%d, "sizeof %s");' % (cname, size, cname))
        n += 1
        for fn, (o, ft, bits_) in fields.items():
            if bits_ is not None:
                continue            # no offsetof for bit-fields (their unit is pinned by the neighbours and sizeof)
            lines.append('_Static_assert(offsetof(%s,%s)==%d, "offsetof %s.%s");' % (cname, fn, o, cname, fn))
            n += 1
    src = "\n".join(lines) + "\n"
    p = subprocess.run(["gcc", "-fsyntax-only", "-x", "c", "-"] + clang_args()[:-1] + ["-w"],
                       input=src.encode(), capture_output=True)
    if p.returncode != 0:
        raise FrontEndError("record layout disagrees with gcc:\n" + p.stderr.decode()[-1500:])
    return n


if __name__ == '__main__':
    import time
    t = time.time()
    tu = load_tu()
    print("loaded %d functions in %.1fs" % (len(tu.functions), time.time() - t))
    for nm in sys.argv[1:]:
        print(tu.function_info(nm))
    keys = []
    for tn in ('CTypeDescrObject', 'CFieldObject', 'CDataObject', 'CDataObject_own_length', 'Py_buffer',
               'CDataObject_gcp', 'cif_description_t', 'FFIObject', 'LibObject', 'builder_c_t'):
        t = tu.parse_type(tn)
        keys.append(t.name)
        print(tn, t.name, tu.layout(t.name)[:2], {k: v[0] for k, v in tu.layout(t.name)[2].items()})
    print(check_layouts(tu, keys))
