"""Obligations, the solver portfolio and verdict mapping.

An obligation is  hyps |- goal.  It is discharged when  hyps /\\ not goal  is
unsat.  sat -> refuted (with a model restricted to the obligation's witness
terms), unknown/timeout -> undecided.  Nothing else is ever mapped to
"refuted".

Portfolio: z3 (in process) with a short first slice; what it leaves open goes
to `z3-new` and `cvc5` CLIs run side by side for the full budget, first decisive
answer wins.  cvc5 is only trusted for `unsat` (a refutation needs z3's model).
Opposite decisive answers from the two solvers are a checker error.
"""
import multiprocessing as mp
import os
import re
import subprocess
import tempfile
import time

import z3

FIRST_SLICE_S = 6


class Ob:
    __slots__ = ('name', 'hyps', 'goal', 'kind', 'fn', 'line', 'witness', 'prop', 'meta')

    def __init__(self, name, hyps, goal, kind='ensures', fn=None, line=None, witness=None, meta=None):
        self.name, self.hyps, self.goal, self.kind = name, list(hyps), goal, kind
        self.fn, self.line = fn, line
        self.witness = witness or {}
        self.meta = meta or {}

    def smt2(self, extra_hyps=(), abstract=False):
        s = z3.Solver()
        fs = list(self.hyps) + list(extra_hyps) + [z3.Not(self.goal)]
        pairs = self.meta.get('subst')
        if pairs:
            # a case of a case split: the case equalities (already among the hypotheses) are also substituted
            pairs = [(t, v if z3.is_expr(v) else z3.BitVecVal(v, t.size())) for t, v in pairs if not z3.is_true(t) and not z3.is_false(t)]
            fs = [z3.simplify(z3.substitute(f, *pairs)) for f in fs] + [t == v for t, v in pairs]
        if abstract:
            cache = {}
            fs2 = [abstract_mul(f, cache) for f in fs]
            if not cache.get('#used'):
                return None
            fs = fs2 + cache.get('#axioms', [])
        for f in fs:
            s.add(f)
        if not abstract:
            for k, t in self.witness.items():
                c = z3.Const('wit!' + k, t.sort())
                s.add(c == t)
        return s.to_smt2()


def abstract_mul(e, cache):
    """replace every bit-vector multiplication of two non-constant terms by an uninterpreted
    function (arguments in a canonical order, so commutativity is kept).  The abstraction has
    more models than the original, so `unsat` of the abstraction is `unsat` of the original."""
    key = e.get_id()
    if key in cache:
        return cache[key]
    if z3.is_app(e):
        kids = [abstract_mul(k, cache) for k in e.children()]
        if e.decl().kind() == z3.Z3_OP_BMUL and len(kids) == 2 and not z3.is_bv_value(kids[0]) \
                and not z3.is_bv_value(kids[1]):
            a, b = kids
            f = z3.Function('mul!%d' % e.size(), a.sort(), b.sort(), e.sort())
            r = f(a, b)
            cache['#used'] = True
            # properties of the real product kept as axioms at this instance: commutativity, x*0, x*1
            one, zero = z3.BitVecVal(1, e.size()), z3.BitVecVal(0, e.size())
            cache.setdefault('#axioms', []).extend([
                r == f(b, a),
                z3.Implies(a == one, r == b), z3.Implies(b == one, r == a),
                z3.Implies(z3.Or(a == zero, b == zero), r == zero)])
        elif kids and any(not k.eq(o) for k, o in zip(kids, e.children())):
            r = e.decl()(*kids)
        else:
            r = e
    elif z3.is_quantifier(e):
        r = e        # left precise (still sound: the real product is one interpretation of mul!)
    else:
        r = e
    cache[key] = r
    return r


def _model_dict(m):
    wit = {}
    for d in m.decls():
        nm = d.name()
        if nm.startswith('wit!'):
            v = m[d]
            try:
                wit[nm[4:]] = v.as_long() if z3.is_bv_value(v) or z3.is_int_value(v) else str(v)
            except Exception:
                wit[nm[4:]] = str(v)
    return wit


def _solve_z3(smt2, timeout_ms, seed=0):
    ctx = z3.Context()
    s = z3.Solver(ctx=ctx)
    s.set('timeout', timeout_ms)
    s.set('random_seed', seed)
    try:
        s.from_string(smt2)
    except z3.Z3Exception as e:
        return 'error', {'msg': str(e)[:300]}
    t = time.time()
    r = s.check()
    dt = time.time() - t
    out = {'time': dt, 'backend': 'z3-' + z3.get_version_string()}
    if r == z3.sat:
        out['model'] = _model_dict(s.model())
        return 'sat', out
    if r == z3.unsat:
        return 'unsat', out
    out['reason'] = s.reason_unknown()
    return 'unknown', out


def _race(smt2, timeout_s, absmt2=None):
    """z3-new and cvc5 CLIs side by side (plus z3-new on the product-abstracted query, where only `unsat` is an
    answer); first decisive answer wins"""
    d = tempfile.mkdtemp(prefix='vc-')
    p1 = os.path.join(d, 'q.smt2')
    wits = re.findall(r'\(declare-fun (wit![^ ]+) ', smt2)
    body = smt2.replace('(check-sat)', '')
    with open(p1, 'w') as f:
        f.write(body + "\n(check-sat)\n")
        if wits:
            f.write("(get-value (%s))\n" % " ".join('|%s|' % w if not w.startswith('|') else w for w in wits))
    p2 = os.path.join(d, 'c.smt2')
    with open(p2, 'w') as f:
        f.write("(set-logic ALL)\n" + body + "\n(check-sat)\n")
    t0 = time.time()
    procs = {
        'z3': subprocess.Popen(['z3-new', '-smt2', '-T:%d' % int(timeout_s), p1], stdout=subprocess.PIPE,
                               stderr=subprocess.DEVNULL, text=True),
        'cvc5': subprocess.Popen(['/usr/bin/cvc5', '--tlimit=%d' % int(timeout_s * 1000), '--strings-exp', p2],
                                 stdout=subprocess.PIPE, stderr=subprocess.DEVNULL, text=True),
    }
    p3 = os.path.join(d, 'a.smt2')
    if absmt2:
        with open(p3, 'w') as f:
            f.write(absmt2.replace('(check-sat)', '') + "\n(check-sat)\n")
        procs['z3abs'] = subprocess.Popen(['z3-new', '-smt2', '-T:%d' % int(timeout_s), p3], stdout=subprocess.PIPE,
                                          stderr=subprocess.DEVNULL, text=True)
    answers = {}
    try:
        while procs and time.time() - t0 < timeout_s + 10:
            for nm in list(procs):
                p = procs[nm]
                if p.poll() is not None:
                    out = p.stdout.read()
                    first = out.strip().split('\n')[0].strip() if out.strip() else 'unknown'
                    answers[nm] = (first if first in ('sat', 'unsat') else 'unknown', out)
                    del procs[nm]
            if answers.get('z3', ('', ''))[0] in ('sat', 'unsat') or answers.get('cvc5', ('', ''))[0] == 'unsat' \
                    or answers.get('z3abs', ('', ''))[0] == 'unsat':
                break
            time.sleep(0.05)
    finally:
        for p in procs.values():
            p.kill()
        for f in (p1, p2, p3):
            try:
                os.unlink(f)
            except OSError:
                pass
        os.rmdir(d)
    dt = time.time() - t0
    za, ca = answers.get('z3', ('unknown', ''))[0], answers.get('cvc5', ('unknown', ''))[0]
    if {za, ca} == {'sat', 'unsat'}:
        return 'error', {'msg': 'solvers disagree: z3=%s cvc5=%s' % (za, ca), 'time': dt}
    if za == 'unsat':
        return 'unsat', {'time': dt, 'backend': 'z3-new-cli'}
    if answers.get('z3abs', ('', ''))[0] == 'unsat' and za != 'sat':
        return 'unsat', {'time': dt, 'backend': 'z3-new-cli (nonlinear products abstracted by an uninterpreted function)'}
    if ca == 'unsat':
        return 'unsat', {'time': dt, 'backend': 'cvc5-1.0.3'}
    if za == 'sat':
        model = {}
        for m in re.finditer(r'\(\|?(wit![^ |)]+)\|? (#x[0-9a-fA-F]+|#b[01]+|\(- \d+\)|\d+|true|false)\)', answers['z3'][1]):
            v = m.group(2)
            if v.startswith('#x'):
                val = int(v[2:], 16)
            elif v.startswith('#b'):
                val = int(v[2:], 2)
            elif v.startswith('(-'):
                val = -int(v[3:-1])
            elif v in ('true', 'false'):
                val = v
            else:
                val = int(v)
            model[m.group(1)[4:]] = val
        return 'sat', {'time': dt, 'backend': 'z3-new-cli', 'model': model}
    return 'unknown', {'time': dt, 'backend': 'z3+cvc5', 'reason': 'budget exhausted (cvc5: %s)' % ca}


def _worker(job):
    """phase 1: z3 in process for a short slice (one thread per obligation)"""
    idx, smt2, timeout_ms, absmt2 = job
    try:
        first = min(timeout_ms, FIRST_SLICE_S * 1000)
        if absmt2:
            r, info = _solve_z3(absmt2, first)
            if r == 'unsat':
                info['backend'] += ' (nonlinear products abstracted by an uninterpreted function)'
                return idx, r, info
        r, info = _solve_z3(smt2, first)
        return idx, r, info
    except Exception as e:   # never a verdict
        return idx, 'error', {'msg': repr(e)[:300]}


def _worker2(job):
    """phase 2: what phase 1 left open goes to the CLI portfolio (up to three solver processes per obligation, so only
    cores/3 obligations are raced at a time: the wall-clock budgets stay meaningful on a busy machine)"""
    idx, smt2, timeout_ms, absmt2, spent = job
    try:
        r2, info2 = _race(smt2, max(1.0, timeout_ms / 1000.0 - spent), absmt2)
        info2['time'] = info2.get('time', 0) + spent
        return idx, r2, info2
    except Exception as e:
        return idx, 'error', {'msg': repr(e)[:300]}


def discharge(obs, timeout_s=30, procs=None, extra_hyps=(), use_cvc5=True):
    """returns list of (ob, verdict, info) ; verdict in discharged/refuted/undecided/error"""
    procs = procs or min(16, os.cpu_count() or 4)
    jobs = []
    for i, ob in enumerate(obs):
        jobs.append((i, ob.smt2(extra_hyps), int(timeout_s * 1000), ob.smt2(extra_hyps, abstract=True)))
    results = [None] * len(obs)
    if len(jobs) <= 1 or procs == 1:
        outs = [_worker(j) for j in jobs]
    else:
        with mp.get_context('fork').Pool(min(procs, len(jobs))) as pool:
            outs = pool.map(_worker, jobs, chunksize=1)
    left = [(idx, jobs[idx][1], jobs[idx][2], jobs[idx][3], info.get('time', 0)) for idx, r, info in outs
            if r == 'unknown' and jobs[idx][2] > FIRST_SLICE_S * 1000]
    if left:
        per = 3 if any(j[3] for j in left) else 2        # solver processes per raced obligation
        racers = max(1, min(len(left), (os.cpu_count() or 4) // per, procs))
        if racers == 1:
            outs2 = [_worker2(j) for j in left]
        else:
            with mp.get_context('fork').Pool(racers) as pool:
                outs2 = pool.map(_worker2, left, chunksize=1)
        byidx = {o[0]: o for o in outs2}
        outs = [byidx.get(o[0], o) for o in outs]
    vm = {'unsat': 'discharged', 'sat': 'refuted', 'unknown': 'undecided', 'error': 'error'}
    for idx, r, info in outs:
        results[idx] = (obs[idx], vm[r], info)
    return results
