"""Obligations, the solver portfolio and verdict mapping.

An obligation is  hyps |- goal.  It is discharged when  hyps /\\ not goal  is
unsat.  sat -> refuted (with a model restricted to the obligation's witness
terms), unknown/timeout -> undecided.  Nothing else is ever mapped to
"refuted".
"""
import multiprocessing as mp
import os
import subprocess
import tempfile
import time

import z3


class Ob:
    __slots__ = ('name', 'hyps', 'goal', 'kind', 'fn', 'line', 'witness', 'prop', 'meta')

    def __init__(self, name, hyps, goal, kind='ensures', fn=None, line=None, witness=None, meta=None):
        self.name, self.hyps, self.goal, self.kind = name, list(hyps), goal, kind
        self.fn, self.line = fn, line
        self.witness = witness or {}
        self.meta = meta or {}

    def smt2(self, extra_hyps=()):
        s = z3.Solver()
        for h in self.hyps:
            s.add(h)
        for h in extra_hyps:
            s.add(h)
        s.add(z3.Not(self.goal))
        for k, t in self.witness.items():
            c = z3.Const('wit!' + k, t.sort())
            s.add(c == t)
        return s.to_smt2()


def _solve_z3(smt2, timeout_ms, seed=0):
    ctx = z3.Context()
    s = z3.Solver(ctx=ctx)
    s.set('timeout', timeout_ms)
    s.set('random_seed', seed)
    try:
        s.from_string(smt2)
    except z3.Z3Exception as e:
        return 'error', {'msg': str(e)[:300]}
    t = time.time()
    r = s.check()
    dt = time.time() - t
    out = {'time': dt, 'backend': 'z3-' + z3.get_version_string()}
    if r == z3.sat:
        m = s.model()
        wit = {}
        for d in m.decls():
            nm = d.name()
            if nm.startswith('wit!'):
                v = m[d]
                try:
                    wit[nm[4:]] = v.as_long() if z3.is_bv_value(v) or z3.is_int_value(v) else str(v)
                except Exception:
                    wit[nm[4:]] = str(v)
        out['model'] = wit
        return 'sat', out
    if r == z3.unsat:
        return 'unsat', out
    out['reason'] = s.reason_unknown()
    return 'unknown', out


def _solve_cvc5(smt2, timeout_ms):
    with tempfile.NamedTemporaryFile('w', suffix='.smt2', delete=False) as f:
        f.write("(set-logic ALL)\n" + smt2)
        path = f.name
    t = time.time()
    try:
        p = subprocess.run(['/usr/bin/cvc5', '--tlimit=%d' % timeout_ms, '--strings-exp', path],
                           capture_output=True, text=True, timeout=timeout_ms / 1000 + 5)
        res = p.stdout.strip().split('\n')[0] if p.stdout.strip() else 'unknown'
    except subprocess.TimeoutExpired:
        res = 'unknown'
    finally:
        os.unlink(path)
    return (res if res in ('sat', 'unsat') else 'unknown'), {'time': time.time() - t, 'backend': 'cvc5-1.0.3'}


def _worker(job):
    idx, smt2, timeout_ms, use_cvc5 = job
    try:
        r, info = _solve_z3(smt2, timeout_ms)
        if r == 'unknown' and use_cvc5:
            r2, info2 = _solve_cvc5(smt2, timeout_ms)
            if r2 == 'unsat':
                # cvc5 decides what z3 left open (never lets cvc5 *refute*: no model to replay)
                info2['time'] += info.get('time', 0)
                return idx, r2, info2
        return idx, r, info
    except Exception as e:   # never a verdict
        return idx, 'error', {'msg': repr(e)[:300]}


def discharge(obs, timeout_s=30, procs=None, extra_hyps=(), use_cvc5=True):
    """returns list of (ob, verdict, info) ; verdict in discharged/refuted/undecided/error"""
    procs = procs or min(16, os.cpu_count() or 4)
    jobs = []
    for i, ob in enumerate(obs):
        jobs.append((i, ob.smt2(extra_hyps), int(timeout_s * 1000), use_cvc5))
    results = [None] * len(obs)
    if len(jobs) <= 1 or procs == 1:
        outs = [_worker(j) for j in jobs]
    else:
        with mp.get_context('fork').Pool(min(procs, len(jobs))) as pool:
            outs = pool.map(_worker, jobs, chunksize=1)
    vm = {'unsat': 'discharged', 'sat': 'refuted', 'unknown': 'undecided', 'error': 'error'}
    for idx, r, info in outs:
        results[idx] = (obs[idx], vm[r], info)
    return results
