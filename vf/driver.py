"""Property driver: generate obligations from the current /repo sources, discharge
them, map verdicts to exit codes (0 held / 1 violation / 2 undecided / 3 checker
error), replay counter-models, write evidence/<id>.json.
"""
import importlib
import json
import os
import sys
import time
import traceback

import z3

from . import cfront, smt
from .cexec import Exec, NotSupported, Contract

VERIF = os.path.dirname(os.path.dirname(os.path.abspath(__file__)))
OUT = os.environ.get('VERIF_OUT', VERIF)      # canaries redirect evidence/replays to a scratch directory


class Report:
    def __init__(self, pid, tier, seed):
        self.pid, self.tier, self.seed = pid, tier, seed
        self.t0 = time.time()
        self.functions = []       # function_info dicts
        self.results = []         # (ob, verdict, info)
        self.lemmas = []
        self.assumptions = []
        self.trusted = []
        self.bounded = []
        self.notes = []
        self.errors = []
        self.covers = {'checked': 0, 'sat': 0}
        self.known = []
        self.violations = []
        self.extra = {}

    def counts(self):
        d = {'discharged': 0, 'refuted': 0, 'undecided': 0, 'error': 0}
        for _, v, _ in self.results:
            d[v] += 1
        return d


def gen_c_obligations(tu, R, names, rep, only=None):
    """run the VC generator on each named function with its contract"""
    all_obs = []
    for nm in names:
        con = R.contracts.get(nm)
        if con is None:
            rep.errors.append("no contract for %s" % nm)
            continue
        cname, nm = nm, (con.function or nm)
        if nm not in tu.functions:
            rep.errors.append("function %s not found in the translation unit (renamed or removed?)" % nm)
            continue
        ex = Exec(tu, R, nm, con)
        if cname != nm:
            ex.fninfo_file()
            ex.fname = cname.replace('#', ':')
        try:
            obs = ex.run()
        except NotSupported as e:
            rep.errors.append("%s: outside the supported subset: %s" % (nm, e))
            continue
        except cfront.FrontEndError as e:
            rep.errors.append("%s: front end: %s" % (nm, e))
            continue
        info = tu.function_info(nm)
        info.update({'obligations': len(obs), 'loops': ex.nloops, 'callee_contracts': sorted(set(ex.calls)),
                     'paths_pruned_infeasible': ex.pruned, 'returns': len(ex.returns),
                     'frame_alias_lemmas': dict(ex.alias_stats)})
        rep.functions.append(info)
        # vacuity: precondition satisfiable, every return reachable
        covers = [smt.Ob("%s:%s:cover:pre" % (info['file'].split('/')[-1], nm), ex.global_hyps + ex.pre_pc,
                         z3.BoolVal(False), kind='cover', fn=nm)]
        for (rst, rv, rl) in ex.returns:
            covers.append(smt.Ob("%s:%s:L%s:cover:return" % (info['file'].split('/')[-1], nm, rl),
                                 ex.global_hyps + list(rst.pc), z3.BoolVal(False), kind='cover', fn=nm))
        if not obs:
            rep.errors.append("%s generated zero obligations" % nm)
        ex.obs_covers = covers
        all_obs.append((nm, obs, covers, ex))
        for m in sorted(set(R.assumed) & set(_called_models(ex))):
            pass
    return all_obs


def _called_models(ex):
    return []


def run_obligations(rep, obs, timeout_s, covers=()):
    # covers are vacuity guards (satisfiability of preconditions / reachability of returns): a short budget of their
    # own -- with quantified invariants a `sat` answer needs a model and can take the solvers very long; an undecided
    # cover is reported in the notes and is not a verdict
    res = smt.discharge(list(obs), timeout_s=timeout_s) + smt.discharge(list(covers), timeout_s=min(30, timeout_s))
    # second chance for what the budget left open (a loaded machine stretches every query): only those few,
    # few at a time, with a doubled budget.  A verdict is only ever upgraded from undecided.
    again = [k for k, (ob, v, _i) in enumerate(res) if v == 'undecided' and ob.kind != 'cover']
    if again and len(again) <= 8:
        res2 = smt.discharge([res[k][0] for k in again], timeout_s=2 * timeout_s, procs=min(4, len(again)))
        for k, r2 in zip(again, res2):
            r2[2]['retried'] = True
            r2[2]['time'] = r2[2].get('time', 0) + res[k][2].get('time', 0)
            res[k] = r2
        rep.notes.append("%d obligation(s) left open by the first pass were retried with a doubled budget" % len(again))
    for ob, verdict, info in res:
        if ob.kind == 'cover':
            rep.covers['checked'] += 1
            if verdict == 'refuted':          # sat = reachable
                rep.covers['sat'] += 1
            elif verdict == 'discharged':
                rep.errors.append("vacuity: %s is unreachable (contradictory precondition or dead return)" % ob.name)
            # undecided covers are reported but not fatal
            else:
                rep.notes.append("cover undecided: " + ob.name)
        else:
            rep.results.append((ob, verdict, info))


def clause_covers(obs):
    """vacuity guard behind every conditional clause: for a clause  A ==> B  (post-condition, loop-body contract,
    ...) at least one of the places where it is proved must have  path-condition and A  satisfiable.  Returns
    {clause: [cover obligations, one per place]}"""
    groups = {}
    for o in obs:
        if o.kind in ('cover', 'lemma', 'flow', 'frame', 'memory', 'ub', 'unwind', 'declaration', 'loop-entry', 'call-requires') or not z3.is_app(o.goal) or o.goal.decl().kind() != z3.Z3_OP_IMPLIES:
            continue
        ant = o.goal.arg(0)
        if z3.is_true(ant):
            continue
        import re
        key = re.sub(r'#\d+$', '', strip_line(o.name))      # (the same clause at several returns of one line)
        cov = smt.Ob(o.name + ':cover:antecedent', list(o.hyps) + [ant], z3.BoolVal(False), kind='cover', fn=o.fn,
                     meta={'subst': o.meta['subst']} if o.meta.get('subst') else None)
        groups.setdefault(key, []).append(cov)
    return groups


def run_clause_covers(rep, groups, budget=10):
    """round 1: up to three places per clause; round 2: all remaining places of the clauses still open"""
    state = {k: 'open' for k in groups}
    tried = {k: 0 for k in groups}
    verdicts = {}
    nq = 0
    t0 = time.time()
    for rnd in (1, 2):
        batch = []
        for k, covs in groups.items():
            if state[k] == 'open':
                take = covs[tried[k]:tried[k] + 3] if rnd == 1 else covs[tried[k]:]
                if rnd == 1 and len(covs) > 3:      # spread: first, middle, last
                    take = [covs[0], covs[len(covs) // 2], covs[-1]]
                    groups[k] = covs = take + [c for c in covs if all(c is not t for t in take)]
                tried[k] += len(take)
                batch += [(k, c) for c in take]
        if not batch:
            break
        res = smt.discharge([c for _k, c in batch], timeout_s=budget)
        nq += len(batch)
        for (k, _c), (_ob, v, _i) in zip(batch, res):
            verdicts.setdefault(k, []).append(v)
        for k, vs in verdicts.items():
            if 'refuted' in vs:                 # sat: reachable
                state[k] = 'reachable'
            elif tried[k] >= len(groups[k]):
                state[k] = 'vacuous' if all(v == 'discharged' for v in vs) else 'undecided'
    for k in groups:
        if state[k] == 'open':
            state[k] = 'undecided'
    rep.covers['clauses'] = len(groups)
    rep.covers['clauses_reachable'] = sum(1 for v in state.values() if v == 'reachable')
    rep.covers['clause_queries'] = nq
    rep.covers['clause_time_s'] = round(time.time() - t0, 1)
    for k, v in sorted(state.items()):
        if v == 'vacuous':
            rep.errors.append("vacuity: the antecedent of clause %s is unreachable wherever the clause is proved" % k)
        elif v == 'undecided':
            rep.notes.append("clause antecedent not shown reachable (solver budget): " + k)
    return state


def load_known(pid):
    p = os.path.join(VERIF, 'known_findings.json')
    if not os.path.exists(p):
        return []
    data = json.load(open(p))
    return [e for e in data.get('findings', []) if e.get('property') == pid and e.get('status') == 'open']


def strip_line(name):
    import re
    return re.sub(r':L[0-9a-z]+:', ':', name)


def apply_known(rep, obs):
    """For an obligation covered by a recorded finding, prove  not(condition) ==> goal:
    any *other* violation of the same obligation is still refuted and reported."""
    known = load_known(rep.pid)
    rep._known_entries = known
    rep._known_hit = {}
    for ob in obs:
        for e in known:
            pat = e.get('obligation')
            if pat and pat in strip_line(ob.name):
                ns = dict(ob.witness)
                ns.update({'z3': z3, 'BV': z3.BitVecVal})
                try:
                    cond = eval(e['condition'], {'__builtins__': {}}, ns)
                except Exception as ex:
                    rep.errors.append("known finding %s: cannot evaluate condition on %s: %r" % (e['id'], ob.name, ex))
                    continue
                ob.hyps.append(z3.Not(cond))
                ob.meta.setdefault('known', []).append(e['id'])
                rep._known_hit.setdefault(e['id'], []).append(ob.name)


def confirm_known(rep):
    """each listed finding is replayed on the real build: it must still fail"""
    from . import replay
    for e in getattr(rep, '_known_entries', []):
        wpath = os.path.join(VERIF, e['witness_script']) if e.get('witness_script') else None
        if wpath and os.path.exists(wpath):
            try:
                rc, out = replay.run_script(wpath)
            except Exception as ex:
                rep.errors.append("known finding %s: replay failed to run: %r" % (e['id'], ex))
                continue
            if rc == 1 and 'FAIL' in out:
                rep.known.append("%s: %s" % (e['id'], e['what']))
            elif rc == 0:
                rep.notes.append("known finding %s no longer reproduces on this tree (fixed?)" % e['id'])
            else:
                rep.errors.append("known finding %s: witness script error rc=%s: %s" % (e['id'], rc, out[-300:]))
        else:
            rep.known.append("%s: %s" % (e['id'], e['what']))


def finish(rep, level='proof', technique='', trusted_base=(), checker_cmd='', explanation=None, samples=None,
           concretise=None):
    """verdict -> exit code, evidence file, VIOLATION / KNOWN-FINDING lines"""
    from . import replay
    cnt = rep.counts()
    nobs = len(rep.results)
    refuted = [(o, i) for o, v, i in rep.results if v == 'refuted']
    undecided = [o for o, v, i in rep.results if v in ('undecided', 'error')]
    os.makedirs(os.path.join(OUT, 'replays'), exist_ok=True)
    vio_lines = []
    seen_scripts = {}
    for k, (o, info) in enumerate(refuted):
        script = None
        if concretise is not None:
            try:
                script = concretise(o, info.get('model', {}))
            except Exception as ex:
                rep.notes.append("concretiser failed for %s: %r" % (o.name, ex))
        header = "property %s\nfailed obligation: %s\nsolver: %s\ncounter-model: %s" % (
            rep.pid, o.name, info.get('backend'), json.dumps(info.get('model', {}), sort_keys=True))
        if script is not None:
            if script in seen_scripts:
                rp, rc, out = seen_scripts[script]
            else:
                rp = replay.write_replay(rep.pid, k, header, script)
                try:
                    rc, out = replay.run_script(rp)
                except Exception as ex:
                    rc, out = 99, repr(ex)
                seen_scripts[script] = (rp, rc, out)
            crashed = rc < 0 or rc in (134, 139)     # the real code died on a signal (abort / segfault) during the replay
            if crashed:
                out = "FAIL the real code crashed during the replay (exit status %s): %s" % (
                    rc, out.strip().split('\n')[-1][:120] if out.strip() else '')
            if (rc == 1 and 'FAIL' in out) or crashed:      # a Python traceback (rc 1, no FAIL line) confirms nothing
                fail = [l for l in out.strip().split('\n') if l.startswith('FAIL')]
                vio_lines.append("VIOLATION property=%s replay=%s obligation=%s :: %s"
                                 % (rep.pid, rp, o.name, (fail or [out.strip().split('\n')[-1]])[0][:200]))
                continue
            with open(rp, 'a') as f:
                f.write("\n# replay on the real build: rc=%s (counter-model did not reproduce)\n# %s\n"
                        % (rc, out.strip().replace('\n', '\n# ')[-1500:]))
        else:
            rp = os.path.join(OUT, 'replays', '%s-%d.txt' % (rep.pid, k))
            with open(rp, 'w') as f:
                f.write(header + "\n(no concretiser maps this obligation's model to an API-level input)\n")
        vio_lines.append("VIOLATION property=%s replay=%s obligation=%s no-failing-input-found"
                         % (rep.pid, rp, o.name))
    for v in rep.violations:
        vio_lines.append(v)
    unreach = [e for e in rep.errors if 'outside the supported' in e or 'front end' in e or 'not found in' in e]
    if unreach and not vio_lines and concretise is not None:
        # A function under contract could not be brought within the verifier's reach on THIS tree (it could on the
        # unchanged one), so its obligations are undecided.  The property's replay battery is then run against the
        # real build: a failing input is a demonstrated violation (reported with the obligation group that could
        # not be re-established); a passing battery decides nothing and the run stays a checker error (exit 3).
        try:
            script = concretise(None, {})
        except Exception:
            script = None
        if script:
            what = unreach[0].split(':')[0]
            header = "property %s\nobligations of %s could not be generated: %s" % (rep.pid, what, unreach[0])
            rp = replay.write_replay(rep.pid, 900, header, script)
            try:
                rc, out = replay.run_script(rp)
            except Exception as ex:
                rc, out = 99, repr(ex)
            crashed = rc < 0 or rc in (134, 139)
            if (rc == 1 and 'FAIL' in out) or crashed:
                fail = [l for l in out.strip().split('\n') if l.startswith('FAIL')] or \
                       ["FAIL the real code crashed during the replay (exit status %s)" % rc]
                vio_lines.append("VIOLATION property=%s replay=%s obligation=%s:contract-cannot-be-re-established[%s] :: %s"
                                 % (rep.pid, rp, what, unreach[0][:120], fail[0][:200]))
            rep.notes.append("replay battery run because of a checker error: rc=%s" % rc)
    if getattr(rep, '_known_entries', None):
        confirm_known(rep)
    for kf in rep.known:
        print("KNOWN-FINDING: property=%s %s" % (rep.pid, kf))
    code = 0
    if vio_lines:
        code = 1
    elif rep.errors:
        code = 3
    elif undecided:
        code = 2
    ev = {
        'property_id': rep.pid, 'tier': rep.tier, 'seed': rep.seed, 'level': level,
        'wall_s': round(time.time() - rep.t0, 2),
        'violations': len(vio_lines),
        'coverage': {
            'obligations': nobs, 'discharged': cnt['discharged'],
            'refuted': cnt['refuted'], 'undecided': cnt['undecided'] + cnt['error'],
            'checker_cmd': checker_cmd or ('./check %s --tier %s' % (rep.pid, rep.tier)),
            'trusted_base': list(trusted_base),
            'functions_under_contract': rep.functions,
            'lemmas': rep.lemmas,
            'covers': rep.covers,
            'bounded_stand_ins': rep.bounded,
            'backends': _backends(rep),
            'solver_seconds': round(sum(i.get('time', 0) for _, _, i in rep.results), 2),
            'slowest_obligations': [[o.name, round(i.get('time', 0), 1), i.get('backend', '?')] for o, _, i in
                                    sorted(rep.results, key=lambda r: -r[2].get('time', 0))[:5]],
            'samples': samples or [o.name for o, _, _ in rep.results[:12]],
            'obligation_verdicts': {o.name: v for o, v, _ in rep.results},
            'known_findings_printed': rep.known,
            'checker_errors': rep.errors,
            'notes': rep.notes,
            'technique': technique,
        },
        'assumptions': rep.assumptions,
    }
    if explanation:
        ev['coverage']['explanation'] = explanation
    ev['coverage'].update(rep.extra)
    os.makedirs(os.path.join(OUT, 'evidence'), exist_ok=True)
    json.dump(ev, open(os.path.join(OUT, 'evidence', rep.pid + '.json'), 'w'), indent=1)
    print("%s tier=%s obligations=%d discharged=%d refuted=%d undecided=%d covers=%d/%d errors=%d wall=%.1fs"
          % (rep.pid, rep.tier, nobs, cnt['discharged'], cnt['refuted'], cnt['undecided'] + cnt['error'],
             rep.covers['sat'], rep.covers['checked'], len(rep.errors), time.time() - rep.t0))
    for e in rep.errors:
        print("CHECKER-ERROR: " + e)
    for o in undecided:
        print("UNDECIDED: " + o.name)
    for ln in vio_lines:
        print(ln)
    return code


def _backends(rep):
    d = {}
    for _, v, i in rep.results:
        b = i.get('backend', '?')
        d[b] = d.get(b, 0) + 1
    return d


BASE_TRUSTED = [
    "T-CLANG: clang-14 AST/types of the real translation unit equal gcc's view (record layouts cross-checked with gcc on every run)",
    "T-SMT: z3 5.1 / cvc5 1.0.3 soundness",
    "T-GEN: the C verification-condition generator vf/cexec.py (two's-complement wrap under -fno-strict-overflow, "
    "GCC shift semantics, field-heap + byte-heap memory model under type safety and A-SEP; partial correctness: "
    "termination is not verified)",
    "T-API: assumed contracts of CPython C-API / libc functions (contracts/c/base.py), each listed under assumptions",
    "A-PYINT: Python ints abstracted by (value saturated to 80 bits, value mod 2^64) -- exact for these functions",
    "A-ALLOC: object allocation does not fail; A-REFCNT: reference counts not modelled",
]


def run_c_property(pid, tier, seed, R, funcs, lemmas=(), concretise=None, trusted=(), technique='',
                   layout_types=('CTypeDescrObject', 'CFieldObject', 'PyObject', 'PyTypeObject', 'CDataObject'),
                   extra=None, more=None, level='proof', explanation=None, quick_budget=120, thorough_budget=900, tu=None):
    rep = Report(pid, tier, seed)
    tu = tu or cfront.load_tu()
    try:
        keys = [tu.parse_type(t).name for t in layout_types]
        rep.extra['record_layout_asserts_checked_with_gcc'] = cfront.check_layouts(tu, keys)
    except cfront.FrontEndError as e:
        rep.errors.append(str(e))
    budget = quick_budget if tier == 'quick' else thorough_budget
    gens = gen_c_obligations(tu, R, funcs, rep)
    obs, covers = [], []
    used_models = set()
    for nm, o, c, ex in gens:
        obs += o
        covers += c
    lem = list(lemmas() if callable(lemmas) else lemmas)
    rep.lemmas = [o.name for o in lem]
    obs += lem
    if more:
        try:
            o2, c2 = more(rep, tu)
            obs += o2
            covers += c2
        except (NotSupported, cfront.FrontEndError) as e:
            rep.errors.append("additional obligations: %s" % e)
    apply_known(rep, obs)
    run_obligations(rep, obs, budget, covers)
    rep.assumptions = list(BASE_TRUSTED) + list(trusted) + \
        ["assumed contract: %s -- %s" % (k, v) for k, v in sorted(R.assumed.items())]
    if extra:
        extra(rep, tu)
    return finish(rep, level=level, trusted_base=list(BASE_TRUSTED) + list(trusted), concretise=concretise,
                  technique=technique, explanation=explanation)


def check_lean(rep, relpath):
    """re-check a lemma file with lean (Mathlib); errors are checker errors, never verdicts"""
    import subprocess
    t = time.time()
    try:
        p = subprocess.run(['lean', os.path.join(VERIF, relpath)], capture_output=True, text=True, timeout=1800,
                           cwd=VERIF)
        ok = p.returncode == 0 and 'error' not in p.stdout and 'sorry' not in p.stdout
        rep.lemmas.append({'file': relpath, 'checker': 'lean 4 + Mathlib', 'ok': ok, 'seconds': round(time.time() - t, 1)})
        if not ok:
            rep.errors.append("lean rejected %s: %s" % (relpath, (p.stdout + p.stderr)[-400:]))
    except Exception as e:
        rep.errors.append("lean could not be run on %s: %r" % (relpath, e))


PY_TRUSTED = [
    "T-SMT: z3 5.1 / cvc5 1.0.3 soundness",
    "T-GEN(py): the Python verification-condition generator vf/pyexec.py implements A-PY (ints = mathematical "
    "integers, str = sequences of code points, exceptions as control flow, known-length containers; see its "
    "docstring); anything outside the subset stops the check with exit 3",
    "the source text is re-read from /repo/src/cffi with ast.parse on every run; contracts are sidecar files",
]


def gen_py_obligations(rep, items):
    """items: (source path relative to the repo, PyRegistry, qualified function name, contract)"""
    import hashlib
    from . import pyexec
    obs, covers = [], []
    for rel, reg, qual, con in items:
        path = os.path.join(cfront.REPO, rel)
        try:
            ex = pyexec.PyExec(path, reg)
            outs = ex.run(qual, con)
        except pyexec.PyNotSupported as e:
            rep.errors.append("%s:%s: outside the supported Python subset: %s" % (rel, qual, e))
            continue
        except (OSError, SyntaxError) as e:
            rep.errors.append("%s: cannot read/parse: %r" % (rel, e))
            continue
        fn = ex.find(qual)
        seg = ast_segment(ex.src, fn)
        rep.functions.append({'name': qual, 'file': rel, 'lines': [fn.lineno, fn.end_lineno],
                              'sha256': hashlib.sha256(seg.encode()).hexdigest()[:16],
                              'obligations': len(ex.obs), 'paths': len(outs),
                              'paths_pruned_infeasible': ex.pruned})
        if not ex.obs:
            rep.errors.append("%s:%s generated zero obligations" % (rel, qual))
        obs += ex.obs
        for k, o in enumerate(outs):
            covers.append(smt.Ob("%s:%s:path%d:cover" % (os.path.basename(rel), qual, k), list(o.st.pc),
                                 z3.BoolVal(False), kind='cover', fn=qual))
    return obs, covers


def ast_segment(src, node):
    lines = src.split('\n')
    return '\n'.join(lines[node.lineno - 1:node.end_lineno])


def run_property(pid, tier, seed, c_part=None, py_items=(), lemmas=(), concretise=None, trusted=(), technique='',
                 extra=None, more=None, level='proof', explanation=None, quick_budget=120, thorough_budget=900,
                 layout_types=('CTypeDescrObject', 'PyObject', 'PyTypeObject', 'CDataObject')):
    """generic driver: C functions (registry, names), Python functions, lemmas"""
    rep = Report(pid, tier, seed)
    budget = quick_budget if tier == 'quick' else thorough_budget
    obs, covers = [], []
    tu = None
    base = []
    if c_part:
        R, funcs = c_part
        tu = cfront.load_tu()
        try:
            keys = [tu.parse_type(t).name for t in layout_types]
            rep.extra['record_layout_asserts_checked_with_gcc'] = cfront.check_layouts(tu, keys)
        except cfront.FrontEndError as e:
            rep.errors.append(str(e))
        for nm, o, c, ex in gen_c_obligations(tu, R, funcs, rep):
            obs += o
            covers += c
        base += BASE_TRUSTED
        rep.assumptions += ["assumed contract: %s -- %s" % (k, v) for k, v in sorted(R.assumed.items())]
    if py_items:
        o, c = gen_py_obligations(rep, py_items)
        obs += o
        covers += c
        base += [t for t in PY_TRUSTED if t not in base]
    lem = list(lemmas() if callable(lemmas) else lemmas)
    rep.lemmas = [o.name for o in lem]
    obs += lem
    if more:
        try:
            o2, c2 = more(rep, tu)
            obs += o2
            covers += c2
        except (NotSupported, cfront.FrontEndError) as e:
            rep.errors.append("additional obligations: %s" % e)
    groups = clause_covers(obs)
    apply_known(rep, obs)
    run_obligations(rep, obs, budget, covers)
    if os.environ.get('VERIF_CLAUSE_COVERS', '1') != '0':
        run_clause_covers(rep, groups)
    rep.assumptions = base + list(trusted) + rep.assumptions
    if extra:
        extra(rep, tu)
    return finish(rep, level=level, trusted_base=base + list(trusted), concretise=concretise,
                  technique=technique, explanation=explanation)
