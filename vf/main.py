"""entry point:  ./check <property> [--tier quick|thorough] [--replay FILE]"""
import argparse
import importlib
import os
import sys
import traceback

VERIF = os.path.dirname(os.path.dirname(os.path.abspath(__file__)))
sys.path.insert(0, VERIF)


def main():
    ap = argparse.ArgumentParser()
    ap.add_argument('prop')
    ap.add_argument('--tier', default=os.environ.get('VERIF_TIER', 'quick'), choices=['quick', 'thorough'])
    ap.add_argument('--replay')
    a = ap.parse_args()
    seed = int(os.environ.get('VERIF_SEED', '0') or 0)
    if a.replay:
        from vf import replay
        rc, out = replay.run_script(a.replay)
        print(out)
        if rc == 1:
            print("VIOLATION property=%s replay=%s" % (a.prop, a.replay))
        return rc
    try:
        mod = importlib.import_module('props.' + a.prop)
        return mod.main(a.tier, seed)
    except Exception:
        traceback.print_exc()
        print("CHECKER-ERROR: internal error in the check for %s (not a verdict)" % a.prop)
        return 3


if __name__ == '__main__':
    sys.exit(main())
