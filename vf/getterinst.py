"""API-mode integer-constant getters ("static int _cffi_const_X(unsigned long long *o)") only exist inside
generated modules.  To verify the code that really is generated, the check asks the real recompiler (the tree under
test, run with /venv/bin/python) to emit a module for a fixed cdef with sentinel values, cuts the getter functions
out of the emitted text and instantiates each for every C integer type of the constant:

  * the constant's name is #defined to a static variable of the type under test (its value is then arbitrary);
  * the sentinel literal that `_generate_cpy_const` printed as the expected value -- `123456789U` for a positive
    cdef value, `-123456789` for a negative one -- is replaced by a variable `EXPECTED_U` (unsigned long long) or
    `EXPECTED_S` (long long).  This is the only change to the emitted text; it is value-preserving because the
    macro uses `expected` only as `expected <= 0` and `(unsigned long long)expected`, whose results depend on the
    mathematical value alone for every C type a decimal literal can have (int ... unsigned long long, __int128 for
    -2^63 on gcc);
  * everything else -- the `_cffi_check_int` macro from the real `_cffi_include.h`, `n |= 2`, the `| 0` -- is
    compiled by clang as emitted.
"""
import os
import re
import shutil
import subprocess
import tempfile

from . import cfront

EMIT = r'''
import io, sys
import cffi
ffi = cffi.FFI()
ffi.cdef("""
#define CFFIV_POS 123456789
#define CFFIV_NEG -123456789
#define CFFIV_ZERO 0
#define CFFIV_ANY ...
enum cffiv_e { CFFIV_EA = 4242, CFFIV_EB };
enum cffiv_p { CFFIV_PA, CFFIV_PB, ... };
static const int CFFIV_K;
struct cffiv_chk { int a; short b; };
struct cffiv_flex { int a; ...; };
union cffiv_un { int a; char b; };
struct cffiv_opq;
""")
ffi.cdef("struct cffiv_pk { char a; int b; };", packed=True)
ffi.set_source("_cffiv", "")
f = io.StringIO()
ffi.emit_c_code(f)
sys.stdout.write(f.getvalue())
'''

X_TYPES = ['_Bool', 'char', 'signed char', 'unsigned char', 'short', 'unsigned short', 'int', 'unsigned int', 'long',
           'unsigned long', 'long long', 'unsigned long long']
GETTERS = ['CFFIV_POS', 'CFFIV_NEG', 'CFFIV_ZERO', 'CFFIV_ANY', 'CFFIV_EA', 'CFFIV_PA', 'CFFIV_K']
STRUCT_FLAGS = {'cffiv_chk': {'_CFFI_F_CHECK_FIELDS'}, 'cffiv_flex': set(), 'cffiv_un': {'_CFFI_F_UNION', '_CFFI_F_CHECK_FIELDS'},
                'cffiv_opq': {'_CFFI_F_OPAQUE'}, 'cffiv_pk': {'_CFFI_F_CHECK_FIELDS', '_CFFI_F_PACKED'}}


def ident(t):
    return t.replace(' ', '_')


def emitted_text():
    env = dict(os.environ, PYTHONPATH=os.path.join(cfront.REPO, 'src'))
    d = tempfile.mkdtemp(prefix='cffi-emit-')
    try:
        p = subprocess.run(['/venv/bin/python', '-c', EMIT], capture_output=True, text=True, env=env, cwd=d, timeout=120)
    finally:
        shutil.rmtree(d, True)
    if p.returncode != 0:
        raise cfront.FrontEndError("the recompiler of the tree under test failed to emit the probe module: " + p.stderr[-800:])
    return p.stdout


def cut_getters(text):
    out = {}
    for nm in GETTERS:
        m = re.search(r'static int _cffi_const_%s\(unsigned long long \*o\)\n\{\n(.*?)\n\}\n' % nm, text, re.S)
        if not m:
            raise cfront.FrontEndError("no getter for %s in the emitted module (generator changed?)" % nm)
        out[nm] = m.group(0)
    return out


def make_tu():
    """-> (TU, {instance function name: (getter, type, which expected variable or None)}, {getter: emitted text})"""
    text = emitted_text()
    getters = cut_getters(text)
    make_tu.last_text = text
    d = tempfile.mkdtemp(prefix='cffi-getterinst-')
    import atexit
    atexit.register(shutil.rmtree, d, True)
    lines = ['#include <sys/types.h>', '#include "%s"' % os.path.join(cfront.REPO, 'src/cffi/_cffi_include.h'),
             'static unsigned long long EXPECTED_U;', 'static long long EXPECTED_S;']
    inst = {}
    for nm, text in getters.items():
        exp = None
        body = text
        if '123456789U' in body:
            body, exp = body.replace('123456789U', 'EXPECTED_U'), 'EXPECTED_U'
        elif '-123456789' in body:
            body, exp = body.replace('-123456789', 'EXPECTED_S'), 'EXPECTED_S'
        elif nm == 'CFFIV_ZERO':
            exp = 'ZERO'
        elif nm == 'CFFIV_EA' and '4242' in body:
            body, exp = body.replace('4242U', 'EXPECTED_U'), 'EXPECTED_U'
        if re.search(r'\d{4,}', body):
            raise cfront.FrontEndError("unexpected literal left in the getter of %s: %r" % (nm, body))
        for t in X_TYPES:
            var = 'Xv_%s_%s' % (nm, ident(t))
            fn = 'getter_%s_%s' % (nm, ident(t))
            lines.append('static %s %s;' % (t, var))
            lines.append('#define %s %s' % (nm, var))
            lines.append(body.replace('_cffi_const_%s(' % nm, fn + '('))
            lines.append('#undef %s' % nm)
            inst[fn] = (nm, t, exp, var)
    path = os.path.join(d, 'getters.c')
    open(path, 'w').write("\n".join(lines) + "\n")
    return cfront.load_tu(path), inst, getters


def struct_flags(text):
    """the flag word the generator printed for each sentinel struct/union in _cffi_struct_unions[]"""
    out = {}
    for nm in STRUCT_FLAGS:
        m = re.search(r'\{ "%s", \d+, ([A-Z_|0-9a-z]+),' % nm, text)
        if not m:
            raise cfront.FrontEndError("no _cffi_struct_unions[] entry for %s in the emitted module" % nm)
        out[nm] = set(f for f in m.group(1).split('|') if f != '0')
    return out
