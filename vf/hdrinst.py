"""The macros of src/cffi/_cffi_include.h only exist inside generated modules.  To read
them from the real header text, a tiny generated translation unit #includes the real
header and instantiates each macro once per integer type; clang expands them and the
instances are verified like any other function.  Calls through the export table
``_cffi_exports[k]`` are resolved to the backend function that the initialiser of
``cffi_exports[k]`` in _cffi_backend.c names (read from the backend's AST), whose
contract is then used: the pairing of the two tables is checked, not assumed.
"""
import os
import shutil
import tempfile

import z3

from . import cfront
from .cexec import Contract, Frame, NotSupported, BV

INT_TYPES = [
    'char', 'signed char', 'unsigned char', 'short', 'unsigned short', 'int', 'unsigned int', 'long',
    'unsigned long', 'long long', 'unsigned long long',
    'int8_t', 'uint8_t', 'int16_t', 'uint16_t', 'int32_t', 'uint32_t', 'int64_t', 'uint64_t',
    'intptr_t', 'uintptr_t', 'ptrdiff_t', 'size_t', 'ssize_t',
    'int_least8_t', 'uint_least8_t', 'int_least16_t', 'uint_least16_t', 'int_least32_t', 'uint_least32_t',
    'int_least64_t', 'uint_least64_t', 'int_fast8_t', 'uint_fast8_t', 'int_fast16_t', 'uint_fast16_t',
    'int_fast32_t', 'uint_fast32_t', 'int_fast64_t', 'uint_fast64_t', 'intmax_t', 'uintmax_t',
]


def ident(t):
    return t.replace(' ', '_')


def make_tu(extra_src=''):
    d = tempfile.mkdtemp(prefix='cffi-hdrinst-')
    path = os.path.join(d, 'inst.c')
    lines = ['#include <sys/types.h>', '#include "%s"' % os.path.join(cfront.REPO, 'src/cffi/_cffi_include.h')]
    for t in INT_TYPES:
        lines.append('static %s inst_to_c_%s(PyObject *o) { return _cffi_to_c_int(o, %s); }' % (t, ident(t), t))
        lines.append('static PyObject *inst_from_c_%s(%s x) { return _cffi_from_c_int(x, %s); }' % (ident(t), t, t))
    lines.append(extra_src)
    open(path, 'w').write("\n".join(lines) + "\n")
    import atexit
    atexit.register(shutil.rmtree, d, True)
    tu = cfront.load_tu(path)
    return tu


def export_table(backend_tu):
    """index -> backend function name, from the initialiser of cffi_exports[] in _cffi_backend.c"""
    g = backend_tu.globals.get('cffi_exports')
    if g is None:
        raise NotSupported("cffi_exports[] not found in the backend")
    init = None
    for c in g.get('inner', []):
        if c.get('kind') == 'InitListExpr':
            init = c
    if init is None:
        raise NotSupported("cffi_exports[] has no initialiser")
    out = {}
    for k, e in enumerate(init.get('inner', [])):
        x = e
        while x.get('kind') in ('ImplicitCastExpr', 'CStyleCastExpr', 'ParenExpr', 'UnaryOperator'):
            x = x['inner'][0]
        if x.get('kind') == 'DeclRefExpr':
            out[k] = x['referencedDecl']['name']
        elif x.get('kind') == 'IntegerLiteral':
            out[k] = None
    return out


def export_call_model(backend_tu, R):
    table = export_table(backend_tu)

    def model(ex, st, args, n):
        callee = n['inner'][0]

        def find(x):
            if x.get('kind') == 'ArraySubscriptExpr':
                a, b = x['inner']
                base = a
                while base.get('kind') in ('ImplicitCastExpr', 'ParenExpr'):
                    base = base['inner'][0]
                if base.get('kind') == 'DeclRefExpr' and base['referencedDecl']['name'] == '_cffi_exports':
                    return ex.tu._const_eval(b)
            for c in x.get('inner', []) or []:
                r = find(c)
                if r is not None:
                    return r
            return None
        k = find(callee)
        if k is None:
            raise NotSupported("indirect call that is not through _cffi_exports[k]")
        name = table.get(k)
        if name is None or name not in R.contracts:
            raise NotSupported("_cffi_exports[%s] -> %s has no contract" % (k, name))
        # the cast at the call site must agree with the backend function's real signature
        fd = backend_tu.fundecls[name]
        want = backend_tu.parse_type(fd['type']['qualType'].split('(')[0].strip())
        got = ex.tu.ctype_of(n)
        if (want.kind, want.size, want.signed) != (got.kind, got.size, got.signed):
            ex.ob('export-table', cfront.line_of(n), '_cffi_exports[%d]-cast-matches-%s' % (k, name), st,
                  z3.BoolVal(False))
        ex.export_used = getattr(ex, 'export_used', {})
        ex.export_used[k] = name
        # use the backend's declaration for parameter names
        saved = ex.tu
        ex.fninfo_file()
        try:
            ex.tu = backend_tu
            return ex.call_contract(R.contracts[name], name, st, args[1:], n)
        finally:
            ex.tu = saved
    return model
